"""Bounded run-time contracts for C12 -- translation and complementing follow the genetic-code tables.

Every contract runs a real cogent3 entry point and compares the WHOLE result (all frames / all rows of a
collection, names and order included) with the independent spec in speclib/c12_spec.py: NCBI tables written as
"standard code + documented reassignments", IUPAC sets, codon-by-codon lifting, minus strand = frames of the
reverse complement read from its own 5' end.

Where the property statement leaves behaviour open the contracts accept every allowed outcome:
  * a frame that starts at or after the end of the sequence: '' or ValueError (old GeneticCode.translate documents it);
  * length not a multiple of 3: truncation to complete codons, or an exception when incomplete_ok=False ("strict");
  * include_stop=True together with trim_stop=True and a terminal stop: stop kept or trimmed (the *agree* contract then
    demands that all entry points pick the same reading);
  * a trimmed terminal stop may be dropped or (alignments, gapped sequences) be replaced by a gap column;
  * gap handling is outside the statement: only whole in-frame '---' codons are generated, they must give '-' when a
    value is returned, and any exception is accepted for gapped input when incomplete_ok=False;
  * which exception type is raised for a rejected stop codon.
Results are `bounded`, never proved.
"""
from __future__ import annotations

import itertools
import random

from speclib import c12_spec as S

CODE_IDS = S.CODE_IDS
# codons that are a stop in at least one NCBI table, plus start / plain sense codons
K = ["ATG", "AAA", "TAA", "TAG", "TGA", "AGA", "AGG", "TCA", "TTA", "CTG", "ATA"]
TAILS = ["", "C", "CA"]


def all_seqs(lo, hi, alphabet="ACGT"):
    for L in range(lo, hi + 1):
        for t in itertools.product(alphabet, repeat=L):
            yield "".join(t)


def k_seqs(ncodons, tails=("",)):
    for n in ncodons:
        for cs in itertools.product(K, repeat=n):
            for t in tails:
                yield "".join(cs) + t


def rnd_seq(rnd, lo, hi):
    return "".join(rnd.choice("ACGT") for _ in range(rnd.randint(lo, hi)))


def rnd_coding(rnd, gid, maxcodons=12):
    """random codon-structured sequence: sense body, optional internal stop, optional terminal stop, optional tail"""
    sense = [c for c in S.CODONS if S.TABLES[gid][c] != "*"]
    stops = S.STOPS[gid]
    body = [rnd.choice(sense) for _ in range(rnd.randint(0, maxcodons))]
    if stops and body and rnd.random() < 0.25:
        body[rnd.randrange(len(body))] = rnd.choice(stops)
    if stops and rnd.random() < 0.5:
        body.append(rnd.choice(stops))
    return "".join(body) + rnd.choice(["", "", "", "A", "GT"])


def _exc(e):
    return f"{type(e).__name__}: {str(e)[:120]}"


def old_code(gid):
    from cogent3.core import genetic_code
    return genetic_code.get_code(gid)


def new_code(gid):
    from cogent3.core import new_genetic_code
    return new_genetic_code.get_code(gid)


def mk_seq(s, new, mt="dna", name="s1"):
    from cogent3 import make_seq
    return make_seq(s, name=name, moltype=mt, new_type=new)


# ==================================================================================================== codes
def gen_codes(tier, seed):
    for impl in ("old", "new"):
        for gid in CODE_IDS:
            yield [impl, gid]


def contract_codes(case):
    impl, gid = case
    from cogent3.core import genetic_code, new_genetic_code
    mod = genetic_code if impl == "old" else new_genetic_code
    pre = f"codes/{impl}"
    try:
        ids = sorted(int(i) for i in mod.available_codes().columns["Code ID"])
    except Exception as e:
        return ("fail", f"{pre}/available_codes/raises", f"{case}: {_exc(e)}")
    if ids != CODE_IDS:
        return ("fail", f"{pre}/available_codes/id-set", f"available ids {ids}, NCBI spec {CODE_IDS}")
    try:
        gc = mod.get_code(gid)
    except Exception as e:
        return ("fail", f"{pre}/get_code/raises/code{gid}", f"{case}: {_exc(e)}")
    table = S.TABLES[gid]
    for codon, aa in table.items():
        for spelled in (codon, codon.replace("T", "U")):
            try:
                got = gc[spelled]
                stop = gc.is_stop(spelled)
            except Exception as e:
                return ("fail", f"{pre}/getitem/raises/code{gid}", f"{case} codon {spelled}: {_exc(e)}")
            if got != aa:
                return ("fail", f"{pre}/getitem/code{gid}/{codon}", f"code {gid}: gc[{spelled!r}] = {got!r}, NCBI table {aa!r}")
            if bool(stop) != (aa == "*"):
                return ("fail", f"{pre}/is_stop/code{gid}/{codon}", f"code {gid}: is_stop({spelled!r}) = {stop!r}, table {aa!r}")
        try:
            got = gc.translate(codon)
        except Exception as e:
            return ("fail", f"{pre}/translate-one-codon/raises/code{gid}", f"{case} codon {codon}: {_exc(e)}")
        if got != aa:
            return ("fail", f"{pre}/translate-one-codon/code{gid}/{codon}", f"code {gid}: translate({codon!r}) = {got!r}, table {aa!r}")
    for aa in sorted(set(table.values())):
        want = sorted(c for c, a in table.items() if a == aa)
        try:
            got = sorted(gc[aa])
        except Exception as e:
            return ("fail", f"{pre}/codons-of-aa/raises/code{gid}", f"{case} aa {aa}: {_exc(e)}")
        if got != want:
            return ("fail", f"{pre}/codons-of-aa/code{gid}/{aa}", f"code {gid}: gc[{aa!r}] = {got}, table inverse {want}")
    sense = sorted(c for c, a in table.items() if a != "*")
    got_sense = sorted(gc.sense_codons)
    if got_sense != sense:
        return ("fail", f"{pre}/sense_codons/code{gid}", f"code {gid}: sense codons {got_sense} != {sense}")
    if impl == "new" and sorted(gc.stop_codons) != S.STOPS[gid]:
        return ("fail", f"{pre}/stop_codons/code{gid}", f"code {gid}: stop codons {sorted(gc.stop_codons)} != {S.STOPS[gid]}")
    return ("ok", True)


# ==================================================================================================== frames
CHEAP = ["old.translate", "new.translate+", "new.translate-", "new.sixframes"]
COSTLY = ["old.sixframes", "app.translate_frames"]


def gen_frames(tier, seed):
    rnd = random.Random(seed)
    thorough = tier == "thorough"
    hi_all = 6 if thorough else 4
    for gid in CODE_IDS:
        for s in all_seqs(0, hi_all):
            for e in CHEAP:
                yield [e, gid, s]
    for gid in (CODE_IDS if thorough else [1, 2, 11, 22]):     # one length further
        for s in all_seqs(hi_all + 1, hi_all + 1):
            for e in CHEAP:
                yield [e, gid, s]
    if not thorough:
        for s in all_seqs(6, 6):
            for e in CHEAP:
                yield [e, 1, s]
    # the entry points that need sequence objects (2 ms each)
    for s in all_seqs(0, 6 if thorough else 4):
        for e in COSTLY:
            yield [e, 1, s]
    picked = list(all_seqs(0, 2)) + list(k_seqs((1, 2) if thorough else (1,), TAILS)) + ["ACGTACG", "TTACATCTAA"]
    for gid in CODE_IDS:
        if gid == 1:
            continue
        for s in picked:
            for e in COSTLY:
                yield [e, gid, s]
    # RNA spelling (the genetic-code objects advertise RNA or DNA strings)
    for gid in (1, 2):
        for s in all_seqs(1, 4 if thorough else 3, "ACGU"):
            if "U" in s:
                for e in ("old.translate", "new.translate+", "new.translate-"):
                    yield [e, gid, s]
    # beyond the frontier
    n = 4000 if thorough else 300
    for i in range(n):
        gid = rnd.choice(CODE_IDS)
        s = rnd_seq(rnd, 8, 60)
        for e in CHEAP + (COSTLY if i % 4 == 0 else []):
            yield [e, gid, s]
    # long sequences around the 2**8 and 2**16 codon counts (index dtype boundaries), all entry points
    # (added by the reviewer after a sub-agent noticed new translate() returning garbage for >= 256 codons)
    for ncod in ((255, 256, 257, 300) if not thorough else (254, 255, 256, 257, 300, 1000, 65535, 65536, 65537)):
        for extra in (0, 1, 2):
            s = rnd_seq(rnd, 3 * ncod + extra, 3 * ncod + extra)
            for gid in (1, 2):
                for e in CHEAP + (COSTLY if ncod <= 1000 else []):
                    yield [e, gid, s]


def _frame_class(got, s, gid, f, mt):
    """name the witness pattern of a wrong minus-strand frame"""
    k = (len(s) - f) // 3 if len(s) >= f else 0
    alt = S.translate_str(S.rc_spec(s[f:f + 3 * k], mt), gid) if k >= 0 else None
    if got == alt:
        return "frame-numbered-from-plus-strand-start"
    if isinstance(got, str) and got[::-1] == alt:
        return "frame-numbered-from-plus-strand-start+reversed"
    return "other"


def contract_frames(case):
    entry, gid, s = case
    mt = "rna" if "U" in s else "dna"
    tag = "/rna-spelling" if mt == "rna" else ""
    want = S.six_frames(s, gid, mt)
    pre = f"frames/{entry}{tag}"
    L = len(s)
    try:
        if entry in ("old.translate", "new.translate+", "new.translate-"):
            gc = old_code(gid) if entry.startswith("old") else new_code(gid)
            minus = entry.endswith("-")
            for f in range(3):
                exp = want[3 + f] if minus else want[f]
                try:
                    got = gc.translate(s, f, rc=True) if minus else gc.translate(s, f)
                except ValueError as e:
                    if 0 < L <= f:          # the frame does not exist: documented ValueError is acceptable
                        continue
                    return ("fail", f"{pre}/raises-ValueError", f"code {gid} {s!r} start={f}: {_exc(e)}; expected {exp!r}")
                if got != exp:
                    cls = "symbol-X" if "X" in str(got) else (_frame_class(got, s, gid, f, mt) if minus else "other")
                    return ("fail", f"{pre}/{cls}",
                            f"code {gid}: translate({s!r}, {f}{', rc=True' if minus else ''}) = {got!r}; spec "
                            f"{'translate(rc(s))' if minus else 'codons'} from {f} = {exp!r}")
            return ("ok", L >= 3)
        if entry == "new.sixframes":
            got = list(new_code(gid).sixframes(s))
            lab = {(a, b): c for a, b, c in got}
            exp = {(st, f): want[(0 if st == "+" else 3) + f] for st in "+-" for f in range(3)}
            if sorted(lab) != sorted(exp) or len(got) != 6:
                return ("fail", f"{pre}/frame-labels", f"code {gid} {s!r}: labels {sorted(lab)}")
            for (st, f), v in sorted(exp.items()):
                if lab[(st, f)] != v:
                    cls = _frame_class(lab[(st, f)], s, gid, f, mt) if st == "-" else "other"
                    return ("fail", f"{pre}/{'minus' if st == '-' else 'plus'}/{cls}",
                            f"code {gid}: sixframes({s!r})[{st}{f}] = {lab[(st, f)]!r}; spec {v!r}")
            return ("ok", L >= 3)
        if entry == "old.sixframes":
            try:
                got = list(old_code(gid).sixframes(mk_seq(s, False)))
            except ValueError as e:
                if 0 < L < 3:
                    return ("ok", False)
                raise
        else:
            from cogent3.app import translate as tr
            try:
                got3 = list(tr.translate_frames(s, moltype="dna", gc=gid, allow_rc=False))
                got = list(tr.translate_frames(s, moltype="dna", gc=gid, allow_rc=True))
            except ValueError as e:
                if 0 < L < 3:
                    return ("ok", False)
                raise
            if got3 != got[:3] or len(got3) != 3:
                return ("fail", f"{pre}/allow_rc=False-differs", f"code {gid} {s!r}: {got3} vs {got}")
        if len(got) != 6:
            return ("fail", f"{pre}/frame-count", f"code {gid} {s!r}: {got}")
        for i in range(6):
            if str(got[i]) != want[i]:
                cls = _frame_class(str(got[i]), s, gid, i - 3, mt) if i >= 3 else "other"
                return ("fail", f"{pre}/{'minus' if i >= 3 else 'plus'}/{cls}",
                        f"code {gid}: six frames of {s!r} = {[str(g) for g in got]}; spec {want}")
        return ("ok", L >= 3)
    except Exception as e:
        return ("fail", f"{pre}/raises-{type(e).__name__}", f"code {gid} {s!r}: {_exc(e)}")


# ==================================================================================================== translation
SEQ_ENTRIES = ["old.seq", "new.seq"]
COLL_ENTRIES = ["old.coll", "new.coll", "old.aln", "old.arr"]
ENTRIES = SEQ_ENTRIES + COLL_ENTRIES
OPTS = [[ok, stop, trim] for ok in (False, True) for stop in (False, True) for trim in (False, True)]


def in_frame_gaps(s):
    body = s[:len(s) - len(s) % 3]
    for i in range(0, len(body), 3):
        c = body[i:i + 3]
        if "-" in c and c != "---":
            return False
    return "-" not in s[len(body):]


def seq_class(s, gid, flags=True):
    cod = S.translate_spec(s, gid)
    nong = [i for i, a in enumerate(cod) if a != "-"]
    tags = []
    if not s.replace("-", ""):
        tags.append("no-bases")
    elif not nong:
        tags.append("shorter-than-a-codon")
    else:
        last = nong[-1]
        internal = [i for i in nong[:-1] if cod[i] == "*"]
        term = cod[last] == "*"
        if term and len(nong) == 1:
            tags.append("only-a-stop-codon")
        elif term and internal:
            run = len(nong) - 1
            while run > 0 and cod[nong[run - 1]] == "*":
                run -= 1
            tags.append("trailing-run-of-stops" if all(nong.index(i) >= run for i in internal) else "internal+terminal-stop")
        elif term:
            tags.append("terminal-stop")
        elif internal:
            tags.append("internal-stop")
        else:
            tags.append("no-stop")
    if flags and len(s) % 3:
        tags.append("len%3!=0")
    if flags and "-" in s:
        tags.append("gapped")
    return "+".join(tags)


def witness_class(named, gid, exc_name=None, exc_text=""):
    """coarse, stable class of a (multi-)sequence witness for failure keys"""
    cls = [seq_class(s, gid, flags=False) for _, s in named]
    if exc_name == "InvalidCodonError":
        for c in ("no-bases", "only-a-stop-codon", "shorter-than-a-codon"):
            if c in cls:
                return "sequence-" + c if c == "no-bases" else c
    if exc_name and "unresolvable codon" in exc_text and "U" in exc_text.split("unresolvable codon")[1][:8]:
        return "codon-with-U-unresolvable"
    return "|".join(sorted(set(cls)))


def outcome(s, gid, ok, stop, trim):
    """(allowed values, raise allowed, reason a value must be rejected or None) for ONE sequence"""
    cod = S.translate_spec(s, gid)
    assert None not in cod
    rem = len(s) % 3
    full = "".join(cod)
    nong = [i for i, a in enumerate(cod) if a != "-"]
    last = nong[-1] if nong else None
    term = last is not None and cod[last] == "*"
    internal = any(cod[i] == "*" for i in nong[:-1])
    t1 = full[:last] + full[last + 1:] if term else None
    t2 = full[:last] + "-" + full[last + 1:] if term else None
    may_raise = (rem != 0 and not ok) or ("-" in s and not ok)
    if not stop:
        if internal:
            return set(), True, "internal-stop"
        if term:
            if not trim:
                return set(), True, "terminal-stop-not-trimmed"
            if rem:      # whether a stop followed by an incomplete codon is 'terminal' is left open
                return {t1, t2}, True, None
            return {t1, t2}, may_raise, None
        return {full}, may_raise, None
    if term and trim:
        return {full, t1, t2}, may_raise, None
    return {full}, may_raise, None


def build(entry, named, mt="dna"):
    from cogent3 import make_aligned_seqs, make_unaligned_seqs
    new = entry.startswith("new")
    kind = entry.split(".")[1]
    if kind == "seq":
        return mk_seq(named[0][1], new, mt, named[0][0])
    data = {n: s for n, s in named}
    if kind == "coll":
        return make_unaligned_seqs(data, moltype=mt, new_type=new)
    return make_aligned_seqs(data, moltype=mt, array_align=(kind == "arr"))


def view_of(result, kind):
    """abstract view of a translation result: (names in order, name -> string, moltype label)"""
    if kind == "seq":
        return [result.name], {result.name: str(result)}, getattr(result.moltype, "label", getattr(result.moltype, "name", ""))
    d = {k: str(v) for k, v in result.to_dict().items()}
    return list(result.names), d, getattr(result.moltype, "label", getattr(result.moltype, "name", ""))


def run_translation(entry, named, gid, ok, stop, trim, mt="dna", view=None):
    """('val', names, dict, label) | ('exc', type name, text)"""
    kind = entry.split(".")[1]
    try:
        obj = build(entry, named, mt)
        if view:
            if view[0] == "-":
                obj = obj.rc()
            if view[1]:
                obj = obj[view[1]:]
        res = obj.get_translation(gid, incomplete_ok=ok, include_stop=stop, trim_stop=trim)
        names, d, label = view_of(res, kind)
        return ("val", names, d, label)
    except Exception as e:
        return ("exc", type(e).__name__, _exc(e))


def judge(pre, got, named, gid, ok, stop, trim, aligned, ctx):
    """compare one run with the per-sequence outcome sets; `named` holds the DISPLAYED nucleotide strings"""
    outs = [outcome(s, gid, ok, stop, trim) for _, s in named]
    oc = f"include_stop={int(stop)},trim_stop={int(trim)}"
    must_reject = [o[2] for o in outs if o[2]]
    may_raise = any(o[1] for o in outs)
    if got[0] == "exc":
        if may_raise:
            return ("ok", bool(must_reject))
        wc = witness_class(named, gid, got[1], got[2])
        special = wc == "codon-with-U-unresolvable" or (got[1] == "InvalidCodonError" and wc in ("sequence-no-bases", "only-a-stop-codon"))
        mid = "" if special else f"{oc}/"
        return ("fail", f"{pre}/raises-{got[1]}/{mid}{wc}", f"{ctx}: {got[2]}; spec allows only values {[sorted(o[0]) for o in outs]}")
    _, names, d, label = got
    if names != [n for n, _ in named] or sorted(d) != sorted(names):
        return ("fail", f"{pre}/names-or-order-changed", f"{ctx}: result names {names} / {sorted(d)}")
    if must_reject:
        shown = "stop-in-output" if any("*" in v for v in d.values()) else "stop-silently-removed"
        sc = "|".join(sorted({seq_class(s, gid, flags=False) for (_, s), o in zip(named, outs) if o[2]}))
        return ("fail", f"{pre}/{oc}/accepted-but-must-reject({'+'.join(sorted(set(must_reject)))})/{shown}/{sc}",
                f"{ctx}: returned {d}; the request neither trims nor allows this stop codon, so it must be rejected")
    for (n, s), o in zip(named, outs):
        if d[n] not in o[0]:
            full = "".join(S.translate_spec(s, gid))
            if d[n] == full:
                cls = "terminal-stop-kept"
            elif len(d[n]) not in {len(v) for v in o[0]}:
                cls = "length"
            else:
                cls = "codon-mismatch"
            return ("fail", f"{pre}/{oc}/wrong-value({cls})/{seq_class(s, gid)}", f"{ctx}: row {n} = {d[n]!r}, spec allows {sorted(o[0])} for {s!r}")
    if aligned and len({len(v) for v in d.values()}) > 1:
        return ("fail", f"{pre}/{oc}/ragged-alignment", f"{ctx}: {d}")
    if not str(label).startswith("protein"):
        return ("fail", f"{pre}/result-moltype", f"{ctx}: result moltype {label!r}")
    if any("*" in v for v in d.values()) and label != "protein_with_stop":
        return ("fail", f"{pre}/result-moltype-without-stop", f"{ctx}: {d} has moltype {label!r}")
    return ("ok", any(len(s) >= 3 for _, s in named))


GAPPED = ["---", "ATG---", "---ATG", "ATGTAA---", "ATG---TAA", "---TAA", "TAA---", "ATG---AAA", "ATG------",
          "TAAATG---", "ATG---C", "ATGTGA---", "AGA---", "ATGAGA---"]
MULTI = [["ATGAAA", "ATGTAA"], ["ATGTAA", "CCCTGA"], ["ATGAAA", "CTGCCC"], ["TAAATG", "ATGAAA"], ["ATGAAA", "TAAATG"],
         ["ATGTAA", "ATG---"], ["ATGTAA---", "ATGAAATGA"], ["ATGAAATAA", "ATGTAA---"], ["ATG", "TAA"], ["ATGAA", "ATGTA"],
         ["ATGAAAC", "ATGTAAC"], ["AGAATG", "ATGAGA"], ["ATGAAA", "ATGAAA", "ATGTAG"], ["", ""], ["ATGAGA", "ATGTCA"]]
MULTI_RAGGED = [["ATGAAA", "ATGTAAC"], ["ATG", "ATGTAA"], ["ATGTAA", ""], ["ATGAAATAA", "TAA"], ["ATGAA", "ATGTAA"]]


def gen_translation(tier, seed):
    rnd = random.Random(seed)
    thorough = tier == "thorough"
    # (1) code 1, every entry point, every option triple, single sequence
    if thorough:
        base = list(all_seqs(0, 5)) + list(k_seqs((2,), TAILS))
    else:
        base = list(all_seqs(0, 3)) + list(k_seqs((1,), TAILS)) + list(k_seqs((2,), ("", "CA")))
    for s in base:
        for e in ENTRIES:
            for o in OPTS:
                yield [e, 1, "dna", [["s1", s]], o, None]
    if thorough:
        for s in all_seqs(6, 6):
            for e in SEQ_ENTRIES:
                for o in OPTS:
                    yield [e, 1, "dna", [["s1", s]], o, None]
        for s in k_seqs((3,)):
            for e in ENTRIES:
                for o in OPTS[4:]:
                    yield [e, 1, "dna", [["s1", s]], o, None]
    # (2) every code on the stop-relevant codons
    for gid in CODE_IDS:
        if gid == 1:
            continue
        for s in k_seqs((1, 2) if thorough else (1,), ("", "CA") if thorough else ("",)):
            for e in SEQ_ENTRIES:
                for o in OPTS:
                    yield [e, gid, "dna", [["s1", s]], o, None]
        for s in k_seqs((1, 2) if thorough else (1,)):
            for e in COLL_ENTRIES:
                for o in (OPTS[4:] if thorough else OPTS):    # length % 3 == 0: incomplete_ok plays no role
                    yield [e, gid, "dna", [["s1", s]], o, None]
        if not thorough:
            for s in k_seqs((2,)):
                for e in SEQ_ENTRIES:
                    for o in ([False, False, True], [True, True, False]):
                        yield [e, gid, "dna", [["s1", s]], o, None]
    # (3) strand / frame views of a sequence object: rc() and [f:]
    for s in all_seqs(3, 5 if thorough else 4):
        for e in SEQ_ENTRIES:
            for view in (["+", 1], ["+", 2], ["-", 0], ["-", 1], ["-", 2]):
                for o in (OPTS[:4] if thorough else [[True, True, False], [False, False, True]]):
                    yield [e, 1, "dna", [["s1", s]], o, view]
    for s in k_seqs((2,)):
        for e in SEQ_ENTRIES + ["old.coll", "new.coll", "old.aln", "old.arr"]:
            for o in ([[False, False, True], [True, True, True], [False, False, False]]):
                yield [e, 2, "dna", [["s1", S.rc_spec(s)]], o, ["-", 0]]
    # (4) RNA
    for s in list(all_seqs(3, 3, "ACGU")) + [x.replace("T", "U") for x in k_seqs((2,), TAILS if thorough else ("",))]:
        for e in ENTRIES:
            for o in (OPTS if thorough else [[False, False, True], [True, True, False]]):
                yield [e, 1, "rna", [["s1", s]], o, None]
    # (5) whole-codon gaps
    for gid in (1, 2):
        for s in GAPPED:
            for e in ENTRIES:
                for o in OPTS:
                    yield [e, gid, "dna", [["s1", s]], o, None]
    # (6) several sequences; names deliberately not in sorted order
    for gid in (1, 2, 22):
        for seqs in MULTI + MULTI_RAGGED:
            named = [[n, s] for n, s in zip(["s3", "s1", "s2"], seqs)]
            for e in COLL_ENTRIES:
                if e in ("old.aln", "old.arr") and len({len(s) for s in seqs}) > 1:
                    continue
                for o in OPTS:
                    yield [e, gid, "dna", named, o, None]
    # (7) beyond the frontier: random codon-structured sequences, random code
    for i in range(6000 if thorough else 400):
        gid = rnd.choice(CODE_IDS)
        k = rnd.choice([1, 1, 2, 3])
        seqs = [rnd_coding(rnd, gid) for _ in range(k)]
        e = rnd.choice(SEQ_ENTRIES if k == 1 and i % 2 else COLL_ENTRIES)
        if e.endswith("seq"):
            seqs = seqs[:1]
        if e in ("old.aln", "old.arr"):
            seqs = [seqs[0]] + [rnd_coding(rnd, gid) for _ in range(len(seqs) - 1)]
            L = max(len(x) for x in seqs)
            L += (-L) % 3
            seqs = [x[:len(x) - len(x) % 3] for x in seqs]
            seqs = [x + "-" * (L - len(x)) for x in seqs]
        named = [[n, s] for n, s in zip(["s3", "s1", "s2"], seqs)]
        yield [e, gid, "dna", named, rnd.choice(OPTS), None]


def contract_translation(case):
    entry, gid, mt, named, (ok, stop, trim), view = case
    kind = entry.split(".")[1]
    shown = []
    for n, s in named:
        if not in_frame_gaps(s):
            return ("skip",)
        d = s
        if view:
            if view[0] == "-":
                d = S.rc_spec(d, mt)
            d = d[view[1]:]
        shown.append([n, d])
    got = run_translation(entry, named, gid, ok, stop, trim, mt, view)
    vt = "" if not view else f"/view{view[0]}{view[1]}"
    pre = f"translation/{entry}/{mt}{vt}"
    ctx = f"{entry} code {gid} {mt} {named} view={view} incomplete_ok={ok} include_stop={stop} trim_stop={trim}"
    return judge(pre, got, shown, gid, ok, stop, trim, kind in ("aln", "arr"), ctx)


# ==================================================================================================== agree
def gen_agree(tier, seed):
    rnd = random.Random(seed)
    thorough = tier == "thorough"
    base = list(all_seqs(0, 4 if thorough else 2)) + list(k_seqs((1, 2), TAILS if thorough else ("",))) + GAPPED
    for s in base:
        for o in OPTS:
            yield [1, [["s1", s]], o]
    for gid in CODE_IDS:
        if gid == 1:
            continue
        for s in k_seqs((1,)):
            for o in OPTS[4:]:
                yield [gid, [["s1", s]], o]
        if thorough:
            for s in k_seqs((2,)):
                for o in ([True, True, True], [True, False, True]):
                    yield [gid, [["s1", s]], o]
    for gid in (1, 2):
        for seqs in MULTI:
            for o in OPTS:
                yield [gid, [[n, s] for n, s in zip(["s3", "s1", "s2"], seqs)], o]
    for _ in range(1500 if thorough else 100):
        gid = rnd.choice(CODE_IDS)
        yield [gid, [["s1", rnd_coding(rnd, gid)]], rnd.choice(OPTS)]


def contract_agree(case):
    gid, named, (ok, stop, trim) = case
    if not all(in_frame_gaps(s) for _, s in named):
        return ("skip",)
    entries = ENTRIES if len(named) == 1 else COLL_ENTRIES
    if len({len(s) for _, s in named}) > 1:
        entries = [e for e in entries if e.split(".")[1] in ("seq", "coll")]
    vals = {}
    for e in entries:
        got = run_translation(e, named, gid, ok, stop, trim)
        if got[0] == "val":
            vals[e] = tuple((n, got[2].get(n, "").rstrip("-")) for n, _ in named)
    groups = {}
    for e, v in vals.items():
        groups.setdefault(v, []).append(e)
    if len(groups) <= 1:
        return ("ok", len(vals) >= 2)
    fulls = tuple((n, "".join(S.translate_spec(s, gid)).rstrip("-")) for n, s in named)

    def describe(v):
        if v == fulls:
            return "every-stop-kept"
        if all(a[1] == (b[1][:-1].rstrip("-") if b[1].endswith("*") else b[1]) for a, b in zip(v, fulls)):
            return "terminal-stop-trimmed"
        return "other"
    parts = sorted(f"{describe(v)}:[{','.join(sorted(es))}]" for v, es in groups.items())
    return ("fail", f"agree/include_stop={int(stop)},trim_stop={int(trim)}/" + " vs ".join(parts),
            f"code {gid} {named} incomplete_ok={ok} include_stop={stop} trim_stop={trim}: "
            + "; ".join(f"{sorted(es)} -> {dict(v)}" for v, es in groups.items()))


# ==================================================================================================== trim
def gen_trim(tier, seed):
    rnd = random.Random(seed)
    thorough = tier == "thorough"
    base = list(all_seqs(0, 5 if thorough else 4)) + list(k_seqs((2,), TAILS)) + GAPPED
    for s in base:
        for e in ENTRIES:
            for strict in (False, True):
                yield [e, 1, [["s1", s]], strict]
    if thorough:
        for s in all_seqs(6, 6):
            for e in SEQ_ENTRIES:
                yield [e, 1, [["s1", s]], False]
    for gid in CODE_IDS:
        if gid == 1:
            continue
        for s in k_seqs((1, 2) if thorough else (1,), TAILS):
            for e in (SEQ_ENTRIES + ["old.aln", "new.coll"] if thorough else SEQ_ENTRIES + ["old.aln"]):
                yield [e, gid, [["s1", s]], False]
    for gid in (1, 2, 22):
        for seqs in MULTI + MULTI_RAGGED:
            for e in COLL_ENTRIES:
                if e in ("old.aln", "old.arr") and len({len(s) for s in seqs}) > 1:
                    continue
                for strict in (False, True):
                    yield [e, gid, [[n, s] for n, s in zip(["s3", "s1", "s2"], seqs)], strict]
    for _ in range(2000 if thorough else 150):
        gid = rnd.choice(CODE_IDS)
        yield [rnd.choice(SEQ_ENTRIES + ["old.coll", "new.coll"]), gid, [["s1", rnd_coding(rnd, gid)]], rnd.random() < 0.3]


def trim_spec(s, gid):
    """(has terminal stop, allowed trimmed strings) -- terminal = last non-gap codon of a length-divisible-by-3 sequence"""
    if len(s) % 3:
        return False, {s}
    cod = S.translate_spec(s, gid)
    nong = [i for i, a in enumerate(cod) if a != "-"]
    if not nong or cod[nong[-1]] != "*":
        return False, {s}
    i = 3 * nong[-1]
    return True, {s[:i] + s[i + 3:], s[:i] + "---" + s[i + 3:]}


def contract_trim(case):
    entry, gid, named, strict = case
    if not all(in_frame_gaps(s) for _, s in named):
        return ("skip",)
    kind = entry.split(".")[1]
    sc = witness_class(named, gid)
    pre = f"trim/{entry}"
    specs = [trim_spec(s, gid) for _, s in named]
    strict_hit = strict and any(len(s.replace("-", "")) % 3 for _, s in named)
    want_has = any(h for h, _ in specs)
    try:
        obj = build(entry, named)
        has = obj.has_terminal_stop(gc=gid, strict=strict)
    except Exception as e:
        if strict_hit:
            return ("ok", False)
        return ("fail", f"{pre}/has_terminal_stop/raises-{type(e).__name__}/{witness_class(named, gid, type(e).__name__, str(e))}",
                f"{case}: {_exc(e)}; spec {want_has}")
    if bool(has) != want_has and not strict_hit:
        return ("fail", f"{pre}/has_terminal_stop/wrong-answer/{sc}", f"{case}: has_terminal_stop = {has!r}, spec {want_has}")
    try:
        res = obj.trim_stop_codon(gc=gid, strict=strict) if kind == "seq" else obj.trim_stop_codons(gc=gid, strict=strict)
        if kind == "seq":
            names, d = [res.name], {res.name: str(res)}
        else:
            names, d = list(res.names), {k: str(v) for k, v in res.to_dict().items()}
        label = getattr(res.moltype, "label", getattr(res.moltype, "name", ""))
    except Exception as e:
        if strict_hit:
            return ("ok", False)
        return ("fail", f"{pre}/trim/raises-{type(e).__name__}/{witness_class(named, gid, type(e).__name__, str(e))}", f"{case}: {_exc(e)}")
    if names != [n for n, _ in named]:
        return ("fail", f"{pre}/trim/names-or-order-changed", f"{case}: {names}")
    for (n, s), (h, allowed) in zip(named, specs):
        if d.get(n) not in allowed:
            cls = "stop-left" if d.get(n) == s else ("other-sequence-edited" if not h else "wrong-edit")
            return ("fail", f"{pre}/trim/{cls}/{seq_class(s, gid)}", f"{case}: row {n} = {d.get(n)!r}, spec allows {sorted(allowed)}")
    if kind in ("aln", "arr") and len({len(v) for v in d.values()}) > 1:
        return ("fail", f"{pre}/trim/ragged-alignment", f"{case}: {d}")
    if label != "dna":
        return ("fail", f"{pre}/trim/moltype", f"{case}: {label}")
    return ("ok", want_has)


# ==================================================================================================== app
def gen_app(tier, seed):
    rnd = random.Random(seed)
    thorough = tier == "thorough"
    singles = list(all_seqs(0, 5 if thorough else 3)) + list(k_seqs((2,), TAILS)) + (list(k_seqs((3,))) if thorough else [])
    for s in singles:
        for trim in (True, False):
            yield ["translate_seqs", 1, [["s1", s]], {"trim": trim, "kind": "coll"}]
            if thorough or len(s) <= 3:
                yield ["translate_seqs", 1, [["s1", s]], {"trim": trim, "kind": "aln"}]
            for frame in (None, 1, 2, 3):
                for rc in ((False, True) if frame is None else (False,)):
                    yield ["select_translatable", 1, [["s1", s]], {"trim": trim, "frame": frame, "allow_rc": rc}]
    for gid in CODE_IDS:
        if gid == 1:
            continue
        for s in k_seqs((1, 2) if thorough else (1,)):
            yield ["translate_seqs", gid, [["s1", s]], {"trim": True, "kind": "coll"}]
            yield ["select_translatable", gid, [["s1", s + "AAA"]], {"trim": True, "frame": None, "allow_rc": True}]
            yield ["select_translatable", gid, [["s1", s]], {"trim": True, "frame": 1, "allow_rc": False}]
    for gid in (1, 2):
        for seqs in MULTI + MULTI_RAGGED:
            named = [[n, s] for n, s in zip(["s3", "s1", "s2"], seqs)]
            for trim in (True, False):
                yield ["translate_seqs", gid, named, {"trim": trim, "kind": "coll"}]
                for frame in (None, 1, 2):
                    yield ["select_translatable", gid, named, {"trim": trim, "frame": frame, "allow_rc": frame is None}]
    for _ in range(1500 if thorough else 100):
        gid = rnd.choice(CODE_IDS)
        named = [[n, rnd.choice(["", "A", "CC"]) + rnd_coding(rnd, gid)] for n in ["s3", "s1", "s2"][:rnd.choice([1, 2, 3])]]
        if rnd.random() < 0.5:
            named = [[n, S.rc_spec(s)] for n, s in named]
        yield ["select_translatable", gid, named, {"trim": rnd.random() < 0.5, "frame": rnd.choice([None, None, 1, 2, 3]),
                                                   "allow_rc": True}]


def _frame_cut(s, f):
    k = (len(s) - f) // 3 if len(s) >= f else 0
    return s[f:f + 3 * k]


def contract_app(case):
    app_name, gid, named, opt = case
    from cogent3 import make_aligned_seqs, make_unaligned_seqs
    from cogent3.app import translate as tr
    from cogent3.app.composable import NotCompleted
    if not all(in_frame_gaps(s) for _, s in named):
        return ("skip",)
    data = {n: s for n, s in named}
    if app_name == "translate_seqs":
        pre = f"app/translate_seqs/{opt['kind']}"
        try:
            coll = make_unaligned_seqs(data, moltype="dna") if opt["kind"] == "coll" else make_aligned_seqs(data, moltype="dna")
            res = tr.translate_seqs(moltype="dna", gc=gid, trim_terminal_stop=opt["trim"])(coll)
        except Exception as e:
            return ("fail", f"{pre}/app-raises-{type(e).__name__}", f"{case}: {_exc(e)}")
        if isinstance(res, NotCompleted):
            last = str(res.message).strip().splitlines()[-1] if str(res.message).strip() else ""
            got = ("exc", last.split(":")[0].split(".")[-1] or "NotCompleted", last[:200])
        else:
            got = ("val", list(res.names), {k: str(v) for k, v in res.to_dict().items()},
                   getattr(res.moltype, "label", ""))
        return judge(pre, got, named, gid, False, False, opt["trim"], opt["kind"] == "aln", f"{case}")
    # ---- select_translatable
    frame, allow_rc, trim = opt["frame"], opt["allow_rc"], opt["trim"]
    pre = f"app/select_translatable/{'frame=given' if frame else 'best_frame'}"
    try:
        coll = make_unaligned_seqs(data, moltype="dna")
        app = tr.select_translatable(moltype="dna", gc=gid, allow_rc=allow_rc, trim_terminal_stop=trim, frame=frame)
        res = app(coll)
    except Exception as e:
        return ("fail", f"{pre}/app-raises-{type(e).__name__}", f"{case}: {_exc(e)}")
    err = None
    if isinstance(res, NotCompleted):
        # every sequence rejected; when the app died instead (type ERROR) remember which exception it was
        out = {}
        if "FALSE" not in str(res.type):
            last = str(res.message).strip().splitlines()[-1] if str(res.message).strip() else ""
            err = last.split(":")[0].split(".")[-1] or "unknown"
    else:
        out = {k: str(v) for k, v in res.to_dict().items()}
        if [n for n in res.names] != [n for n, _ in named if n in out]:
            return ("fail", f"{pre}/order-changed", f"{case}: {res.names}")
    stops = S.STOPS[gid]

    def finish(cut):
        """what the app should emit for an accepted reading frame ``cut``"""
        if trim and len(cut) >= 3 and cut[-3:] in stops:
            return cut[:-3]
        return cut

    def clean(cut):
        return "*" not in S.translate_str(cut, gid)[:-1]
    nontrivial = False
    for n, s in named:
        d = s.replace("-", "")
        strands = [("+", d)] + ([("-", S.rc_spec(d))] if (allow_rc and not frame) else [])
        frames = [frame - 1] if frame else [0, 1, 2]
        cands = [(st, f, _frame_cut(x, f)) for st, x in strands for f in frames]
        good = [finish(c) for st, f, c in cands if clean(c)]
        if n in out:
            nontrivial = True
            if out[n] not in good:
                r = out[n]
                if "*" in S.translate_str(r, gid)[:-1] or (trim and "*" in S.translate_str(r, gid)):
                    cls = "selected-frame-has-stop"
                elif r in [c for _, _, c in cands]:
                    cls = "terminal-stop-not-trimmed" if trim else "selected-frame-has-stop"
                else:
                    cls = "not-a-reading-frame-of-the-input"
                return ("fail", f"{pre}/{cls}/{seq_class(d, gid, flags=False)}", f"{case}: {n} -> {r!r}; stop-free frames of {d!r}: {good}")
        else:
            if good and len(d) >= 3 + (frame - 1 if frame else 2):
                why = "no-error"
                if err:
                    empty = any(len(_frame_cut(x.replace("-", ""), f)) == 0 for _, x in named for f in frames)
                    why = f"app-died-{err}" + ("(some-input-has-an-empty-reading-frame)" if empty else "")
                return ("fail", f"{pre}/translatable-sequence-dropped/{why}",
                        f"{case}: {n} ({d!r}) dropped although frames {good} have no internal stop; got {out} "
                        f"{'NotCompleted ' + str(res.type) if isinstance(res, NotCompleted) else ''}")
    return ("ok", nontrivial)


# ==================================================================================================== canonical codons of non-canonical sequences
NC_SYMS = "N?RYW"


def gen_noncanon(tier, seed):
    """sequences of 2..4 (thorough ..6) codons in which 1..2 positions hold a non-canonical symbol; plus / minus strand
    views and frames; every sequence-level entry point, and collections"""
    rnd = random.Random(seed + 12)
    thorough = tier == "thorough"
    n = 1500 if thorough else 260
    for i in range(n):
        gid = rnd.choice(CODE_IDS) if i % 3 == 0 else 1
        mt = "rna" if i % 5 == 4 else "dna"
        k = rnd.randint(2, 6 if thorough else 4)
        s = list(rnd_seq(rnd, 3 * k, 3 * k))
        for _ in range(rnd.choice((1, 1, 2))):
            s[rnd.randrange(len(s))] = rnd.choice(NC_SYMS)
        s = "".join(s)
        if mt == "rna":
            s = s.replace("T", "U")
        view = rnd.choice([None, ["-", 0], ["-", 0], ["+", 0], ["-", 3], ["+", 3]])
        for e in (SEQ_ENTRIES if i % 2 else ["new.seq", "old.seq", "new.coll", "old.coll"]):
            if mt == "rna" and e.startswith("old"):
                continue                       # old-style RNA cannot be translated at all: finding C12-K6 (translation contract)
            v = view
            if view and e.endswith("coll"):
                v = [view[0], 0]               # collections are not sliceable
            yield [e, gid, mt, s, v]


def contract_noncanon(case):
    entry, gid, mt, s, view = case
    kind = entry.split(".")[1]
    pre = f"noncanon/{entry}/{mt}"
    shown = s
    if view:
        if view[0] == "-":
            shown = S.rc_spec(shown, mt)
        shown = shown[view[1]:]
    try:
        obj = build(entry, [["s1", s]], mt)
        if view:
            if view[0] == "-":
                obj = obj.rc()
            if view[1]:
                obj = obj[view[1]:]
        res = obj.get_translation(gid, incomplete_ok=True, include_stop=True, trim_stop=False)
        got = view_of(res, kind)[1]["s1"]
    except Exception as e:
        return ("fail", f"{pre}/raises-{type(e).__name__}", f"{case}: {_exc(e)}")
    dna = shown.replace("U", "T")
    want = []
    for i in range(0, len(dna) - len(dna) % 3, 3):
        c = dna[i:i + 3]
        want.append(S.translate_spec(c, gid)[0] if set(c) <= set("ACGT") else None)
    if len(got) != len(want):
        return ("fail", f"{pre}/length", f"{case}: displayed {shown!r} translated to {got!r}")
    bad = [(i, shown[3 * i:3 * i + 3], g, w) for i, (g, w) in enumerate(zip(got, want)) if w is not None and g != w]
    if bad:
        strand = "minus" if view and view[0] == "-" else "plus"
        return ("fail", f"{pre}/canonical-codon-mistranslated/{strand}-strand-view",
                f"{case}: displayed {shown!r} -> {got!r}; canonical codon #{bad[0][0]} {bad[0][1]!r} must be {bad[0][3]!r}")
    return ("ok", any(w is not None for w in want))


# ==================================================================================================== complement
SYMS = {"dna": "ACGTRYMKSWBDHVN-?", "rna": "ACGURYMKSWBDHVN-?"}


def gen_complement(tier, seed):
    rnd = random.Random(seed)
    thorough = tier == "thorough"
    for impl in ("old", "new"):
        for mt in ("dna", "rna"):
            for s in all_seqs(0, 3, SYMS[mt]):
                yield [impl, mt, "moltype", [s]]
                if len(s) <= (3 if thorough else 2):
                    yield [impl, mt, "seq", [s]]
            for _ in range(3000 if thorough else 300):
                s = "".join(rnd.choice(SYMS[mt]) for _ in range(rnd.randint(4, 30)))
                yield [impl, mt, "moltype", [s]]
                yield [impl, mt, "seq", [s]]
            # the same three methods on *views* (reverse complemented, reversed, sliced, strided; also of a sequence that
            # a collection hands out): they must complement what the view displays
            for _ in range(600 if thorough else 80):
                s = "".join(rnd.choice(SYMS[mt]) for _ in range(rnd.randint(1, 12)))
                yield [impl, mt, "view", [s]]
            for _ in range(400 if thorough else 60):
                L = rnd.randint(1, 8)
                seqs = ["".join(rnd.choice(SYMS[mt]) for _ in range(L)) for _ in range(rnd.randint(1, 3))]
                yield [impl, mt, "coll", seqs]
                if impl == "old":
                    yield [impl, mt, "aln", seqs]
                    yield [impl, mt, "arr", seqs]


def _other_readings(y):
    """further read-only views of a (new-style) sequence object: bytes(y) and numpy.array(y) decoded by the moltype's
    own most degenerate alphabet; [] where the class offers neither"""
    out = []
    if hasattr(type(y), "__bytes__"):
        out.append(("bytes", bytes(y).decode("utf8")))
    if hasattr(type(y), "__array__") and hasattr(y.moltype, "most_degen_alphabet"):
        import numpy
        out.append(("array", str(y.moltype.most_degen_alphabet().from_indices(numpy.array(y)))))
    return out


def contract_complement(case):
    impl, mt, level, seqs = case
    new = impl == "new"
    pre = f"complement/{impl}.{level}/{mt}"

    def mismatch(what, got, exp, src):
        if len(got) == len(exp):
            bad = sorted({f"{c}->{g}(want {e})" for c, g, e in zip(src, got, exp) if g != e})
            return ("fail", f"{pre}/{what}/{bad[0]}", f"{what}({src!r}) = {got!r}, spec {exp!r}")
        return ("fail", f"{pre}/{what}/length", f"{what}({src!r}) = {got!r}, spec {exp!r}")
    try:
        if level == "moltype":
            from cogent3.core import moltype, new_moltype
            m = (new_moltype if new else moltype).get_moltype(mt)
            s = seqs[0]
            ops = {"complement": (m.complement, S.comp_spec(s, mt)), "rc": (m.rc, S.rc_spec(s, mt))}
            for name, (fn, exp) in ops.items():
                got = fn(s)
                if str(got) != exp:
                    return mismatch(name, str(got), exp, s if name == "complement" else s[::-1])
                back = fn(got)
                if str(back) != s:
                    return ("fail", f"{pre}/{name}-not-involution", f"{name}({name}({s!r})) = {back!r}")
            return ("ok", len(s) > 0)
        if level == "seq":
            s = seqs[0]
            x = mk_seq(s, new, mt)
            for name, exp in (("rc", S.rc_spec(s, mt)), ("complement", S.comp_spec(s, mt)), ("reverse_complement", S.rc_spec(s, mt))):
                y = getattr(x, name)()
                if str(y) != exp:
                    return mismatch(name, str(y), exp, s if name == "complement" else s[::-1])
                for reading, txt in _other_readings(y):
                    if txt != exp:                 # the same object read as bytes / as an index array
                        r = mismatch(name, txt, exp, s if name == "complement" else s[::-1])
                        return ("fail", r[1].replace(f"/{name}/", f"/{name}[{reading}]/"), f"{reading} reading: {r[2]}")
                z = getattr(y, name)()
                if str(z) != s:
                    return ("fail", f"{pre}/{name}-not-involution", f"{name} twice on {s!r} gives {str(z)!r}")
                if str(x) != s:
                    return ("fail", f"{pre}/{name}-edits-receiver", f"{s!r} became {str(x)!r}")
            return ("ok", len(s) > 0)
        if level == "view":
            s = seqs[0]
            roots = [("seq", mk_seq(s, new, mt))]
            try:
                roots.append(("coll-seq", build(f"{impl}.coll", [["s1", s], ["s2", s[::-1]]], mt).get_seq("s1")))
            except Exception:
                pass
            views = [("rc", lambda x: x.rc()), ("reversed", lambda x: x[::-1]), ("slice", lambda x: x[1:-1]),
                     ("rc+slice", lambda x: x.rc()[1:]), ("stride", lambda x: x[::2]), ("rev-stride", lambda x: x[::-2])]
            for rname, root in roots:
                for vname, mk in views:
                    v = mk(root)
                    shown = str(v)
                    for name, exp in (("complement", S.comp_spec(shown, mt)), ("rc", S.rc_spec(shown, mt)),
                                      ("reverse_complement", S.rc_spec(shown, mt))):
                        y = getattr(v, name)()
                        if str(y) != exp:
                            r = mismatch(name, str(y), exp, shown if name == "complement" else shown[::-1])
                            return ("fail", r[1].replace(f"/{name}/", f"/{name}[{rname}:{vname}]/"), f"view {vname} of {rname} {s!r} shows {shown!r}: {r[2]}")
                        if str(v) != shown:
                            return ("fail", f"{pre}/{name}[{rname}:{vname}]-edits-receiver", f"{shown!r} became {str(v)!r}")
            return ("ok", len(s) > 1)
        names = ["s3", "s1", "s2"][:len(seqs)]
        obj = build(f"{impl}.{level}", [[n, s] for n, s in zip(names, seqs)], mt)
        for name in ("rc", "reverse_complement"):
            y = getattr(obj, name)()
            d = {k: str(v) for k, v in y.to_dict().items()}
            exp = {n: S.rc_spec(s, mt) for n, s in zip(names, seqs)}
            if list(y.names) != names:
                return ("fail", f"{pre}/{name}/names-or-order-changed", f"{case}: {y.names}")
            if d != exp:
                return ("fail", f"{pre}/{name}/wrong-rows", f"{case}: {d}, spec {exp}")
            z = getattr(y, name)()
            if {k: str(v) for k, v in z.to_dict().items()} != dict(zip(names, seqs)):
                return ("fail", f"{pre}/{name}-not-involution", f"{case}: {z.to_dict()}")
        return ("ok", True)
    except Exception as e:
        return ("fail", f"{pre}/raises-{type(e).__name__}", f"{case}: {_exc(e)}")


# ==================================================================================================== ambiguity
MOLTYPES = ["dna", "rna", "protein", "protein_with_stop"]


def gen_ambiguity(tier, seed):
    for impl in ("old", "new"):
        for mt in MOLTYPES:
            for sym in sorted(S.symbol_sets(mt)):
                yield [impl, mt, sym]
    # the same letters mean different things to different molecular types (A, C, G, T/U are amino acids too): the
    # encoders asked about one set of letters by several molecular types in one process, in every order
    for impl in ("old", "new"):
        for order in itertools.permutations(("dna", "rna", "protein")):
            yield [impl, "+".join(order), "@interleaved"]


def _least_symbol(sets, letters):
    """the symbol whose set is the smallest one containing the letters (None when that is not unique)"""
    cands = sorted(((len(v), k) for k, v in sets.items() if letters <= v and "-" not in v and "?" != k))
    if not cands or (len(cands) > 1 and cands[0][0] == cands[1][0]):
        return None
    return cands[0][1]


def _contract_interleaved(impl, order):
    from cogent3.core import moltype, new_moltype
    mod = new_moltype if impl == "new" else moltype
    probes = [frozenset("AG"), frozenset("AC"), frozenset("CG"), frozenset("ACG"), frozenset("A"), frozenset("DN"), frozenset("EQ")]
    for rnd_ in (0, 1):                       # second round: every memo is warm
        for mt in order:
            m = mod.get_moltype(mt)
            sets = S.symbol_sets(mt)
            canon = {k for k, v in sets.items() if len(v) == 1 and k == next(iter(v))}
            for letters in probes:
                if not letters <= canon:
                    continue
                want = _least_symbol(sets, letters)
                if want is None:
                    continue
                for enc in (["what_ambiguity", "degenerate_from_seq"] if impl == "old" else ["degenerate_from_seq"]):
                    arg = "".join(sorted(letters))
                    try:
                        got = getattr(m, enc)(arg if enc == "degenerate_from_seq" else tuple(arg))
                    except Exception as e:
                        return ("fail", f"ambiguity/{impl}/interleaved/{enc}/raises-{type(e).__name__}", f"{mt} after {order}: {enc}({arg!r}): {_exc(e)}")
                    if got != want:
                        return ("fail", f"ambiguity/{impl}/interleaved/{enc}/wrong-symbol/{mt}",
                                f"molecular types asked in the order {list(order)} (round {rnd_}): {mt}.{enc}({arg!r}) = {got!r}, the {mt} table says {want!r}")
    return ("ok", True)


def contract_ambiguity(case):
    impl, mt, sym = case
    if sym == "@interleaved":
        return _contract_interleaved(impl, mt.split("+"))
    from cogent3.core import moltype, new_moltype
    m = (new_moltype if impl == "new" else moltype).get_moltype(mt)
    sets = S.symbol_sets(mt)
    want = sets[sym]
    pre = f"ambiguity/{impl}/{mt}"
    kind = "canonical" if len(want) == 1 and sym not in "-" else sym
    # resolve: the set of canonical characters of the symbol
    for allow_gap in (True, False):
        exp = want if allow_gap else want - {"-"}
        try:
            got = m.resolve_ambiguity(sym, allow_gap=allow_gap)
        except Exception as e:
            if not exp:        # nothing left once the gap is excluded: rejecting is the documented answer
                continue
            return ("fail", f"{pre}/resolve(allow_gap={allow_gap})/raises-{type(e).__name__}/{kind}", f"{case}: {_exc(e)}; spec {sorted(exp)}")
        if len(set(got)) != len(tuple(got)) or frozenset(got) != exp:
            return ("fail", f"{pre}/resolve(allow_gap={allow_gap})/wrong-set/{kind}",
                    f"{case}: resolve_ambiguity({sym!r}, allow_gap={allow_gap}) = {tuple(got)}, IUPAC set {sorted(exp)}")
    # encode: the symbol of a set;  encode(resolve(x)) == x  and  resolve(encode(S)) == S on every representable S
    encoders = ["what_ambiguity", "degenerate_from_seq"] if impl == "old" else ["degenerate_from_seq"]
    for enc in encoders:
        for arg in ("".join(sorted(want)), "".join(sorted(want, reverse=True))):
            try:
                got = getattr(m, enc)(arg if enc == "degenerate_from_seq" else tuple(arg))
            except Exception as e:
                return ("fail", f"{pre}/{enc}/raises-{type(e).__name__}/{kind}", f"{case}: {enc}({arg!r}): {_exc(e)}; spec {sym!r}")
            if got != sym:
                return ("fail", f"{pre}/{enc}/wrong-symbol/{kind}", f"{case}: {enc}({arg!r}) = {got!r}, spec {sym!r}")
            try:
                back = frozenset(m.resolve_ambiguity(got, allow_gap=True))
            except Exception as e:
                return ("fail", f"{pre}/resolve-after-{enc}/raises-{type(e).__name__}/{kind}", f"{case}: {_exc(e)}")
            if back != want:
                return ("fail", f"{pre}/resolve-after-{enc}/not-inverse/{kind}",
                        f"{case}: resolve({enc}({arg!r})) = {sorted(back)}, the set was {sorted(want)}")
    return ("ok", len(want) > 1)


# ====================================================================================================
BOUNDED = {
    "codes": {
        "gen": gen_codes, "contract": contract_codes,
        "functions": ["genetic_code.GeneticCode.__getitem__/is_stop/translate/sense_codons", "genetic_code.get_code",
                      "genetic_code.available_codes", "new_genetic_code.GeneticCode.__getitem__/is_stop/translate/"
                      "sense_codons/stop_codons", "new_genetic_code.get_code", "new_genetic_code.available_codes"],
        "bound": "27 NCBI tables x old/new object x 64 codons (DNA and RNA spelling) x every amino acid -> codon set",
        "rule": "a case = (implementation, table id); whole table, inverse table, stop set and id list compared with the "
                "NCBI spec (standard code + documented reassignments)",
        "shards": 16,
    },
    "frames": {
        "gen": gen_frames, "contract": contract_frames,
        "functions": ["genetic_code.GeneticCode.translate", "genetic_code.GeneticCode.sixframes",
                      "new_genetic_code.GeneticCode.translate (rc=False/True)", "new_genetic_code.GeneticCode.sixframes",
                      "app.translate.translate_frames"],
        "bound": "string entry points (old translate, new translate rc=False/True, new sixframes): all 27 codes x every ACGT sequence "
                 "of length 0..4 (quick; + length 5 for codes 1,2,11,22, length 6 for code 1) / 0..7 (thorough), 3 starts, both "
                 "strands; object entry points (old sixframes, translate_frames): code 1 x length 0..4 (thorough 0..6) + 26 codes "
                 "x 56 (thorough 419) short / stop-codon sequences; RNA spelling length 1..3 (4), codes 1,2; 300 (4000) seeded "
                 "random sequences of length 8..60 with random code",
        "rule": "a case = (entry point, code, sequence); all 3 (6) frames compared with codon-by-codon table lookup, minus "
                "strand = frames of the reverse complement; non-trivial when length >= 3",
    },
    "translation": {
        "gen": gen_translation, "contract": contract_translation,
        "functions": ["sequence.NucleicAcidSequence.get_translation", "new_sequence.NucleicAcidSequenceMixin.get_translation",
                      "alignment._SequenceCollectionBase.get_translation", "alignment.AlignmentI.get_translation",
                      "new_alignment.SequenceCollection.get_translation", "rc()/[f:] views before translation"],
        "bound": "code 1 x 6 entry points x 8 option triples x every ACGT sequence of length 0..3 (thorough 0..5; 6 for the two "
                 "Sequence entry points) + 1..2 (thorough 2..3) codons from the 11 stop-relevant codons with 0..2 trailing bases; "
                 "26 other codes x 1 (thorough 1..2) stop-relevant codons; rc()/[f:] views (5) x length 3..4 (5); RNA; 14 "
                 "whole-codon-gap sequences x codes 1,2; 20 multi-sequence inputs (unsorted names, ragged for unaligned) x "
                 "codes 1,2,22; 400 (6000) seeded random codon-structured collections with random code and options",
        "rule": "a case = (entry point, code, moltype, named sequences, (incomplete_ok, include_stop, trim_stop), view); the "
                "result's names, order, every row and moltype are compared with the set of outcomes the statement allows",
    },
    "agree": {
        "gen": gen_agree, "contract": contract_agree,
        "functions": ["get_translation of old/new Sequence, old/new SequenceCollection, Alignment, ArrayAlignment"],
        "bound": "code 1: ACGT sequences of length 0..2 (thorough 0..4) + 1..2 stop-relevant codons (thorough: with 0..2 trailing "
                 "bases) + 14 gapped, x 8 option triples; 26 other codes x 11 (thorough 132) stop-relevant sequences; 15 "
                 "multi-sequence inputs x codes 1,2; 100 (1500) seeded random",
        "rule": "a case = (code, named sequences, options); all entry points that return a value must return the same rows "
                "(trailing gap columns ignored)",
    },
    "trim": {
        "gen": gen_trim, "contract": contract_trim,
        "functions": ["Sequence.has_terminal_stop/trim_stop_codon (old, new)", "SequenceCollection.has_terminal_stop/"
                      "trim_stop_codons (old, new)", "AlignmentI.trim_stop_codons"],
        "bound": "code 1: ACGT sequences of length 0..4 (thorough 0..5, 6 for Sequence) + stop-relevant codon pairs with tails + 14 "
                 "gapped, x 6 entry points x strict; 26 other codes x 33 (thorough 396) stop-relevant sequences; 20 multi-sequence "
                 "inputs x codes 1,2,22; 150 (2000) seeded random",
        "rule": "a case = (entry point, code, named sequences, strict); has_terminal_stop and every row after trimming "
                "compared with: last non-gap codon of a length%3==0 sequence is a stop of that table",
    },
    "app": {
        "gen": gen_app, "contract": contract_app,
        "functions": ["app.translate.translate_seqs", "app.translate.select_translatable", "app.translate.best_frame"],
        "bound": "code 1: ACGT sequences of length 0..3 (thorough 0..5) + stop-relevant codon pairs with tails (thorough + triples) x "
                 "trim flag x frame in {best,1,2,3} x allow_rc; 26 other codes x 11 (132) stop-relevant sequences; 20 multi-sequence "
                 "inputs x codes 1,2; 100 (1500) seeded random collections",
        "rule": "translate_seqs: rows as for get_translation(include_stop=False); select_translatable: every emitted row is a "
                "reading frame of its input without internal stop (terminal stop trimmed when asked), and an input with such "
                "a frame is not dropped",
    },
    "noncanonical": {
        "gen": gen_noncanon, "contract": contract_noncanon,
        "functions": ["Sequence.get_translation (old, new)", "SequenceCollection.get_translation (old, new)",
                      "new_sequence.Sequence.__array__ (strand handling of the index array read by translation)"],
        "bound": "260 (thorough 1500) seeded sequences of 2..4 (thorough ..6) codons, DNA and RNA, with 1..2 positions replaced "
                 "by one of N?RYW; plain, sliced, reverse-complemented and rc+sliced views; sequence (all) and collection "
                 "(every second case, unsliced) entry points; code 1 and, every third case, a random code; incomplete_ok=True, "
                 "include_stop=True, trim_stop=False; old-style RNA left out (finding C12-K6)",
        "rule": "the result has one letter per displayed codon and every codon made of canonical bases only shows the "
                "table's amino acid (what a codon holding a non-canonical symbol becomes is left open); non-trivial = at "
                "least one canonical codon",
    },
    "complement": {
        "gen": gen_complement, "contract": contract_complement,
        "functions": ["moltype.MolType.complement/rc", "new_moltype.MolType.complement/rc", "Sequence.rc/complement/"
                      "reverse_complement (old, new)", "SequenceCollection.rc (old, new)", "Alignment.rc", "ArrayAlignment.rc"],
        "bound": "DNA and RNA, old/new: every string of length 0..3 over the 17 IUPAC symbols (moltype level; sequence level "
                 "0..2, thorough 0..3); seeded random strings of length 4..30; random collections / alignments of 1..3 rows",
        "rule": "complement = symbol of the complemented base set, position by position; rc = reversed complement; both are "
                "involutions; receiver unchanged; names and order kept; new-style sequence objects are read three ways "
                "(str, bytes, index array decoded by the moltype's alphabet) and all must show the same symbols",
    },
    "ambiguity": {
        "gen": gen_ambiguity, "contract": contract_ambiguity,
        "functions": ["moltype.MolType.resolve_ambiguity/what_ambiguity/degenerate_from_seq",
                      "new_moltype.MolType.resolve_ambiguity/degenerate_from_seq"],
        "bound": "every symbol (canonical, degenerate, gap, missing) of dna, rna, protein, protein_with_stop x old/new",
        "rule": "resolve(symbol) == IUPAC set (with and without the gap); encode(set) == symbol; resolve(encode(set)) == set",
        "shards": 8,
    },
}
