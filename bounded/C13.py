"""Bounded run-time contracts for C13 -- data stores hold exactly what was written, record by record.

Contract text (taken from the property statement, not from the code): a store is a pair of dictionaries
``completed: id -> data`` and ``not_completed: id -> data`` (plus the log records).  After every operation of a
history, and after close + re-open in every mode, the real store's membership, every member's content and every
member's checksum equal those of the dictionary model; an operation on one identifier changes no other record;
append mode never overwrites; read-only mode never mutates.

Where the statement leaves behaviour open the model is a *set* of permitted successor states (``spec_step``):
a mutator may be refused (exception or silent no-op) in read-only mode and where append mode would have to
overwrite; writing a not-completed record for an id that is already completed may replace the completed record, sit
beside it, or be refused -- but it may never alter the completed record.  Which exception is raised, and whether
one is raised at all, is never checked: only the resulting state is.  Log records: see ``logs_ok``.

Two contracts: ``history`` drives the store API directly (DataStoreDirectory, DataStoreSqlite); ``writers`` drives
the same model through the io.py writer apps (write_seqs / write_json -> directory store, write_db -> sqlite store,
stores made by io.open_data_store), where the content is compared through an independent decoding of what the
writer stored (own FASTA reader, or the unique payload token of each write).
"""
from __future__ import annotations

import contextlib
import hashlib
import itertools
import os
import random
import shutil
import tempfile
from pathlib import Path

# names that are suffixes / prefixes of one another, with and without the format suffix, plus an unrelated control
IDS = ["a", "ba", "a.b", "a.fa", "b"]
EXTRA_IDS = ["a.1", "a.2", "aa", "b.a", "ab.fa", "a.b.fa"]  # only in the seeded sample beyond the frontier
WRITER_IDS = ["a", "ba", "a.b", "a.1", "b"]
LOGS = ["run1.log", "run2.log"]
MODES = ["r", "a", "w"]
_TMPROOT = "/dev/shm" if os.path.isdir("/dev/shm") and os.access("/dev/shm", os.W_OK) else None

# via -> (store kind, suffix of the directory store)
BACKENDS = {
    "dir": ("dir", "fa"),
    "sql": ("sql", None),
    "write_seqs": ("dir", "fasta"),
    "write_json": ("dir", "json"),
    "write_db": ("sql", None),
}


# ------------------------------------------------------------------------------------------------ spec
def md5_spec(data):
    return hashlib.md5(data.encode("utf-8") if isinstance(data, str) else data).hexdigest()


def canon(via, uid):
    """the record an identifier names: a directory store of suffix ``fa`` accepts ``x`` and ``x.fa`` for the same
    record; a sqlite store uses the identifier literally, except that ``results/x`` (``logs/x`` for logs) -- the form its
    own members report -- names ``x``.  An identifier that merely *begins* with a table name is an ordinary identifier."""
    kind, suffix = BACKENDS[via]
    if kind == "dir" and uid.endswith("." + suffix):
        return uid[: -len(suffix) - 1]
    if kind == "sql" and uid.startswith("results/"):
        return uid[len("results/"):]
    return uid


def _with(d, k, v):
    d = dict(d)
    d[k] = v
    return d


def _without(d, k):
    d = dict(d)
    d.pop(k, None)
    return d


def spec_step(via, mode, state, op, data):
    """permitted successor states (completed, not_completed) of the dictionary model"""
    C, N = state
    same = (C, N)
    k = op[0]
    if k in ("o", "l") or mode == "r":
        return [same]                                   # re-open persists; a log write touches no member;
                                                        # read-only never mutates
    if k == "w":
        i = canon(via, op[1])
        eff = (_with(C, i, data), _without(N, i))       # last write wins, a success replaces the not-completed
        if mode == "w":
            return [eff]
        if i in C:
            return [same]                               # append never overwrites
        if i in N:
            return [eff, same]                          # replacing a failure by a success, or refusing: both allowed
        return [eff]
    if k == "n":
        i = canon(via, op[1])
        moved = (_without(C, i), _with(N, i, data))
        both = (C, _with(N, i, data))
        if mode == "w":
            if i in C:
                return [both, moved, same]              # open in the statement; the completed record must survive
            return [both]                               # unchanged, or go away as a whole
        if i in N:
            return [same]                               # append never overwrites
        if i in C:
            return [both, same]
        return [both]
    if k == "d":
        return [(C, _without(N, canon(via, op[1])))]
    if k == "D":
        return [(C, {})]
    raise ValueError(op)


def logs_ok(op, mode, before, after, data):
    """log records, as sorted lists of [name, content].  The property statement compares completed and
    not-completed members only, so little is demanded of a log write: a non-log operation (and a refused log write
    in read-only mode) leaves the log records exactly as they were; write_log(name) under a *new* name makes that
    name readable with the data written; it never alters the content of a log of another name (a store that keeps
    one log per session may drop the session's earlier log); what happens to an existing log of the same name is
    left open."""
    if op[0] != "l" or mode == "r":
        return before == after
    name = op[1]
    old = {}
    for n, c in before:
        old.setdefault(n, []).append(c)
    for n, c in after:
        if n != name and c not in old.get(n, []):
            return False
    if name not in old:
        return [n for n, _ in after].count(name) == 1 and [name, data] in after
    return True


# ------------------------------------------------------------------------------------------------ payloads
def token_for(step, op):
    """a payload token unique to one step of a history (fixed width: no token is a substring of another)"""
    if op[0] == "w":
        return "ACGTTG" + "".join("ACGT"[(step >> s) & 3] for s in (4, 2, 0)) + "CA"
    if op[0] == "n":
        return f"failure-{step:03d}-end"
    return None


def data_for(via, step, op):
    """what the model records for a write: the text itself (store API) or the payload token (writer apps)"""
    if via in ("dir", "sql"):
        tag = {"w": "C", "n": "N", "l": "L"}.get(op[0])
        return None if tag is None else f"{tag}{step}:{op[1]}\nline2\n"
    return token_for(step, op)


def read_fasta_spec(text):
    """own minimal FASTA reader"""
    out, name = {}, None
    for line in text.splitlines():
        if line.startswith(">"):
            name = line[1:].strip()
            out[name] = ""
        elif name is not None:
            out[name] += line.strip()
    return out


def decode(via, what, raw, tokens):
    """content as the model sees it: the raw text (store API), or the token of the write a record stems from"""
    if via in ("dir", "sql"):
        return raw
    if via == "write_seqs" and what == "completed":
        if isinstance(raw, str):
            d = read_fasta_spec(raw)
            if sorted(d) == ["s1", "s2"] and d["s2"] == "GGCC":
                return d["s1"]
        return f"<not the FASTA written: {raw!r}>"
    found = [t for t in tokens if (t.encode() if isinstance(raw, bytes) else t) in raw]
    if len(found) == 1:
        return found[0]
    return f"<payloads {found} in {raw!r}>"


# ------------------------------------------------------------------------------------------------ real store
@contextlib.contextmanager
def as_master_process():
    """the harness evaluates contracts in forked pool workers, where cogent3's ``is_master_process()`` is False and
    DataStoreDirectory deliberately creates no directories; the worker plays the user's main process here"""
    import cogent3.app.data_store as dsm
    old = dsm.is_master_process
    dsm.is_master_process = lambda: True
    try:
        yield
    finally:
        dsm.is_master_process = old


def open_store(via, root, mode):
    kind, suffix = BACKENDS[via]
    if via == "dir":
        from cogent3.app.data_store import DataStoreDirectory
        return DataStoreDirectory(Path(root) / "store", mode=mode, suffix=suffix)
    if via == "sql":
        from cogent3.app.sqlite_data_store import DataStoreSqlite
        ds = DataStoreSqlite(Path(root) / "store.sqlitedb", mode=mode)
    else:
        from cogent3.app.io import open_data_store
        if kind == "dir":
            return open_data_store(Path(root) / "store", suffix=suffix, mode=mode)
        ds = open_data_store(Path(root) / "store.sqlitedb", mode=mode)
    ds.db  # connect now (creates the file in w/a mode)
    return ds


def close_store(via, ds):
    if BACKENDS[via][0] == "sql":
        ds.unlock()   # a well-behaved session releases its lock; locking is not part of C13
        ds.close()


def real_view(via, ds, tokens):
    """(completed, not_completed, logs, problems); members: id -> [decoded content, checksum is md5 of content]"""
    kind, suffix = BACKENDS[via]
    problems = []

    def table(members, what):
        out = {}
        for m in list(members):
            name = Path(str(m.unique_id)).name
            if kind == "dir":
                sfx = "." + suffix if what == "completed" else ".json"
                if name.endswith(sfx):
                    name = name[: -len(sfx)]
                else:
                    problems.append(f"{what}:member-without-suffix")
            if name in out:
                problems.append(f"{what}:duplicate-member")
            raw = None
            try:
                raw = m.read()
                content = decode(via, what, raw, tokens)
            except Exception as e:
                content = f"<read raises {type(e).__name__}>"
                problems.append(f"{what}:read-raises")
            try:
                md5 = m.md5
                md5 = True if raw is not None and md5 == md5_spec(raw) else md5
            except Exception as e:
                md5 = f"<md5 raises {type(e).__name__}>"
                problems.append(f"{what}:md5-raises")
            out[name] = [content, md5]
        return out

    C = table(ds.completed, "completed")
    N = table(ds.not_completed, "not_completed")
    L = []
    for m in ds.logs:
        name = Path(str(m.unique_id)).name
        try:
            L.append([name, m.read()])
        except Exception as e:
            L.append([name, f"<read raises {type(e).__name__}>"])
            problems.append("logs:read-raises")
    # the store's own summaries are further readings of the same membership and checksums
    try:
        v = {str(r[0]): r[1] for r in ds.validate().to_list()}
        n_ok = sum(1 for t in (C, N) for _c, md5 in t.values() if md5 is True)
        n_missing = sum(1 for t in (C, N) for _c, md5 in t.values() if md5 is None)   # (a missing checksum is reported per member)
        if (int(v["Num md5sum correct"]), int(v["Num md5sum incorrect"]), int(v["Num md5sum missing"])) != \
                (n_ok, len(C) + len(N) - n_ok - n_missing, n_missing) and not problems:
            problems.append("validate:counts-differ-from-members")
        if bool(v["Has log"]) != bool(L):
            problems.append("validate:has-log-differs")
    except Exception as e:
        problems.append(f"validate:raises-{type(e).__name__}")
    try:
        dsc = {str(r[0]): int(r[1]) for r in ds.describe.to_list()}
        if (dsc.get("completed"), dsc.get("not_completed"), dsc.get("logs")) != (len(C), len(N), len(L)) and not problems:
            problems.append("describe:counts-differ-from-members")
    except Exception as e:
        problems.append(f"describe:raises-{type(e).__name__}")
    return C, N, sorted(L), sorted(set(problems))


def apply_real(via, ds, op, step, writer):
    k = op[0]
    if k == "l":
        return ds.write_log(unique_id=op[1], data=data_for("dir", step, op))
    if k == "d":
        return ds.drop_not_completed(unique_id=op[1])
    if k == "D":
        return ds.drop_not_completed()
    if via in ("dir", "sql"):
        if k == "w":
            return ds.write(unique_id=op[1], data=data_for(via, step, op))
        if k == "n":
            return ds.write_not_completed(unique_id=op[1], data=data_for(via, step, op))
        raise ValueError(op)
    # through the writer apps, called the way composable.apply_to calls them
    if k == "w":
        from cogent3 import make_unaligned_seqs
        obj = make_unaligned_seqs({"s1": token_for(step, op), "s2": "GGCC"}, moltype="dna")
    elif k == "n":
        from cogent3.app.composable import NotCompleted
        obj = NotCompleted("ERROR", "origin", token_for(step, op), source=op[1])
    else:
        raise ValueError(op)
    return writer.main(data=obj, identifier=op[1])


def make_writer(via, ds):
    if via in ("dir", "sql"):
        return None
    from cogent3.app import io
    return getattr(io, via)(data_store=ds)


OPNAME = {"w": "write", "n": "write_not_completed", "l": "write_log", "d": "drop_not_completed(id)",
          "D": "drop_not_completed()", "o": "reopen"}


def relation(via, op, other):
    """how the affected record's id relates to the id the operation names (witness pattern for the key)"""
    if len(op) < 2 or op[0] in ("o", "l"):
        return "any"
    u = canon(via, op[1])
    if other == u:
        return "self"
    if other.endswith(u):
        return "other(op-id-is-suffix)"
    if u.endswith(other):
        return "other(suffix-of-op-id)"
    if other.startswith(u + "."):
        return "other(op-id-is-dotted-stem)"
    if u.startswith(other + "."):
        return "other(dotted-stem-of-op-id)"
    if other.startswith(u) or u.startswith(other):
        return "other(prefix)"
    return "other(unrelated)"


def expected_table(d):
    return {k: [v, True] for k, v in d.items()}


def diff_tables(via, op, got, want, what):
    out = []
    for k in sorted(set(got) | set(want)):
        rel = relation(via, op, k)
        if k not in got:
            d = f"{what}:lost:{rel}"
        elif k not in want:
            d = f"{what}:unexpected:{rel}"
        elif got[k][0] != want[k][0]:
            d = f"{what}:content:{rel}"
        elif got[k][1] != want[k][1]:
            d = f"{what}:md5:{rel}"
        else:
            continue
        out.append(d)
    return out


def snippet(via, hist):
    """python lines that replay a history natively"""
    kind, suffix = BACKENDS[via]
    if via == "dir":
        mk = "DataStoreDirectory(p, mode={m!r}, suffix='fa')"
    elif via == "sql":
        mk = "DataStoreSqlite(p, mode={m!r})"
    elif kind == "dir":
        mk = f"open_data_store(p, suffix={suffix!r}, mode={{m!r}})"
    else:
        mk = "open_data_store('p.sqlitedb', mode={m!r})"
    wr = "" if via in ("dir", "sql") else f"; w = {via}(data_store=ds)"
    lines = [f"ds = {mk.format(m='w')}{wr}"]
    for step, op in enumerate(hist):
        d = data_for(via, step, op)
        k = op[0]
        if k == "o":
            lines.append(("ds.unlock(); ds.close(); " if kind == "sql" else "") + f"ds = {mk.format(m=op[1])}{wr}")
        elif k == "l":
            lines.append(f"ds.write_log(unique_id={op[1]!r}, data={data_for('dir', step, op)!r})")
        elif k == "d":
            lines.append(f"ds.drop_not_completed(unique_id={op[1]!r})")
        elif k == "D":
            lines.append("ds.drop_not_completed()")
        elif via in ("dir", "sql"):
            meth = "write" if k == "w" else "write_not_completed"
            lines.append(f"ds.{meth}(unique_id={op[1]!r}, data={d!r})")
        elif k == "w":
            lines.append(f"w.main(data=make_unaligned_seqs({{'s1': {d!r}, 's2': 'GGCC'}}, moltype='dna'), "
                         f"identifier={op[1]!r})")
        else:
            lines.append(f"w.main(data=NotCompleted('ERROR', 'origin', {d!r}, source={op[1]!r}), identifier={op[1]!r})")
    return "; ".join(lines)


def run_history(via, hist, first_mode="w"):
    """None, or (key, message) for the first step after which the real view is not a permitted model state"""
    tmp = tempfile.TemporaryDirectory(prefix="c13_", dir=_TMPROOT)
    root = tmp.name
    ds = None
    kind = BACKENDS[via][0]
    steps = list(hist) + [["o", "r"]]                   # every history ends with close + re-open read-only
    tokens = [t for t in (token_for(s, o) for s, o in enumerate(steps)) if t]
    try:
        with as_master_process():
            mode = first_mode
            ds = open_store(via, root, mode)
            writer = make_writer(via, ds)
            state = ({}, {})
            logs = []
            for step, op in enumerate(steps):
                final = step >= len(hist)
                k = op[0]
                data = data_for(via, step, op)
                C0, N0 = state
                where = f"{via}/{mode}/{OPNAME[k]}" + (f"({op[1]})" if k == "o" else "") + ("[final]" if final else "")
                exc = None
                new_mode = mode
                try:
                    if k == "o":
                        close_store(via, ds)
                        ds = None
                        ds = open_store(via, root, op[1])
                        writer = make_writer(via, ds)
                        new_mode = op[1]
                    else:
                        apply_real(via, ds, op, step, writer)
                except Exception as e:
                    exc = e
                    if ds is None:
                        return (f"{where}/cannot-reopen:{type(e).__name__}",
                                f"{snippet(via, steps[:step + 1])}  -> {type(e).__name__}: {e}")
                allowed = spec_step(via, mode, state, op, data)
                try:
                    gC, gN, gL, problems = real_view(via, ds, tokens)
                except Exception as e:
                    return (f"{where}/view-raises:{type(e).__name__}",
                            f"{snippet(via, steps[:step + 1])}  -> reading completed/not_completed/logs raises "
                            f"{type(e).__name__}: {e}" + (f" (the operation itself raised {exc!r})" if exc else ""))
                log_fine = logs_ok(op, mode, logs, gL, data_for("dir", step, op))
                matched = None
                for (aC, aN) in allowed:
                    if gC == expected_table(aC) and gN == expected_table(aN):
                        matched = (aC, aN)
                        break
                if matched is None or problems or not log_fine:
                    best = None
                    present = set(C0) | set(N0)
                    for (aC, aN) in allowed:   # describe the disagreement against the closest permitted state
                        d = diff_tables(via, op, gC, expected_table(aC), "completed") + \
                            diff_tables(via, op, gN, expected_table(aN), "not_completed")
                        if best is None or len(d) < len(best[0]):
                            best = (d, aC, aN)
                    diffs, aC, aN = best
                    if k in "wn" and len(diffs) == 1 and diffs[0].endswith(":lost:self"):
                        # the only symptom is that the record the operation names is absent: say which related
                        # records were present (a collision of names)
                        near = sorted({relation(via, op, p) for p in present} - {"self", "other(unrelated)"})
                        diffs = [diffs[0] + "[beside:" + ",".join(near) + "]"] if near else diffs
                    if not log_fine:
                        diffs.append("logs:changed-by-non-log-operation" if k != "l" else
                                     "logs:changed-in-read-only-mode" if mode == "r" else
                                     "logs:new-log-not-readable-or-other-log-altered")
                    diffs = sorted(set(diffs)) + problems
                    key = f"{where}/" + "+".join(diffs) + (f"/raised:{type(exc).__name__}" if exc else "")
                    msg = (f"{snippet(via, steps[:step + 1])}  -> completed={gC} not_completed={gN} logs={gL}; "
                           f"dictionary model (mode {mode}): completed={expected_table(aC)} "
                           f"not_completed={expected_table(aN)} logs before={logs}"
                           + (f" [{len(allowed)} permitted outcomes, none matches]" if len(allowed) > 1 else "")
                           + (f"; the call raised {type(exc).__name__}: {exc}" if exc else "")
                           + " (content shown as decoded payload; md5 True = checksum equals md5 of the content)")
                    return key, msg
                state = matched
                logs = gL
                mode = new_mode
        return None
    finally:
        try:
            if ds is not None and kind == "sql":
                ds.close()
        except Exception:
            pass
        shutil.rmtree(root, ignore_errors=True)
        tmp.cleanup()


# ------------------------------------------------------------------------------------------------ histories
def alphabet(ids, logs=LOGS, drops=None, modes=MODES):
    drops = ids if drops is None else drops
    ops = [["w", i] for i in ids] + [["n", i] for i in ids] + [["d", i] for i in drops]
    ops += [["D"]] if drops else []
    ops += [["l", j] for j in logs] + [["o", m] for m in modes]
    return ops


def gen_history(tier, seed):
    rnd = random.Random(seed)
    thorough = tier == "thorough"
    full = alphabet(IDS)
    small = alphabet(["a", "ba", "a.b"], logs=LOGS[:1], drops=["a"])     # 12 operations
    tiny = alphabet(["a", "ba"], logs=LOGS[:1], drops=["a"])              # 10 operations
    wide = alphabet(IDS + EXTRA_IDS)
    # identifiers that begin with, or are, the name of a table of the sqlite store, next to the records they must not touch
    tables = alphabet(["a", "results_a", "results", "results/a"], logs=["logs_a.log"], drops=["a", "results"], modes=["a"])
    for h in itertools.chain(*[itertools.product(tables, repeat=n) for n in (1, 2, 3)]):
        yield ["sql", list(h)]
    for via in ("dir", "sql"):
        # exhaustive over the full alphabet
        for n in range(1, (4 if thorough else 3) + 1):
            for h in itertools.product(full, repeat=n):
                yield [via, list(h)]
        # one step deeper over the reduced alphabet (the ids that are suffix / dotted-prefix of one another)
        for h in (itertools.product(tiny, repeat=5) if thorough else itertools.product(small, repeat=4)):
            yield [via, list(h)]
        # seeded sample beyond the frontier: longer histories, more identifiers
        for _ in range(6000 if thorough else 1000):
            n = rnd.randint(5, 8) if thorough else rnd.randint(4, 6)
            yield [via, [rnd.choice(wide if rnd.random() < 0.5 else full) for _ in range(n)]]


def gen_writers(tier, seed):
    rnd = random.Random(seed + 1)
    thorough = tier == "thorough"
    ops = alphabet(WRITER_IDS, logs=[], drops=[])
    for via in ("write_seqs", "write_json", "write_db"):
        for n in range(1, (4 if thorough else 3) + 1):
            for h in itertools.product(ops, repeat=n):
                yield [via, list(h)]
        for _ in range(1500 if thorough else 150):
            n = rnd.randint(5, 7) if thorough else rnd.randint(4, 5)
            yield [via, [rnd.choice(ops) for _ in range(n)]]


def membership(via, hist):
    """(completed, not completed) after the history: {identifier: step tag of the data it holds}; operations that raise are
    skipped (a refusal is an outcome, not an error)"""
    tmp = tempfile.TemporaryDirectory(prefix="c13m_", dir=_TMPROOT)
    try:
        with as_master_process():
            ds = open_store(via, tmp.name, "w")
            writer = make_writer(via, ds)
            for step, op in enumerate(hist):
                try:
                    if op[0] == "o":
                        close_store(via, ds)
                        ds = open_store(via, tmp.name, op[1])
                        writer = make_writer(via, ds)
                    else:
                        apply_real(via, ds, op, step, writer)
                except Exception:
                    pass
            out = []
            for members in (ds.completed, ds.not_completed):
                out.append({Path(str(m.unique_id)).name: str(m.read()).split(":")[0] for m in members})
            close_store(via, ds)
            return out
    finally:
        tmp.cleanup()


def contract_history(case):
    via, hist = case[0], [list(op) for op in case[1]]
    res = run_history(via, hist)
    if res is not None:
        return ("fail", res[0], res[1])
    # a record has one identity: where the model leaves a choice (append mode, success after a failure), the store must make
    # the same choice whether the record is named x or results/x
    if via == "sql":
        for t, op in enumerate(hist):
            if op[0] in ("w", "n") and op[1].startswith("results/"):
                plain = hist[:t] + [[op[0], canon(via, op[1])]]
                a, b = membership(via, hist[:t + 1]), membership(via, plain)
                if a != b:
                    mode = ([o[1] for o in hist[:t] if o[0] == "o"] or ["w"])[-1]
                    return ("fail", f"sql/{mode}/{OPNAME[op[0]]}/table-qualified-identifier-treated-differently",
                            f"{snippet(via, hist[:t + 1])} -> completed {a[0]}, not completed {a[1]}; the same history with "
                            f"{canon(via, op[1])!r} instead of {op[1]!r} -> completed {b[0]}, not completed {b[1]}")
    return ("ok", any(op[0] != "o" for op in hist))


_FUNCS = ["write", "write_not_completed", "write_log", "drop_not_completed", "completed", "not_completed", "logs",
          "read", "md5", "validate", "describe", "__init__ (modes r/a/w)"]
BOUNDED = {
    "history": {
        "gen": gen_history, "contract": contract_history,
        "functions": [f"DataStoreDirectory.{f}" for f in _FUNCS] + [f"DataStoreSqlite.{f}" for f in _FUNCS] +
                     ["DataStoreSqlite.close", "DataStoreABC._check_writable", "DataStoreDirectory.__contains__",
                      "DataMember.read", "DataMember.md5"],
        "bound": "both stores, opened in mode w; every history of length <=3 (thorough <=4) over {write(i), "
                 "write_not_completed(i), drop_not_completed(i), drop_not_completed(), write_log(run1.log|run2.log), "
                 "close+reopen(r|a|w)} with i in {a, ba, a.b, a.fa, b} (21 operations); quick: every history of length "
                 "4 over the reduced alphabet i in {a, ba, a.b}, drop(a), one log (12 operations); thorough: every "
                 "history of length 5 over i in {a, ba}, drop(a), one log (10 operations); seeded "
                 "sample of length 4-6 (thorough 5-8) with 6 more ids; every history ends with close + re-open in "
                 "mode r; the view is compared after every step",
        "rule": "a case = (store kind, history); the view (completed, not_completed: id -> content, checksum; logs) "
                "is compared with the set of states the dictionary model permits after every operation; non-trivial "
                "when the history has at least one mutator; distinct by hash of the case",
    },
    "writers": {
        "gen": gen_writers, "contract": contract_history,
        "functions": ["io.open_data_store", "io.write_seqs.main", "io.write_json.main", "io.write_db.main",
                      "DataStoreDirectory.write/write_not_completed (ids as the writers pass them, '<id>.json')",
                      "DataStoreSqlite.write/write_not_completed"],
        "bound": "write_seqs -> directory store (fasta), write_json -> directory store (json), write_db -> sqlite "
                 "store; every history of length <=3 (thorough <=4) over {main(seqs, identifier=i), "
                 "main(NotCompleted, identifier=i), close+reopen(r|a|w)} with i in {a, ba, a.b, a.1, b} (13 "
                 "operations); seeded sample of length 4-5 (thorough 5-7); final re-open in mode r",
        "rule": "a case = (writer, history); same dictionary model as 'history'; content is decoded independently "
                "(own FASTA reader / unique payload token per write); non-trivial when the history has at least one "
                "write; distinct by hash of the case",
    },
}
