"""Bounded run-time contracts for C13 -- data stores hold exactly what was written, record by record.

Contract text (taken from the property statement, not from the code): a store is a pair of dictionaries
``completed: id -> data`` and ``not_completed: id -> data`` (plus the log records).  After every operation of a
history, and after close + re-open in every mode, the real store's membership, every member's content and every
member's checksum equal those of the dictionary model; an operation on one identifier changes no other record;
append mode never overwrites; read-only mode never mutates.

Where the statement leaves behaviour open the model is a *set* of permitted successor states (see ``spec_step``):
a mutator may be refused (exception or silent no-op) in read-only mode and where append mode would have to
overwrite; writing a not-completed record for an id that is already completed may replace the completed record, sit
beside it, or be refused -- but it may never alter the completed record's content.  Which exception is raised is
never checked; only the resulting state is.
"""
from __future__ import annotations

import contextlib
import hashlib
import itertools
import json
import os
import random
import shutil
import tempfile
from pathlib import Path

SUFFIX = "fa"
# names that are suffixes / prefixes of one another, with and without the format suffix, plus an unrelated control
IDS = ["a", "ba", "a.b", "a.fa", "b"]
EXTRA_IDS = ["a.1", "a.2", "aa", "b.a", "ab.fa", "a.b.fa"]  # only in the seeded sample beyond the frontier
LOGS = ["run1.log", "run2.log"]
MODES = ["r", "a", "w"]
_TMPROOT = "/dev/shm" if os.path.isdir("/dev/shm") and os.access("/dev/shm", os.W_OK) else None


# ------------------------------------------------------------------------------------------------ spec
def md5_spec(data):
    return hashlib.md5(data.encode("utf-8") if isinstance(data, str) else data).hexdigest()


def canon(kind, uid):
    """the record an identifier names: a directory store of suffix ``fa`` accepts ``x`` and ``x.fa`` for the same
    record; a sqlite store uses the identifier literally"""
    if kind == "dir" and uid.endswith("." + SUFFIX):
        return uid[: -len(SUFFIX) - 1]
    return uid


def _with(d, k, v):
    d = dict(d)
    d[k] = v
    return d


def _without(d, k):
    d = dict(d)
    d.pop(k, None)
    return d


def spec_step(kind, mode, state, op, data):
    """permitted successor states (completed, not_completed, logs) of the dictionary model; the first entry is the
    one used to describe a disagreement.  ``logs`` entry ``None`` in the result means 'see log rule in the contract'."""
    C, N, L = state
    same = (C, N, L)
    k = op[0]
    if k == "o" or mode == "r":
        return [same]                                   # re-open persists; read-only never mutates
    if k == "w":
        i = canon(kind, op[1])
        eff = (_with(C, i, data), _without(N, i), L)    # last write wins, a success replaces the not-completed
        if mode == "w":
            return [eff]
        if i in C:
            return [same]                               # append never overwrites
        if i in N:
            return [eff, same]                          # replacing a failure by a success, or refusing: both allowed
        return [eff]
    if k == "n":
        i = canon(kind, op[1])
        moved = (_without(C, i), _with(N, i, data), L)
        both = (C, _with(N, i, data), L)
        if mode == "w":
            if i in C:
                return [moved, both, same]              # open in the statement; the completed content must survive
            return [both]
        if i in N:
            return [same]                               # append never overwrites
        if i in C:
            return [both, same]
        return [both]
    if k == "d":
        return [(C, _without(N, canon(kind, op[1])), L)]
    if k == "D":
        return [(C, {}, L)]
    if k == "l":
        return [(C, N, None)]
    raise ValueError(op)


def logs_ok(mode, before, after, name, data):
    """log records: the log just written reads back; any other log is either untouched or (one-log-per-session
    stores) gone -- never altered.  The property statement compares completed / not-completed members only, so
    nothing more is demanded of a log write.  In append mode an existing log may also be kept as it was."""
    for k, v in after.items():
        if k != name and before.get(k) != v:
            return False
    if after.get(name) == data:
        return True
    return mode == "a" and name in before and after.get(name) == before[name]


# ------------------------------------------------------------------------------------------------ real store
@contextlib.contextmanager
def as_master_process():
    """the harness evaluates contracts in forked pool workers, where cogent3's ``is_master_process()`` is False and
    DataStoreDirectory deliberately creates no directories; the worker plays the user's main process here"""
    import cogent3.app.data_store as dsm
    old = dsm.is_master_process
    dsm.is_master_process = lambda: True
    try:
        yield
    finally:
        dsm.is_master_process = old


def open_store(kind, root, mode):
    if kind == "dir":
        from cogent3.app.data_store import DataStoreDirectory
        return DataStoreDirectory(Path(root) / "store", mode=mode, suffix=SUFFIX)
    from cogent3.app.sqlite_data_store import DataStoreSqlite
    ds = DataStoreSqlite(Path(root) / "store.sqlitedb", mode=mode)
    ds.db  # connect now (creates the file in w/a mode)
    return ds


def close_store(kind, ds):
    if kind == "sql":
        ds.unlock()   # a well-behaved session releases its lock; locking is not part of C13
        ds.close()


def real_view(kind, ds):
    """(completed, not_completed, logs, problems): id -> [content, md5]; logs: name -> content"""
    problems = []

    def table(members, what):
        out = {}
        for m in list(members):
            uid = str(m.unique_id)
            name = Path(uid).name
            if kind == "dir":
                sfx = "." + SUFFIX if what == "completed" else ".json"
                if name.endswith(sfx):
                    name = name[: -len(sfx)]
                else:
                    problems.append(f"{what}:member-without-suffix")
            if name in out:
                problems.append(f"{what}:duplicate-member")
            try:
                content = m.read()
            except Exception as e:
                content = f"<read raises {type(e).__name__}>"
                problems.append(f"{what}:read-raises")
            try:
                md5 = m.md5
            except Exception as e:
                md5 = f"<md5 raises {type(e).__name__}>"
                problems.append(f"{what}:md5-raises")
            out[name] = [content, md5]
        return out

    C = table(ds.completed, "completed")
    N = table(ds.not_completed, "not_completed")
    L = {}
    for m in ds.logs:
        name = Path(str(m.unique_id)).name
        if name in L:
            problems.append("logs:duplicate-member")
        try:
            L[name] = m.read()
        except Exception as e:
            L[name] = f"<read raises {type(e).__name__}>"
            problems.append("logs:read-raises")
    return C, N, L, sorted(set(problems))


def apply_real(ds, op, data):
    k = op[0]
    if k == "w":
        ds.write(unique_id=op[1], data=data)
    elif k == "n":
        ds.write_not_completed(unique_id=op[1], data=data)
    elif k == "l":
        ds.write_log(unique_id=op[1], data=data)
    elif k == "d":
        ds.drop_not_completed(unique_id=op[1])
    elif k == "D":
        ds.drop_not_completed()
    else:
        raise ValueError(op)


OPNAME = {"w": "write", "n": "write_not_completed", "l": "write_log", "d": "drop_not_completed(id)",
          "D": "drop_not_completed()", "o": "reopen"}


def data_for(step, op):
    tag = {"w": "C", "n": "N", "l": "L"}.get(op[0])
    return None if tag is None else f"{tag}{step}:{op[1]}\nline2\n"


def relation(kind, op, other):
    """how the affected record's id relates to the id the operation names (witness pattern for the key)"""
    if len(op) < 2 or op[0] in ("o", "l"):
        return "any"
    u = canon(kind, op[1])
    if other == u:
        return "self"
    if other.endswith(u):
        return "other(op-id-is-suffix)"
    if u.endswith(other):
        return "other(suffix-of-op-id)"
    if other.startswith(u + "."):
        return "other(op-id-is-dotted-stem)"
    if u.startswith(other + "."):
        return "other(dotted-stem-of-op-id)"
    if other.startswith(u) or u.startswith(other):
        return "other(prefix)"
    return "other(unrelated)"


def expected_table(d):
    return {k: [v, md5_spec(v)] for k, v in d.items()}


def diff_tables(kind, op, got, want, what):
    out = []
    for k in sorted(set(got) | set(want)):
        rel = relation(kind, op, k)
        if k not in got:
            out.append(f"{what}:lost:{rel}")
        elif k not in want:
            out.append(f"{what}:unexpected:{rel}")
        elif got[k][0] != want[k][0]:
            out.append(f"{what}:content:{rel}")
        elif got[k][1] != want[k][1]:
            out.append(f"{what}:md5:{rel}")
    return out


def snippet(kind, hist):
    """python lines that replay a history natively"""
    mk = ("DataStoreDirectory(p, mode={m!r}, suffix='fa')" if kind == "dir" else "DataStoreSqlite(p, mode={m!r})")
    lines = [f"ds = {mk.format(m='w')}"]
    for step, op in enumerate(hist):
        d = data_for(step, op)
        k = op[0]
        if k == "o":
            lines.append(("ds.unlock(); ds.close(); " if kind == "sql" else "") + f"ds = {mk.format(m=op[1])}")
        elif k == "w":
            lines.append(f"ds.write(unique_id={op[1]!r}, data={d!r})")
        elif k == "n":
            lines.append(f"ds.write_not_completed(unique_id={op[1]!r}, data={d!r})")
        elif k == "l":
            lines.append(f"ds.write_log(unique_id={op[1]!r}, data={d!r})")
        elif k == "d":
            lines.append(f"ds.drop_not_completed(unique_id={op[1]!r})")
        else:
            lines.append("ds.drop_not_completed()")
    return "; ".join(lines)


def run_history(kind, hist, final_reopen=True):
    """returns None or (key, message)"""
    root = tempfile.mkdtemp(prefix="c13_", dir=_TMPROOT)
    ds = None
    try:
        with as_master_process():
            mode = "w"
            ds = open_store(kind, root, mode)
            state = ({}, {}, {})
            steps = list(hist) + ([["o", "r"]] if final_reopen else [])
            for step, op in enumerate(steps):
                final = step >= len(hist)
                k = op[0]
                data = data_for(step, op)
                C0, N0, L0 = state
                pre = ("C" if len(op) > 1 and k in "wnd" and canon(kind, op[1]) in C0 else "") + \
                      ("N" if len(op) > 1 and k in "wnd" and canon(kind, op[1]) in N0 else "")
                where = f"{kind}/{mode}/{OPNAME[k]}" + (f"({op[1]})" if k == "o" else "") + \
                        ("[final]" if final else "") + (f"/pre={pre or '-'}" if k in "wnd" else "")
                exc = None
                try:
                    if k == "o":
                        close_store(kind, ds)
                        ds = None
                        ds = open_store(kind, root, op[1])
                        new_mode = op[1]
                    else:
                        apply_real(ds, op, data)
                        new_mode = mode
                except Exception as e:
                    exc = e
                    new_mode = mode
                    if ds is None:
                        return (f"{where}/cannot-reopen:{type(e).__name__}",
                                f"{snippet(kind, steps[:step + 1])}  -> {type(e).__name__}: {e}")
                allowed = spec_step(kind, mode, state, op, data)
                try:
                    gC, gN, gL, problems = real_view(kind, ds)
                except Exception as e:
                    return (f"{where}/view-raises:{type(e).__name__}",
                            f"{snippet(kind, steps[:step + 1])}  -> reading completed/not_completed/logs raises "
                            f"{type(e).__name__}: {e}" + (f" (the operation itself raised {exc!r})" if exc else ""))
                matched = None
                for (aC, aN, aL) in allowed:
                    if gC == expected_table(aC) and gN == expected_table(aN):
                        if aL is None:
                            if not logs_ok(mode, L0, gL, op[1], data):
                                continue
                            aL = gL
                        elif gL != aL:
                            continue
                        matched = (aC, aN, dict(aL))
                        break
                if matched is None or problems:
                    best = None
                    for (aC, aN, aL) in allowed:   # describe the disagreement against the closest permitted state
                        d = diff_tables(kind, op, gC, expected_table(aC), "completed") + \
                            diff_tables(kind, op, gN, expected_table(aN), "not_completed")
                        if aL is None:
                            if not logs_ok(mode, L0, gL, op[1], data):
                                d.append("logs:written-log-wrong-or-other-log-altered")
                        elif gL != aL:
                            d.append("logs:changed-by-non-log-operation")
                        if best is None or len(d) < len(best[0]):
                            best = (d, aC, aN, aL)
                    diffs, aC, aN, aL = best
                    diffs = sorted(set(diffs)) + problems
                    key = f"{where}/" + "+".join(diffs) + (f"/raised:{type(exc).__name__}" if exc else "")
                    msg = (f"{snippet(kind, steps[:step + 1])}  -> completed={gC} not_completed={gN} logs={gL}; "
                           f"dictionary model (mode {mode}): completed={expected_table(aC)} "
                           f"not_completed={expected_table(aN)}"
                           + (f" logs={aL}" if aL is not None else "")
                           + (f" [{len(allowed)} permitted outcomes, none matches]" if len(allowed) > 1 else "")
                           + (f"; the call raised {type(exc).__name__}: {exc}" if exc else ""))
                    return key, msg
                state = matched
                mode = new_mode
        return None
    finally:
        try:
            if ds is not None and kind == "sql":
                ds.close()
        except Exception:
            pass
        shutil.rmtree(root, ignore_errors=True)


# ------------------------------------------------------------------------------------------------ histories
def alphabet(ids, logs=LOGS, drops=None):
    drops = ids if drops is None else drops
    ops = [["w", i] for i in ids] + [["n", i] for i in ids] + [["d", i] for i in drops] + [["D"]]
    ops += [["l", j] for j in logs] + [["o", m] for m in MODES]
    return ops


def gen_history(tier, seed):
    rnd = random.Random(seed)
    thorough = tier == "thorough"
    full = alphabet(IDS)
    small = alphabet(["a", "ba", "a.b"], logs=LOGS[:1], drops=["a"])
    for kind in ("dir", "sql"):
        # exhaustive over the full alphabet
        for n in range(1, (4 if thorough else 3) + 1):
            for h in itertools.product(full, repeat=n):
                yield [kind, list(h)]
        # one step deeper over the reduced alphabet (the ids that are suffix / dotted-prefix of one another)
        n = 5 if thorough else 4
        for h in itertools.product(small, repeat=n):
            yield [kind, list(h)]
        # seeded sample beyond the frontier: longer histories, more identifiers
        wide = alphabet(IDS + EXTRA_IDS)
        for _ in range(6000 if thorough else 300):
            n = rnd.randint(5, 8) if thorough else rnd.randint(4, 6)
            yield [kind, [rnd.choice(wide if rnd.random() < 0.5 else full) for _ in range(n)]]


def contract_history(case):
    kind, hist = case[0], [list(op) for op in case[1]]
    res = run_history(kind, hist)
    if res is not None:
        return ("fail", res[0], res[1])
    muts = sum(1 for op in hist if op[0] != "o")
    return ("ok", muts >= 1)


BOUNDED = {
    "history": {
        "gen": gen_history, "contract": contract_history,
        "functions": ["DataStoreDirectory.write", "DataStoreDirectory.write_not_completed",
                      "DataStoreDirectory.write_log", "DataStoreDirectory.drop_not_completed",
                      "DataStoreDirectory.completed/not_completed/logs/read/md5", "DataStoreDirectory.__init__ (r/a/w)",
                      "DataStoreSqlite.write", "DataStoreSqlite.write_not_completed", "DataStoreSqlite.write_log",
                      "DataStoreSqlite.drop_not_completed", "DataStoreSqlite.completed/not_completed/logs/read/md5",
                      "DataStoreSqlite.close + __init__ (r/a/w)", "DataStoreABC._check_writable"],
        "bound": "both stores, opened in mode w; every history of length <=3 (thorough <=4) over {write(i), "
                 "write_not_completed(i), drop_not_completed(i), drop_not_completed(), write_log(run1.log|run2.log), "
                 "close+reopen(r|a|w)} with i in {a, ba, a.b, a.fa, b}; every history of length 4 (thorough 5) over "
                 "the reduced alphabet i in {a, ba, a.b}; seeded sample of length 4-6 (thorough 5-8) with 6 more ids; "
                 "each history ends with a re-open in mode r; view compared after every step",
        "rule": "a case = (store kind, history); the view (completed, not_completed: id -> content, md5; logs) is "
                "compared with the set of states the dictionary model permits after every operation; non-trivial "
                "when the history has at least one mutator; distinct by hash of the case",
    },
}
