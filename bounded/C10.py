"""Bounded run-time contracts for C10 -- every serialisable object round-trips, whatever state it is in
(stand-in tier; never counted as proved).

Contract text (all contracts of this module):  for an object ``x`` built by a *history* of view / mutation
operations and a channel ``how`` in {json: deserialise_object(json.loads(x.to_json())), rich:
deserialise_object(x.to_rich_dict()), pickle: pickle.loads(pickle.dumps(x)), and for sequences also
copy: x.copy()}

    view(how(x)) == view(x)            (observational equality, every component of the abstract view)
    view(x) after how(x) == view(x)    (serialising does not change the object that was serialised)

``view`` turns an object into plain strings / lists / dicts through its public read API only (strings, names,
parent coordinates, features with their spans and sliced text, annotation records, table rows and formatted
text, parameter values, log-likelihood).  Where a plain-data model of the history exists (sequence text, rows of
a collection, the gapped string behind an IndelMap, table rows) the original is first checked against that model
(precondition): an original that already disagrees with the plain strings is another property's finding and is
skipped, so the oracle of the round trip is always a state that plain data confirms.
A view component whose evaluation raises on the original is recorded as ("raises", type) and must raise the
same way on the copy.  A history the library refuses to build is outside the precondition (skip).

Failure keys:  <contract>/<type tag>/<channel>/<symptom>[/<state flags>]  with symptom one of
raises:<ExceptionType>, differs:<components>, annotations-dropped, original-changed:<components>; the concrete
history is in the message only.
"""
from __future__ import annotations

import json
import math
import os
import pickle
import random
import tempfile
import warnings

import numpy

warnings.filterwarnings("ignore")

CHANNELS = ("json", "rich", "pickle")


# ------------------------------------------------------------------------------------------------ common
def rt(x, how):
    from cogent3.util.deserialise import deserialise_object
    if how == "json":  # a registered type without its own to_json (SeqsData) goes through json.dumps of its rich dict
        text = x.to_json() if hasattr(x, "to_json") else json.dumps(x.to_rich_dict())
        return deserialise_object(json.loads(text))
    if how == "rich":
        return deserialise_object(x.to_rich_dict())
    if how == "pickle":
        return pickle.loads(pickle.dumps(x))
    if how == "copy":
        return x.copy()
    raise ValueError(how)


def plain(v, depth=0):
    """numpy / tuples / odd scalars -> plain python data (lists, dicts with str keys, str, int, float, bool, None)"""
    if v is None or isinstance(v, bool):
        return v
    if isinstance(v, str):
        return str(v)  # numpy.str_ -> str
    if isinstance(v, (int,)):
        return int(v)
    if isinstance(v, float):
        return v
    if isinstance(v, bytes):
        return ["bytes", v.decode("latin1")]
    if isinstance(v, numpy.ndarray):
        return plain(v.tolist(), depth + 1)
    if isinstance(v, numpy.generic):
        return plain(v.item(), depth + 1)
    if isinstance(v, dict):
        return {str(k): plain(x, depth + 1) for k, x in v.items()}
    if isinstance(v, (list, tuple)):
        return [plain(x, depth + 1) for x in v]
    if isinstance(v, (set, frozenset)):
        return sorted((plain(x, depth + 1) for x in v), key=repr)
    return ["obj", type(v).__name__, str(v)]


def same(a, b, rel=1e-9, ab=1e-12):
    """structural equality with a float tolerance (a recomputed likelihood may differ in the last bits)"""
    if isinstance(a, bool) or isinstance(b, bool):
        return type(a) is type(b) and a == b
    if isinstance(a, (int, float)) and isinstance(b, (int, float)):
        if isinstance(a, float) or isinstance(b, float):
            fa, fb = float(a), float(b)
            if math.isnan(fa) or math.isnan(fb):
                return math.isnan(fa) and math.isnan(fb)
            if math.isinf(fa) or math.isinf(fb):
                return fa == fb
            return abs(fa - fb) <= ab + rel * max(abs(fa), abs(fb))
        return a == b
    if type(a) is not type(b):
        return False
    if isinstance(a, list):
        return len(a) == len(b) and all(same(x, y, rel, ab) for x, y in zip(a, b))
    if isinstance(a, dict):
        return a.keys() == b.keys() and all(same(a[k], b[k], rel, ab) for k in a)
    return a == b


def obs(f):
    """one component of a view; an observation that raises is itself an observation"""
    try:
        return plain(f())
    except Exception as e:  # noqa: BLE001 - any refusal is recorded by type
        return ["raises", type(e).__name__]


def diff_components(v0, v1):
    keys = list(v0) + [k for k in v1 if k not in v0]
    return [k for k in keys if k not in v0 or k not in v1 or not same(v0[k], v1[k])]


def _short(v, n=260):
    s = repr(v)
    return s if len(s) <= n else s[:n] + "..."


def check_rt(prefix, how, build, viewfn, case, flags="", model=None, refine=None, nontrivial=True):
    """the common contract body.  build() -> fresh object in its history state; viewfn(obj) -> dict of plain
    components; model: optional dict of components computed without cogent3 which the original must show
    (precondition: the oracle is only used when it agrees with the plain-data model of the history);
    refine(v0, v1, comps) -> a more specific symptom string or None"""
    tail = f"/{flags}" if flags else ""
    try:
        x = build()
    except Exception:  # noqa: BLE001 - a history the library refuses is outside the precondition
        return ("skip",)
    v0 = viewfn(x)
    if model and [k for k in model if k not in v0 or not same(plain(model[k]), v0[k])]:
        return ("skip",)  # the original already disagrees with the plain-data model: another property's matter
    try:
        y = rt(x, how)
    except Exception as e:  # noqa: BLE001
        return ("fail", f"{prefix}/{how}/raises:{type(e).__name__}{tail}",
                f"{case}: {how} round trip raises {type(e).__name__}: {str(e)[:200]}")
    v1 = viewfn(y)
    comps = diff_components(v0, v1)
    if comps:
        sym = (refine(v0, v1, comps) if refine else None) or "differs:" + "+".join(comps)
        c = comps[0]
        return ("fail", f"{prefix}/{how}/{sym}{tail}",
                f"{case}: after {how} round trip component {c!r} is {_short(v1.get(c))}, original shows {_short(v0.get(c))}"
                f" (all differing components: {comps})")
    v0b = viewfn(x)
    comps = diff_components(v0, v0b)
    if comps:
        c = comps[0]
        return ("fail", f"{prefix}/{how}/original-changed:" + "+".join(comps) + tail,
                f"{case}: serialising ({how}) changed the original: component {c!r} was {_short(v0.get(c))}, is now {_short(v0b.get(c))}")
    return ("ok", nontrivial)


# ------------------------------------------------------------------------------------------------ sequences
DNA_COMP = dict(zip("ACGTRYMKSWNBVDH-?", "TGCAYRKMSWNVBHD-?"))
RNA_COMP = dict(zip("ACGURYMKSWNBVDH-?", "UGCAYRKMSWNVBHD-?"))


def comp(s, mt):
    t = DNA_COMP if mt == "dna" else RNA_COMP
    return "".join(t[c] for c in s)


def seq_spec_apply(s, mt, op):
    """plain-string model of one history step -> (string, moltype)"""
    k = op[0]
    if k == "s":
        a, b, c = op[1:]
        r = s[a:b:c]
        if c is not None and c < 0 and mt in ("dna", "rna"):
            r = comp(r, mt)
        return r, mt
    if k == "rc":
        return comp(s[::-1], mt), mt
    if k == "rna":
        return s.replace("T", "U"), "rna"
    if k == "dna":
        return s.replace("U", "T"), "dna"
    if k == "degap":
        return s.replace("-", "").replace("?", ""), mt
    raise ValueError(op)


def seq_real_apply(x, op):
    k = op[0]
    if k == "s":
        return x[op[1]:op[2]:op[3]]
    if k == "rc":
        return x.rc()
    if k == "rna":
        return x.to_rna()
    if k == "dna":
        return x.to_dna()
    if k == "degap":
        return x.degap()
    if k == "fslice":  # the sequence spelled by a feature (joined spans, reverse complemented for the minus strand)
        return next(iter(x.get_features(name=op[1], allow_partial=True))).get_slice()
    raise ValueError(op)


def db_records(db):
    """every row of an annotation db as sorted plain dicts"""
    if db is None:
        return []
    rows = []
    for r in db.get_records_matching():
        rows.append({k: plain(v) for k, v in dict(r).items()})
    return sorted(rows, key=lambda d: json.dumps(d, sort_keys=True, default=str))


def feature_view(f):
    return [f.biotype, f.name, f.seqid, plain(f.map.get_coordinates()), bool(f.reversed), int(f.map.parent_length),
            obs(lambda: str(f.get_slice()))]


def features_of(x, **kw):
    return sorted((feature_view(f) for f in x.get_features(allow_partial=True, **kw)), key=repr)


def info_of(x):
    info = getattr(x, "info", None)
    return {k: plain(v) for k, v in dict(info or {}).items() if k != "Refs"}


def parent_coords(x):
    """coordinates of the displayed segment on the parent; an empty view names no characters, and a view whose
    underlying record carries no seqid is identified by the sequence name"""
    if len(x) == 0:
        return "empty"
    seqid, start, stop, strand = x.parent_coordinates()
    return [seqid if seqid is not None else x.name, int(start), int(stop), int(strand)]


def seq_view(x):
    return {
        "str": obs(lambda: str(x)),
        "len": obs(lambda: len(x)),
        "name": obs(lambda: x.name),
        "type": type(x).__name__,
        "moltype": obs(lambda: x.moltype.label),
        "info": obs(lambda: info_of(x)),
        "parent_coordinates": obs(lambda: parent_coords(x)),
        "annotation_offset": obs(lambda: int(x.annotation_offset)),
        "features": obs(lambda: features_of(x)),
        "annotation_db": obs(lambda: db_records(x.annotation_db)),
    }


SEQ_FEATURES = {
    # id -> list of (biotype, name, spans relative to the parent string, strand)
    0: [],
    1: [("gene", "g1", [(1, 3), (5, 7)], "+"), ("cds", "c1", [(2, 5)], "-")],
    2: [("exon", "e1", [(0, 2)], "+"), ("exon", "e2", [(3, 8)], "-"), ("gene", "g2", [(0, 8)], "+")],
}


def make_root_seq(new, mt, parent, off, fid, info):
    from cogent3 import make_seq
    kw = {}
    if off:
        kw["annotation_offset"] = off
    if info:
        kw["info"] = {"note": "n1", "count": 3}
    x = make_seq(parent, name="s1", moltype=mt, new_type=new, **kw)
    L = len(parent)
    for biotype, name, spans, strand in SEQ_FEATURES[fid]:
        sp = [(min(a, L) + off, min(b, L) + off) for a, b in spans if min(a, L) < min(b, L)]
        if sp:
            x.add_feature(biotype=biotype, name=name, spans=sp, strand=strand)
    return x


def seq_slice_ops(L, rich):
    if rich:
        ab = [None] + list(range(-L - 1, L + 2))
        cs = [None, 1, 2, 3, -1, -2, -3]
    else:
        ab = [None, -2, 0, 1, 2, L - 1, L + 1]
        cs = [None, -1, 2, -2]
    return [["s", a, b, c] for a in ab for b in ab for c in cs]


SEQ_ROOTS = [
    # (moltype, parent, [(offset, feature set, info)])
    ("dna", "ACGGTTACGA", [(0, 0, False), (5, 0, False), (0, 1, False), (5, 1, False), (3, 2, True)]),
    ("dna", "TG-CANR?", [(0, 0, False), (0, 2, True)]),
    ("dna", "", [(0, 0, False)]),
    ("dna", "A", [(0, 0, False), (5, 0, False)]),
    ("rna", "ACGUUR-A", [(0, 0, False), (5, 0, True)]),
    ("protein", "MKVLQ-W", [(0, 0, True), (5, 0, False)]),
    ("text", "ABCDE", [(0, 0, False), (5, 0, False)]),
    ("bytes", "ab!c", [(0, 0, False)]),
]


def gen_seq(tier, seed):
    rnd = random.Random(seed)
    thorough = tier == "thorough"
    hows = CHANNELS + ("copy",)
    for new in (False, True):
        for mt, parent, roots in SEQ_ROOTS:
            nuc = mt in ("dna", "rna")
            L = len(parent)
            extra = ([["rc"], ["rna" if mt == "dna" else "dna"]] if nuc else []) + ([["degap"]] if "-" in parent else [])
            red = seq_slice_ops(L, rich=False)
            rich = seq_slice_ops(L, rich=True)
            d1 = (rich if L <= 8 else rich[::2] + red) if thorough else red[::3] + (rich[::4] if parent == "ABCDE" else [])
            if L == 0:
                d1 = red = [["s", None, None, None], ["s", None, None, -1], ["s", 0, 1, 2]]
            for off, fid, info in roots:
                chains = [[]] + [[o] for o in d1 + extra]
                if L >= 2:
                    pool = red + extra * 6
                    for _ in range(350 if thorough else 30):
                        chains.append([rnd.choice(pool), rnd.choice(pool)])
                    for _ in range(100 if thorough else 8):
                        chains.append([rnd.choice(pool) for _ in range(3)])
                if fid:
                    fn = [f[1] for f in SEQ_FEATURES[fid]]
                    chains += [[["fslice", n]] for n in fn] + [[["s", 1, 9, None], ["fslice", n]] for n in fn]
                    chains += [[["rc"], ["fslice", fn[0]]], [["fslice", fn[0]], ["s", 1, None, None]], [["fslice", fn[-1]], ["rc"]]]
                for ops in chains:
                    for how in hows:
                        yield [new, mt, parent, off, fid, info, ops, how]


def seq_flags(off, fid, ops, x):
    fl = []
    if fid:
        fl.append("annotated")
    if off:
        fl.append("offset")
    if any(o[0] in ("rna", "dna", "degap") for o in ops):
        fl.append("converted")
    return ",".join(fl)


def seq_refine(v0, v1, comps):
    if set(comps) <= {"features", "annotation_db"} and v1.get("annotation_db") == [] and v0.get("annotation_db"):
        return "annotations-dropped"
    return None


def contract_seq(case):
    new, mt, parent, off, fid, info, ops, how = case
    s, cur = parent, mt
    modelled = not any(op[0] == "fslice" for op in ops)
    for op in ops:
        if op[0] in ("rc", "rna", "dna") and cur not in ("dna", "rna"):
            return ("skip",)
        if op[0] == "s" and op[3] == 0:
            return ("skip",)
        if modelled:
            s, cur = seq_spec_apply(s, cur, op)

    def build():
        x = make_root_seq(new, mt, parent, off, fid, info)
        for op in ops:
            x = seq_real_apply(x, op)
        return x
    try:
        x = build()
    except Exception:  # noqa: BLE001 - a history the library refuses is outside the precondition
        return ("skip",)
    flags = seq_flags(off, fid, ops, x)
    tag = "seq/" + ("new" if new else "old")
    model = {"str": s, "len": len(s), "name": "s1", "moltype": cur} if modelled else None
    return check_rt(tag, how, build, seq_view, case, flags=flags, model=model, refine=seq_refine,
                    nontrivial=len(x) > 0)


# ------------------------------------------------------------------------------------------------ collections
COLL_ROWS = {
    "dna3": {"s1": "ACG-TTAC-A", "s2": "AC--TTGCGA", "s3": "-CGGTTACGA"},
    "dna2": {"x": "ACGTRN", "y": "A-GT-C"},
    "prot": {"p1": "MKV-LQ", "p2": "MK--LW", "p3": "MRVALQ"},
    "one": {"only": "ACGTAC"},
}
COLL_MT = {"dna3": "dna", "dna2": "dna", "prot": "protein", "one": "dna"}
GAPCH = "-?"


def coll_model_apply(st, op):
    """st = dict(names=[...], rows={name: gapped string}, mt=..., aligned=bool); returns new state or None when the
    step has no plain-data model here (then only the round trip itself is checked)"""
    k = op[0]
    names, rows, mt, aligned = st["names"], st["rows"], st["mt"], st["aligned"]
    if k == "take":
        keep = [n for n in op[1] if n in names]
        return dict(st, names=keep, rows={n: rows[n] for n in keep})
    if k == "take_neg":
        keep = [n for n in names if n not in op[1]]
        return dict(st, names=keep, rows={n: rows[n] for n in keep})
    if k == "rename":
        return dict(st, names=[n.upper() for n in names], rows={n.upper(): rows[n] for n in names})
    if k == "slice":
        return dict(st, rows={n: rows[n][op[1]:op[2]:op[3]] for n in names})
    if k == "rc":
        return dict(st, rows={n: comp(rows[n][::-1], mt) for n in names})
    if k == "rna":
        return dict(st, rows={n: rows[n].replace("T", "U") for n in names}, mt="rna")
    if k == "degap":
        return dict(st, rows={n: "".join(c for c in rows[n] if c not in GAPCH) for n in names}, aligned=False)
    if k == "omit_gap_pos":
        L = len(rows[names[0]]) if names else 0
        keep = [i for i in range(L) if not any(rows[n][i] in GAPCH for n in names)]
        return dict(st, rows={n: "".join(rows[n][i] for i in keep) for n in names})
    if k == "take_pos":
        return dict(st, rows={n: "".join(rows[n][i] for i in op[1]) for n in names})
    if k == "annot":
        return st
    raise ValueError(op)


def coll_real_apply(x, op):
    k = op[0]
    if k == "take":
        return x.take_seqs(list(op[1]))
    if k == "take_neg":
        return x.take_seqs(list(op[1]), negate=True)
    if k == "rename":
        return x.rename_seqs(lambda n: n.upper())
    if k == "slice":
        return x[op[1]:op[2]:op[3]]
    if k == "rc":
        return x.rc()
    if k == "rna":
        return x.to_rna()
    if k == "degap":
        return x.degap()
    if k == "omit_gap_pos":
        return x.omit_gap_pos(allowed_gap_frac=0)
    if k == "take_pos":
        return x.take_positions(list(op[1]))
    if k == "annot":
        x.add_feature(seqid=x.names[0], biotype="late", name="late1", spans=[(0, 2)])
        return x
    raise ValueError(op)


def make_root_coll(kind, rid, annot):
    from cogent3 import make_aligned_seqs, make_unaligned_seqs
    rows = COLL_ROWS[rid]
    mt = COLL_MT[rid]
    info = {"note": "n1"}
    if kind == "aln":
        x = make_aligned_seqs(rows, moltype=mt, array_align=False, info=info)
    elif kind == "arr":
        x = make_aligned_seqs(rows, moltype=mt, array_align=True, info=info)
    else:
        data = {n: "".join(c for c in r if c not in GAPCH) for n, r in rows.items()}
        x = make_unaligned_seqs(data, moltype=mt, info=info, new_type=kind == "ncoll")
    if annot:
        names = list(rows)
        x.add_feature(seqid=names[0], biotype="gene", name="g1", spans=[(1, 3), (4, 6)], strand="+")
        x.add_feature(seqid=names[-1], biotype="cds", name="c1", spans=[(2, 5)], strand="-")
        if kind == "aln" and annot == 2:
            x.add_feature(biotype="region", name="r1", spans=[(1, 4)], on_alignment=True)
    return x


def aligned_view(al):
    return {
        "str": obs(lambda: str(al)),
        "name": obs(lambda: al.name),
        "gaps": obs(lambda: al.map.get_gap_coordinates()),
        "map_parent_length": obs(lambda: int(al.map.parent_length)),
        "data": obs(lambda: seq_view(al.data)),
    }


def seqsdata_view(sd):
    return {
        "type": type(sd).__name__,
        "names": obs(lambda: list(sd.names)),
        "strings": obs(lambda: {n: str(sd.get_seq_str(seqid=n)) for n in sd.names}),
        "alphabet": obs(lambda: list(sd.alphabet)),
    }


def coll_view(x):
    def seqs():
        out = {}
        for n in x.names:
            sq = x.get_seq(n)
            out[n] = [str(sq), obs(lambda sq=sq: parent_coords(sq)), type(sq).__name__]
        return out
    return {
        "type": type(x).__name__,
        "names": obs(lambda: list(x.names)),
        "dict": obs(lambda: dict(x.to_dict())),
        "moltype": obs(lambda: x.moltype.label),
        "info": obs(lambda: info_of(x)),
        "seqs": obs(seqs),
        "features": obs(lambda: features_of(x)),
        "annotation_db": obs(lambda: db_records(x.annotation_db)),
    }


def coll_histories(kind, rid, thorough, rnd):
    names = list(COLL_ROWS[rid])
    L = len(COLL_ROWS[rid][names[0]])
    nuc = COLL_MT[rid] == "dna"
    base = [["take", names[::-1][:2]], ["take_neg", names[:1]], ["rename"]]
    if nuc:
        base += [["rc"], ["rna"]]
    if kind in ("aln", "arr"):
        sl = [["slice", a, b, None] for a, b in ((2, 8), (0, 3), (1, None), (None, -1), (3, 3), (-4, None))]
        if kind == "arr":
            sl += [["slice", None, None, 2], ["slice", 1, -1, 3]]
        base += sl + [["degap"], ["omit_gap_pos"], ["take_pos", [0, 3, 4]], ["take_pos", [L - 1, 0]]]
    else:
        base += [["degap"]]
    if kind != "arr":
        base += [["annot"]]
    chains = [[]] + [[o] for o in base]
    pairs = [[o1, o2] for o1 in base for o2 in base]
    if thorough:
        chains += pairs + [[rnd.choice(base) for _ in range(3)] for _ in range(30)]
    else:
        chains += pairs[::8]
    return chains


def gen_coll(tier, seed):
    rnd = random.Random(seed + 1)
    thorough = tier == "thorough"
    for kind in ("aln", "arr", "coll", "ncoll"):
        for rid in COLL_ROWS:
            if not thorough and rid in ("dna2", "one") and kind in ("arr",):
                continue
            annots = (0,) if kind == "arr" else (0, 1, 2) if kind == "aln" else (0, 1)
            names = list(COLL_ROWS[rid])
            for annot in annots:
                for ops in coll_histories(kind, rid, thorough, rnd):
                    targets = ["self"]
                    if rid in ("dna3", "prot") and len(ops) <= 1:
                        targets += ["seq", "seq[1:-1]", "seq.rc"] + (["gapped", "aligned"] if kind in ("aln", "arr") else []) + (
                            ["seqs"] if kind == "ncoll" else [])
                    for target in targets:
                        for how in CHANNELS:
                            yield [kind, rid, annot, ops, target, how]


def coll_refine(v0, v1, comps):
    if set(comps) <= {"features", "annotation_db"} and v1.get("annotation_db") == [] and v0.get("annotation_db"):
        return "annotations-dropped"
    return None


def aligned_refine(v0, v1, comps):
    if comps == ["data"] and isinstance(v0["data"], dict) and isinstance(v1["data"], dict):
        inner = diff_components(v0["data"], v1["data"])
        if set(inner) <= {"features", "annotation_db"} and v1["data"].get("annotation_db") == [] and v0["data"].get("annotation_db"):
            return "annotations-dropped"
        return "differs:data(" + "+".join(inner) + ")"
    return None


def contract_coll(case):
    kind, rid, annot, ops, target, how = case
    st = {"names": list(COLL_ROWS[rid]), "rows": dict(COLL_ROWS[rid]), "mt": COLL_MT[rid], "aligned": kind in ("aln", "arr")}
    if not st["aligned"]:
        st["rows"] = {n: "".join(c for c in r if c not in GAPCH) for n, r in st["rows"].items()}
    for op in ops:
        if op[0] in ("rc", "rna") and st["mt"] not in ("dna", "rna"):
            return ("skip",)
        if op[0] in ("slice", "omit_gap_pos", "take_pos") and not st["aligned"]:
            return ("skip",)
        try:
            st = coll_model_apply(st, op)
        except IndexError:
            return ("skip",)  # position outside the current view
    if not st["names"]:
        return ("skip",)

    def build():
        x = make_root_coll(kind, rid, annot)
        for op in ops:
            x = coll_real_apply(x, op)
        if target == "self":
            return x
        n = x.names[0]
        if target == "seq":
            return x.get_seq(n)
        if target == "seq[1:-1]":
            return x.get_seq(n)[1:-1]
        if target == "seq.rc":
            return x.get_seq(n).rc()
        if target == "gapped":
            return x.get_gapped_seq(n)
        if target == "aligned":
            return x.named_seqs[n]
        if target == "seqs":
            return x.seqs
        raise ValueError(target)
    try:
        x = build()
    except Exception:  # noqa: BLE001 - a history the library refuses is outside the precondition
        return ("skip",)
    flags = ",".join(f for f, on in (("annotated", annot or any(o[0] == "annot" for o in ops)),) if on)
    n0 = st["names"][0]
    if target == "self":
        tag = f"coll/{kind}"
        viewfn, refine = coll_view, coll_refine
        model = {"names": st["names"], "dict": {n: st["rows"][n] for n in st["names"]}, "moltype": st["mt"]}
    elif target in ("seq", "gapped", "seq[1:-1]", "seq.rc"):
        tag = f"coll/{kind}.{'get_gapped_seq' if target == 'gapped' else 'get_seq'}"
        viewfn, refine = seq_view, seq_refine
        shown = st["rows"][n0] if target == "gapped" else "".join(c for c in st["rows"][n0] if c not in GAPCH)
        if target == "seq[1:-1]":
            shown = shown[1:-1]
        if target == "seq.rc":
            if st["mt"] not in ("dna", "rna"):
                return ("skip",)
            shown = comp(shown[::-1], st["mt"])
        model = {"str": shown, "name": n0}
    elif target == "aligned":
        if not hasattr(x, "map"):
            return ("skip",)  # ArrayAlignment.named_seqs holds plain sequences (covered by target seq)
        tag = f"coll/{kind}.Aligned"
        viewfn, refine = aligned_view, aligned_refine
        model = {"str": st["rows"][n0]}
    else:
        tag = f"coll/{kind}.SeqsData"
        viewfn, refine = seqsdata_view, None
        model = None
    return check_rt(tag, how, build, viewfn, case, flags=flags, model=model, refine=refine,
                    nontrivial=any(st["rows"][n] for n in st["names"]))


# ------------------------------------------------------------------------------------------------ trees
TREES = {
    "named5": "((a:1,b:2)ab:3,(c:4,d:5)cd:6,e:0.5);",
    "anon4": "((a:1,b:2):3,(c:4,d:5):6);",
    "nolen4": "((a,b),(c,d));",
    "floats3": "(a:1e-07,b:123456789.123,c:0);",
    "rootlen": "(a:1,b:2)r:7;",
    "rootname": "((a:1,b:2)ab:0.5,c:3)myroot;",
    "mixed5": "(a:1,(b:2,(c:3,(d:4,e:5)x)y:0.25)z);",
    "pair": "(a:0.5,b:0.25);",
    "multi6": "(a:1,b:1,(c:2,d:2,e:2)cde:1,f:3);",
    "names": "(('a b':1,'c,d':2)in_1:1,e_f:1,'g''h':2);",
}


def tree_apply(t, op):
    k = op[0]
    if k == "rooted_at":
        return t.rooted_at(op[1])
    if k == "rooted_with_tip":
        return t.rooted_with_tip(op[1])
    if k == "unrooted":
        return t.unrooted()
    if k == "sub":
        return t.get_sub_tree(list(op[1]))
    if k == "bifurcating":
        return t.bifurcating()
    if k == "sorted":
        return t.sorted()
    if k == "midpoint":
        return t.root_at_midpoint()
    if k == "deepcopy":
        return t.deepcopy()
    if k == "scale":
        t = t.deepcopy()
        t.scale_branch_lengths()
        return t
    if k == "rename":
        t = t.deepcopy()
        t.reassign_names({op[1]: op[2]})
        return t
    if k == "param":
        t = t.deepcopy()
        t.get_node_matching_name(op[1]).params[op[2]] = op[3]
        return t
    if k == "nolength":
        t = t.deepcopy()
        t.get_node_matching_name(op[1]).length = None
        return t
    if k == "setlength":
        t = t.deepcopy()
        t.get_node_matching_name(op[1]).length = op[2]
        return t
    if k == "remove":
        t = t.deepcopy()
        t.remove_node(t.get_node_matching_name(op[1]))
        t.prune()
        return t
    if k == "rootname":
        t = t.deepcopy()
        t.name = op[1]
        return t
    if k == "node":
        return t.get_node_matching_name(op[1])
    raise ValueError(op)


def _auto(nm, blur):
    """a node without a name is given an automatic edge.N name when the tree is read back; when the original has such
    a node the automatic names are compared as one class"""
    import re
    if blur and (nm is None or re.fullmatch(r"edge\.\d+", nm)):
        return "edge.?"
    return nm


def tree_view(t, newick=True, blur=False):
    """an absent parameter and a parameter that is None are the same observation; the newick text of a node that
    still hangs in its tree spells the node's own name, a detached copy cannot, so for an inner node the text is
    left to the structural components"""
    def nodes():
        out = []
        for n in t.preorder():
            out.append([_auto(n.name, blur), n.length, {k: plain(v) for k, v in sorted(n.params.items()) if v is not None},
                        [_auto(c.name, blur) for c in n.children],
                        None if (n is t or n.parent is None) else _auto(n.parent.name, blur)])
        return out
    return {
        "type": type(t).__name__,
        "root_name": obs(lambda: t.name),
        "root_length": obs(lambda: t.length),
        "tips": obs(lambda: t.get_tip_names()),
        "newick": obs(lambda: t.get_newick(with_distances=True, with_node_names=not blur)) if newick else None,
        "nodes": obs(nodes),
        # the text written by write() / str(): names the tree was given are spelled, automatic ones are not
        "newick_default": obs(lambda: t.get_newick(with_distances=True)) if newick and not blur else None,
    }


def tree_name_class(names):
    order = ["structural-char", "quote", "space", "underscore", "punctuation"]
    cls = set()
    for nm in names:
        if nm is None or nm.replace(".", "").isalnum():
            continue
        if any(c in nm for c in "(),:;"):
            cls.add("structural-char")
        elif "'" in nm:
            cls.add("quote")
        elif " " in nm:
            cls.add("space")
        elif "_" in nm:
            cls.add("underscore")
        else:
            cls.add("punctuation")
    return next((c for c in order if c in cls), "")


def tree_histories(tid, thorough, rnd):
    from cogent3 import make_tree
    t = make_tree(TREES[tid])
    tips = t.get_tip_names()
    inner = [n.name for n in t.preorder() if n.children and n is not t]
    ops = [["unrooted"], ["bifurcating"], ["sorted"], ["deepcopy"], ["scale"], ["midpoint"], ["rootname", "top"],
           ["rename", tips[0], "zz9"], ["param", tips[0], "kappa", 2.5], ["param", tips[-1], "probs", [0.25, 0.75]],
           ["nolength", tips[0]], ["setlength", tips[-1], 0.125]]
    ops += [["rooted_with_tip", x] for x in tips[:2]]
    ops += [["rooted_at", x] for x in inner[:2]] + [["node", x] for x in inner[:2]]
    if inner:
        ops += [["param", inner[0], "omega", 0.5], ["setlength", inner[0], 1.5]]
    if len(tips) >= 4:
        ops += [["sub", tips[:3]], ["sub", [tips[0], tips[2], tips[-1]]], ["remove", tips[1]]]
    chains = [[]] + [[o] for o in ops]
    pairs = [[o1, o2] for o1 in ops for o2 in ops if o1[0] != "node"]
    chains += pairs if thorough else pairs[::7]
    if thorough:
        chains += [[rnd.choice(ops[:-2]) for _ in range(3)] for _ in range(80)]
    return chains


def gen_tree(tier, seed):
    rnd = random.Random(seed + 2)
    thorough = tier == "thorough"
    for tid in TREES:
        for ops in tree_histories(tid, thorough, rnd):
            for how in CHANNELS:
                yield [tid, ops, how]


def contract_tree(case):
    tid, ops, how = case
    from cogent3 import make_tree

    def build():
        t = make_tree(TREES[tid])
        for op in ops:
            t = tree_apply(t, op)
        return t
    try:
        x = build()
        names = [n.name for n in x.preorder()]
    except Exception:  # noqa: BLE001 - a history the library refuses is outside the precondition (C09's matter)
        return ("skip",)
    fl = []
    inner = x.parent is not None
    if inner:
        fl.append("inner-node")
    if any(nm is None for nm in names):
        fl.append("unnamed-node")
    if len(set(names)) < len(names):
        fl.append("duplicate-names")
    nc = tree_name_class(names)
    if nc:
        fl.append("name:" + nc)
    blur = any(nm is None for nm in names)
    return check_rt("tree", how, build, lambda t: tree_view(t, newick=not inner, blur=blur), case, flags=",".join(fl),
                    nontrivial=len(names) > 1)


# ------------------------------------------------------------------------------------------------ tabular
NAN, INF = float("nan"), float("inf")
TABLES = {
    # id -> (constructor kwargs, header, rows)
    "mixed": (dict(index_name="id", title="My title", legend="a legend", digits=2, space=2),
              ["id", "x", "y", "flag", "note"],
              [["a", 1, 2.5, True, "plain"], ["b", 3, None, False, "two words"], ["c", -5, 4.125, True, ""],
               ["d", 0, -0.5, False, "é中"]]),
    "numeric": (dict(digits=6), ["a", "b", "c"],
                [[1, 0.1, 1e-300], [2 ** 53 + 1, NAN, 1e300], [-7, INF, -0.0], [0, -INF, 123456.789]]),
    "header_only": (dict(title="empty"), ["a", "b"], []),
    "nothing": (dict(), [], []),
    "onerow": (dict(index_name="k"), ["k", "v"], [["only", 1.5]]),
    "fmt": (dict(column_templates={"x": "%03d", "y": "%.1e"}, missing_data="NA", max_width=24, space=1, legend="L",
                 format="markdown"),
            ["name", "x", "y", "z"], [["r1", 1, 2.5, "u"], ["r2", 30, 0.00012, "v"], ["r3", 7, 1e6, "w"]]),
}


def make_root_table(tid):
    from cogent3 import make_table
    kw, header, rows = TABLES[tid]
    if not header:
        return make_table(**kw)
    return make_table(header=list(header), data=[list(r) for r in rows], **kw)


def table_apply(t, op):
    k = op[0]
    if k == "rows":
        return t[op[1]:op[2]]
    if k == "cols":
        return t.get_columns(list(op[1]))
    if k == "cell_block":
        return t[op[1]:op[2], list(op[3])]
    if k == "sorted":
        return t.sorted(columns=op[1], reverse=op[1] if op[2] else None)
    if k == "filtered":
        return t.filtered(lambda v: v is not None and v > op[2], columns=op[1])
    if k == "with_new_column":
        return t.with_new_column("twice", lambda v: v * 2, columns=op[1])
    if k == "with_new_header":
        return t.with_new_header(op[1], op[2])
    if k == "transposed":
        return t.transposed("key", select_as_header=op[1])
    if k == "appended":
        return t.appended(None, t)
    if k == "appended_named":
        return t.appended("src", [t, t], title="both")
    if k == "title":
        t = t[:]
        t.title = op[1]
        t.legend = op[2]
        return t
    if k == "index":
        t = t[:]
        t.index_name = op[1]
        return t
    if k == "format_column":
        t = t[:]
        t.format_column(op[1], op[2])
        return t
    if k == "space":
        t = t[:]
        t.space = op[1]
        return t
    if k == "format":
        t = t[:]
        t.format = op[1]
        return t
    if k == "distinct":
        if t.index_name == op[1]:
            raise ValueError("would make the index column non-unique")
        t = t[:]
        t.columns[op[1]] = [op[2]] * t.shape[0]
        return t
    raise ValueError(op)


def table_model_apply(m, op):
    """m = (header, rows) or None"""
    if m is None:
        return None
    header, rows = m
    k = op[0]
    if k == "rows":
        return header, rows[op[1]:op[2]]
    if k == "cols":
        idx = [header.index(c) for c in op[1]]
        return [header[i] for i in idx], [[r[i] for i in idx] for r in rows]
    if k in ("title", "space", "format", "format_column"):
        return m
    if k == "with_new_header":
        return [op[2] if h == op[1] else h for h in header], rows
    if k == "filtered":
        i = header.index(op[1])
        return header, [r for r in rows if r[i] is not None and r[i] > op[2]]
    if k == "appended":
        return header, rows + rows
    return None


def kind_of(dtype):
    return {"U": "str", "S": "str", "O": "object", "i": "int", "u": "int", "f": "float", "b": "bool"}.get(dtype.kind, dtype.kind)


def table_view(t):
    return {
        "type": type(t).__name__,
        "header": obs(lambda: list(t.header)),
        "shape": obs(lambda: list(t.shape)),
        "rows": obs(lambda: [t.columns[c].tolist() for c in t.header]),
        "kinds": obs(lambda: {c: kind_of(t.columns[c].dtype) for c in t.header}),
        "title": obs(lambda: t.title),
        "legend": obs(lambda: t.legend),
        "index_name": obs(lambda: t.index_name),
        "space": obs(lambda: t.space),
        "format": obs(lambda: t.format),
        "text": obs(lambda: str(t)),
        "tsv": obs(lambda: t.to_string(format="tsv")),
        "indexed_row": obs(lambda: (t[t.columns[t.index_name][0]].to_list() if t.index_name and t.shape[0] else None)),
    }


def table_histories(tid, thorough, rnd):
    kw, header, rows = TABLES[tid]
    if not header:
        return [[]]
    num = [h for h in header if rows and isinstance(rows[0][header.index(h)], (int, float)) and not isinstance(rows[0][header.index(h)], bool)]
    ops = [["rows", 1, None], ["rows", 0, 2], ["rows", 2, 2], ["cols", header[::-1][:2]], ["cols", header[:1]],
           ["title", "new title", "new legend"], ["title", "", ""], ["space", 6], ["format", "rst"],
           ["with_new_header", header[-1], "renamed"], ["appended"]]
    if num:
        ops += [["sorted", num[0], False], ["sorted", num[0], True], ["filtered", num[0], 0], ["with_new_column", num[0]],
                ["format_column", num[0], "%.2f"], ["cell_block", 0, 2, [header[0], num[0]]], ["distinct", num[0], 9]]
    if rows:
        ops += [["transposed", header[0]], ["index", header[0]], ["index", None], ["appended_named"]]
    chains = [[]] + [[o] for o in ops]
    pairs = [[o1, o2] for o1 in ops for o2 in ops]
    chains += pairs if thorough else pairs[::6]
    if thorough:
        chains += [[rnd.choice(ops) for _ in range(3)] for _ in range(60)]
    return chains


DICTARRAYS = {
    "1d": ([["a", "b", "c"]], [1, 2, 3]),
    "2d": ([["a", "b"], ["x", "y", "z"]], [[1, 2, 3], [4, 5, 6]]),
    "2df": ([["a", "b"], ["x", "y"]], [[0.1, NAN], [1e-300, -2.5]]),
    "intkeys": ([2, 3], [[1, 2, 3], [4, 5, 6]]),
    "intnames": ([[10, 20], ["x", "y"]], [[1, 2], [3, 4]]),
    "3d": ([["a", "b"], ["x", "y"], ["p", "q"]], [[[1, 2], [3, 4]], [[5, 6], [7, 8]]]),
    "bool": ([["a", "b"], ["x", "y"]], [[True, False], [False, True]]),
    "motifs": (["ACGT", "ACGT"], [[0.7, 0.1, 0.1, 0.1], [0.1, 0.7, 0.1, 0.1], [0.1, 0.1, 0.7, 0.1], [0.1, 0.1, 0.1, 0.7]]),
    "empty": ([[]], []),
}


def make_root_da(did):
    from cogent3.util.dict_array import DictArrayTemplate
    dims, arr = DICTARRAYS[did]
    return DictArrayTemplate(*dims).wrap(arr)


def da_apply(d, op):
    k = op[0]
    if k == "row":
        return d[op[1]]
    if k == "col":
        return d[:, op[1]]
    if k == "rows":
        return d[list(op[1])]
    if k == "norm_row":
        return d.to_normalized(by_row=True)
    if k == "norm_col":
        return d.to_normalized(by_column=True)
    if k == "row_sum":
        return d.row_sum()
    if k == "col_sum":
        return d.col_sum()
    raise ValueError(op)


def da_view(d):
    return {
        "type": type(d).__name__,
        "names": obs(lambda: [list(n) for n in d.template.names]),
        "array": obs(lambda: d.array),
        "kind": obs(lambda: kind_of(d.array.dtype)),
        "shape": obs(lambda: list(d.shape)),
        "dict": obs(lambda: d.to_dict()),
        "text": obs(lambda: str(d)),
    }


DISTS = {
    "sym3": {("a", "b"): 0.1, ("a", "c"): 0.2, ("b", "c"): 0.3},
    "sym4": {("a", "b"): 0.1, ("a", "c"): 0.2, ("b", "c"): 0.3, ("a", "d"): 1.5, ("b", "d"): 0.0, ("c", "d"): 1e-9},
    "nan4": {("a", "b"): 0.1, ("a", "c"): NAN, ("b", "c"): 0.3, ("a", "d"): 1.5, ("b", "d"): 0.25, ("c", "d"): 0.5},
    "pair": {("x y", "z_1"): 0.75},
}


def make_root_dm(did):
    from cogent3.evolve.fast_distance import DistanceMatrix
    d = dict(DISTS[did])
    d.update({(b, a): v for (a, b), v in list(d.items())})
    return DistanceMatrix(d)


def dm_apply(d, op):
    k = op[0]
    if k == "take":
        return d.take_dists(list(op[1]))
    if k == "take_neg":
        return d.take_dists(list(op[1]), negate=True)
    if k == "drop_invalid":
        return d.drop_invalid()
    if k == "set":                       # a single-cell edit: the matrix is no longer symmetric
        d[op[1], op[2]] = op[3]
        return d
    raise ValueError(op)


def dm_view(d):
    v = da_view(d)
    v["dm_names"] = obs(lambda: list(d.names))
    v["pairs"] = obs(lambda: sorted([list(k), x] for k, x in d.to_dict().items()))
    v.pop("dict")
    return v


def gen_tabular(tier, seed):
    rnd = random.Random(seed + 3)
    thorough = tier == "thorough"
    for tid in TABLES:
        for ops in table_histories(tid, thorough, rnd):
            for how in CHANNELS:
                yield ["table", tid, ops, how]
    for did, (dims, arr) in DICTARRAYS.items():
        ops = []
        if did != "empty" and not isinstance(dims[0], int) and isinstance(dims[0], list):
            ops += [["row", dims[0][0]], ["rows", dims[0][::-1]]]
            if len(dims) > 1:
                ops += [["col", dims[1][-1]]]
        if did in ("2d", "2df", "motifs", "intkeys"):
            ops += [["norm_row"], ["norm_col"], ["row_sum"], ["col_sum"]]
        if did == "intkeys":
            ops += [["row", 1], ["col", 2]]
        if did == "motifs":
            ops += [["row", "A"], ["col", "T"], ["rows", ["G", "A"]]]
        chains = [[]] + [[o] for o in ops] + [[o1, o2] for o1 in ops for o2 in ops]
        for ch in chains:
            for how in CHANNELS:
                yield ["dictarray", did, ch, how]
    for did, d in DISTS.items():
        names = sorted({n for k in d for n in k})
        ops = [["take", names[:2]], ["take", names[::-1]], ["take_neg", names[:1]], ["drop_invalid"],
               ["set", names[-1], names[0], 9.5]]
        chains = [[]] + [[o] for o in ops] + [[o1, o2] for o1 in ops for o2 in ops]
        for ch in chains:
            for how in CHANNELS:
                yield ["distmat", did, ch, how]


def contract_tabular(case):
    what, rid, ops, how = case
    make, apply, viewfn = {"table": (make_root_table, table_apply, table_view),
                           "dictarray": (make_root_da, da_apply, da_view),
                           "distmat": (make_root_dm, dm_apply, dm_view)}[what]

    def build():
        x = make(rid)
        for op in ops:
            x = apply(x, op)
            if x is None or not hasattr(x, "to_rich_dict"):
                raise ValueError("history leaves the type")
        return x
    try:
        x = build()
    except Exception:  # noqa: BLE001 - a history the library refuses (or that yields a scalar) is outside the precondition
        return ("skip",)
    model = None
    if what == "table" and obs(lambda: x.index_name) == ["raises", "ValueError"]:
        return ("skip",)  # the history itself left a table whose index column is not unique (not a round-trip matter)
    if what == "table":
        m = (list(TABLES[rid][1]), [list(r) for r in TABLES[rid][2]])
        for op in ops:
            try:
                m = table_model_apply(m, op)
            except (ValueError, IndexError):
                m = None
        if m is not None and m[0]:
            header, rows = m
            idx = obs(lambda: x.index_name)
            if isinstance(idx, str) and idx in header and header[0] != idx:  # the index column is displayed first
                i = header.index(idx)
                header = [idx] + header[:i] + header[i + 1:]
                rows = [[r[i]] + r[:i] + r[i + 1:] for r in rows]
            model = {"header": header, "rows": [[r[j] for r in rows] for j in range(len(header))]} if rows else {"header": header}
    return check_rt(what, how, build, viewfn, case, model=model, nontrivial=bool(getattr(x, "shape", (1,)) and all(getattr(x, "shape", (1,)))))


# ------------------------------------------------------------------------------------------------ alphabets, moltypes
OLD_MOLTYPES = ("dna", "rna", "protein", "protein_with_stop", "ab", "text", "bytes")
NEW_MOLTYPES = ("dna", "rna", "protein", "protein_with_stop", "text", "bytes")


def alpha_build(spec):
    """spec = [family, moltype-or-code, base selector, ops...]"""
    fam, src, base = spec[0], spec[1], spec[2]
    if fam == "old":
        from cogent3 import get_moltype
        m = get_moltype(src)
        x = m if base == "moltype" else m.alphabet if base == "alphabet" else getattr(m.alphabets, base)
    elif fam == "oldcodon":
        from cogent3 import get_code
        x = get_code(src).get_alphabet(include_stop=base == "stop")
    elif fam == "new":
        from cogent3.core import new_moltype
        m = new_moltype.get_moltype(src)
        x = m if base == "moltype" else getattr(m, base)
    elif fam == "newcodon":
        from cogent3.core import new_genetic_code
        x = new_genetic_code.get_code(src).get_alphabet(include_stop="stop" in base, include_gap="gap" in base)
    else:
        raise ValueError(spec)
    if x is None:
        raise ValueError("moltype has no such alphabet")
    for op in spec[3:]:
        k = op[0]
        if k == "word":
            x = x.get_word_alphabet(op[1])
        elif k == "kmer":
            x = x.get_kmer_alphabet(op[1], include_gap=op[2])
        elif k == "with_gap":
            x = x.with_gap_motif()
        elif k == "subset":
            x = x.get_subset(list(op[1]), excluded=op[2])
        elif k == "attr":
            x = getattr(x, op[1])
        else:
            raise ValueError(op)
    return x


def alpha_view(x):
    if hasattr(x, "label") and not hasattr(x, "to_indices"):  # a MolType
        return {
            "type": type(x).__name__,
            "label": obs(lambda: x.label),
            "alphabet": obs(lambda: [str(c) for c in x.alphabet]),
            "gaps": obs(lambda: sorted(str(g) for g in x.gaps)) if hasattr(x, "gaps") else None,
            "ambiguities": obs(lambda: {str(k): sorted(v) for k, v in (x.ambiguities or {}).items()}),
            "complement": obs(lambda: x.complement("ACGTN-")),
            "makes": obs(lambda: type(x.make_seq(seq="".join(str(c) for c in list(x.alphabet)[:3]), name="q")).__name__),
            "same_singleton": None,
        }
    motifs = obs(lambda: [c.decode("latin1") if isinstance(c, bytes) else str(c) for c in x])
    probe = motifs[:5] if isinstance(motifs, list) and motifs and motifs[0] != "raises" else []
    mlen = obs(lambda: x.motif_len if hasattr(type(x), "motif_len") else x.get_motif_len())

    def indices():
        if isinstance(mlen, int) and mlen > 1 and type(x).__name__ == "KmerAlphabet":
            return x.to_indices("".join(probe)).tolist()  # kmer alphabets index a sequence of monomers
        if isinstance(mlen, int) and mlen > 1 and type(x).__name__ == "CodonAlphabet" and hasattr(type(x), "gap_char"):
            return x.to_indices("".join(probe)).tolist()
        return numpy.asarray(x.to_indices(probe if isinstance(mlen, int) and mlen > 1 else "".join(probe))).tolist()
    return {
        "type": type(x).__name__,
        "motifs": motifs,
        "len": obs(lambda: len(x)),
        "motif_len": mlen,
        "moltype": obs(lambda: getattr(x.moltype, "label", x.moltype)),
        "gap": obs(lambda: x.gap_char if hasattr(type(x), "gap_char") else x.gap),
        "gap_index": obs(lambda: x.gap_index) if hasattr(type(x), "gap_index") else None,
        "missing": obs(lambda: [x.missing_char, x.missing_index]) if hasattr(type(x), "missing_char") else None,
        "to_indices": obs(indices),
        "from_indices": obs(lambda: [str(m) for m in numpy.asarray(x.from_indices(numpy.arange(min(3, len(x)), dtype=numpy.uint8))).tolist()]
                            if not isinstance(x.from_indices(numpy.arange(min(3, len(x)), dtype=numpy.uint8)), str)
                            else x.from_indices(numpy.arange(min(3, len(x)), dtype=numpy.uint8))),
        "is_valid": obs(lambda: bool(x.is_valid("".join(probe[:2])))) if hasattr(type(x), "is_valid") else None,
    }


def gen_alpha(tier, seed):
    thorough = tier == "thorough"
    specs = []
    for mt in OLD_MOLTYPES:
        specs.append(["old", mt, "moltype"])
        for base in ("alphabet", "degen", "gapped", "degen_gapped"):
            specs.append(["old", mt, base])
            if mt in ("dna", "rna", "ab") or (thorough and mt == "protein" and base == "alphabet"):
                for k in (2, 3) if mt != "protein" else (2,):
                    if base in ("alphabet", "gapped") and (k == 2 or base == "alphabet"):
                        specs.append(["old", mt, base, ["word", k]])
                        if base == "alphabet":
                            specs.append(["old", mt, base, ["word", k], ["with_gap"]])
            specs.append(["old", mt, base, ["with_gap"]])
        if mt in ("dna", "rna"):
            t = "T" if mt == "dna" else "U"
            specs += [["old", mt, "alphabet", ["subset", ["A", "C"], False]], ["old", mt, "alphabet", ["subset", [t], True]],
                      ["old", mt, "alphabet", ["subset", ["A", "G"], False], ["word", 2]],
                      ["old", mt, "alphabet", ["word", 2], ["subset", ["AA", "C" + t], False]],
                      ["old", mt, "degen", ["attr", "non_degen"]], ["old", mt, "gapped", ["attr", "ungapped"]]]
    codes = list(range(1, 7)) + [9, 11, 12] if not thorough else [1, 2, 3, 4, 5, 6, 9, 10, 11, 12, 13, 14, 15, 16, 21, 22, 23, 24, 25, 26]
    for c in codes:
        specs += [["oldcodon", c, "nostop"], ["oldcodon", c, "stop"]]
        specs += [["newcodon", c, b] for b in ("plain", "stop", "gap", "stop+gap")]
    specs += [["oldcodon", 1, "nostop", ["with_gap"]]]
    for mt in NEW_MOLTYPES:
        specs.append(["new", mt, "moltype"])
        for base in ("alphabet", "gapped_alphabet", "degen_alphabet", "degen_gapped_alphabet"):
            specs.append(["new", mt, base])
            if mt in ("dna", "rna") or (mt == "protein" and base == "alphabet"):
                for k in ((1, 2, 3) if mt != "protein" else (2,)):
                    for gap in (False, True):
                        specs.append(["new", mt, base, ["kmer", k, gap]])
            if base == "alphabet":
                specs.append(["new", mt, base, ["with_gap"]])
    for spec in specs:
        for how in CHANNELS:
            yield [spec, how]


def contract_alpha(case):
    spec, how = case
    try:
        x = alpha_build(spec)
    except Exception:  # noqa: BLE001 - an alphabet the library refuses to build is outside the precondition
        return ("skip",)
    is_mt = hasattr(x, "label") and not hasattr(x, "to_indices")
    if how in ("json", "rich") and not hasattr(x, "to_rich_dict"):
        return ("skip",)  # not a registered serialisable type (new-style MolType): only pickling applies
    tag = f"alpha/{spec[0]}.{type(x).__name__}"
    flags = ",".join(op[0] for op in spec[3:])
    return check_rt(tag, how, lambda: alpha_build(spec), alpha_view, case, flags=flags, nontrivial=is_mt or len(x) > 0)


# ------------------------------------------------------------------------------------------------ maps
def gapped_string(bits):
    """bits: string over {x,-} -> gapped dna string with distinct-ish residues"""
    out, i = [], 0
    for b in bits:
        if b == "-":
            out.append("-")
        else:
            out.append("ACGT"[i % 4])
            i += 1
    return "".join(out)


def imap_model_apply(g, op):
    k = op[0]
    if k == "slice":
        return g[op[1]:op[2]]
    if k == "rev":
        return comp(g[::-1], "dna")
    if k == "termini":
        return g
    raise ValueError(op)


def imap_apply(m, op):
    k = op[0]
    if k == "slice":
        return m[op[1]:op[2]]
    if k == "rev":
        return m.nucleic_reversed()
    if k == "termini":
        return m.with_termini_unknown()
    raise ValueError(op)


def imap_view(m, ungapped=None):
    from cogent3 import make_seq
    return {
        "type": type(m).__name__,
        "gap_pos": obs(lambda: m.gap_pos),
        "cum_gap_lengths": obs(lambda: m.cum_gap_lengths),
        "parent_length": obs(lambda: int(m.parent_length)),
        "len": obs(lambda: len(m)),
        "gap_coordinates": obs(lambda: m.get_gap_coordinates()),
        "coordinates": obs(lambda: m.get_coordinates()),
        "num_gaps": obs(lambda: int(m.num_gaps)),
        "termini_unknown": obs(lambda: bool(m.termini_unknown)),
        "useful_complete": obs(lambda: [bool(m.useful), bool(m.complete)]),
        "regapped": obs(lambda: str(make_seq(ungapped, moltype="dna").gapped_by_map(m))) if ungapped is not None else None,
        "text": obs(lambda: str(m)),
    }


def span_view(sp):
    return [type(sp).__name__, getattr(sp, "start", None), getattr(sp, "end", None), bool(getattr(sp, "reverse", False)),
            int(getattr(sp, "length", 0) or 0), bool(getattr(sp, "lost", False)), plain(getattr(sp, "value", None)),
            bool(getattr(sp, "tidy_start", False)), bool(getattr(sp, "tidy_end", False))]


def fmap_view(m):
    return {
        "type": type(m).__name__,
        "spans": obs(lambda: [span_view(sp) for sp in m.spans]),
        "parent_length": obs(lambda: int(m.parent_length)),
        "len": obs(lambda: len(m)),
        "start_end": obs(lambda: [m.start, m.end]),
        "useful_complete": obs(lambda: [bool(m.useful), bool(m.complete)]),
        "coordinates": obs(lambda: m.get_coordinates()),
        "gap_coordinates": obs(lambda: m.get_gap_coordinates()),
        "covering": obs(lambda: span_view(m.get_covering_span())),
        "text": obs(lambda: str(m)),
    }


FMAP_LOCS = [[], [[0, 8]], [[1, 3]], [[1, 3], [6, 8]], [[6, 8], [1, 3]], [[0, 4], [2, 6]], [[2, 2]], [[0, 3], [3, 5], [7, 8]]]


def fmap_build(spec):
    from cogent3.core.location import FeatureMap, LostSpan, Span
    kind, arg = spec[0], spec[1]
    if len(spec) > 2 and spec[2][0] == "indel_spans_seen":  # another object's spans were iterated earlier in the process
        from cogent3 import make_seq
        list(make_seq("A--CG-TAA---C", moltype="dna").parse_out_gaps()[0].spans)
    if kind == "locs":
        m = FeatureMap.from_locations(locations=[tuple(x) for x in arg], parent_length=8)
    else:  # explicit spans: ["S", start, end, reverse] / ["L", length]
        spans = [Span(x[1], x[2], reverse=x[3]) if x[0] == "S" else LostSpan(x[1]) for x in arg]
        m = FeatureMap(spans=spans, parent_length=8)
    for op in spec[2:]:
        k = op[0]
        if k == "slice":
            m = m[op[1]:op[2]]
        elif k == "indel_spans_seen":
            pass
        elif k == "rev":
            m = m.nucleic_reversed()
        elif k in ("gaps", "shadow", "covered", "nongap", "without_gaps", "zeroed", "inverse"):
            m = getattr(m, k)()
        else:
            raise ValueError(op)
    return m


def gen_maps(tier, seed):
    import itertools
    rnd = random.Random(seed + 4)
    thorough = tier == "thorough"
    Lmax = 7 if thorough else 5
    for L in range(1, Lmax + 1):
        for bits in itertools.product("x-", repeat=L):
            bits = "".join(bits)
            ops1 = [["rev"], ["termini"], ["slice", 1, None], ["slice", 0, L - 1], ["slice", 1, L - 1], ["slice", 2, 2]]
            chains = [[]] + [[o] for o in ops1]
            if thorough or L <= 4:
                chains += [[o1, o2] for o1 in ops1 for o2 in ops1[:4]]
            for ch in chains:
                for how in CHANNELS:
                    yield ["indel", bits, ch, how]
            if "-" in bits:
                for how in CHANNELS:
                    yield ["indel", bits, [["to_feature_map"]], how]
                    yield ["indel", bits, [["rev"], ["to_feature_map"]], how]
    if thorough:
        for _ in range(300):
            L = rnd.choice((9, 10, 12))
            bits = "".join(rnd.choice("x-") for _ in range(L))
            a = rnd.randrange(0, L)
            ch = [rnd.choice([["rev"], ["termini"], ["slice", a, rnd.randrange(a, L + 1)]]) for _ in range(rnd.choice((1, 2, 3)))]
            yield ["indel", bits, ch, rnd.choice(CHANNELS)]
    fops = [["rev"], ["gaps"], ["shadow"], ["covered"], ["nongap"], ["without_gaps"], ["zeroed"], ["inverse"],
            ["slice", 1, 3], ["slice", 0, 1], ["slice", 2, None]]
    bases = [["locs", loc] for loc in FMAP_LOCS]
    bases += [["spans", [["L", 2], ["S", 2, 5, False], ["L", 1]]], ["spans", [["S", 2, 5, True]]],
              ["spans", [["S", 5, 7, True], ["S", 1, 3, True]]], ["spans", [["L", 3]]], ["spans", [["S", 0, 2, False], ["L", 2], ["S", 4, 8, False]]]]
    for b in bases:
        chains = [[]] + [[o] for o in fops] + [[o1, o2] for o1 in fops for o2 in fops][::(1 if thorough else 3)]
        chains += [[["indel_spans_seen"]], [["indel_spans_seen"], ["rev"]]]
        for ch in chains:
            for how in CHANNELS:
                yield ["feature", b, ch, how]


def contract_maps(case):
    what, base, ops, how = case
    if what == "indel":
        from cogent3 import make_seq
        g = gapped_string(base)
        gm = g
        to_fm = bool(ops) and ops[-1][0] == "to_feature_map"
        ops = ops[:-1] if to_fm else ops
        for op in ops:
            gm = imap_model_apply(gm, op)
        ungapped = gm.replace("-", "")

        def build():
            m, _ = make_seq(g, moltype="dna").parse_out_gaps()
            for op in ops:
                m = imap_apply(m, op)
            return m.to_feature_map() if to_fm else m
        from cogent3.core import location
        getattr(location, "_lost_span_cache", {}).clear()  # process-global flyweight cache: every case starts clean
        try:
            build()
        except Exception:  # noqa: BLE001
            return ("skip",)
        if to_fm:
            return check_rt("maps/IndelMap.to_feature_map", how, build, fmap_view, case, nontrivial=True)
        model = {"len": len(gm), "regapped": gm, "parent_length": len(ungapped)}
        if any(op[0] == "termini" for op in ops):
            model = {"len": len(gm)}
        return check_rt("maps/IndelMap", how, build, lambda m: imap_view(m, ungapped), case, model=model,
                        nontrivial="-" in gm and gm.strip("-") != "")
    spec = [base[0], base[1]] + list(ops)
    from cogent3.core import location
    getattr(location, "_lost_span_cache", {}).clear()
    try:
        x = fmap_build(spec)
    except Exception:  # noqa: BLE001 - a history the library refuses is outside the precondition (C08's matter)
        return ("skip",)
    if type(x).__name__ != "FeatureMap":
        return ("skip",)
    tag = "maps/FeatureMap" + ("[after IndelMap.spans]" if ops and ops[0][0] == "indel_spans_seen" else "")
    return check_rt(tag, how, lambda: fmap_build(spec), fmap_view, case, nontrivial=len(list(x.spans)) > 0)


# ------------------------------------------------------------------------------------------------ annotation databases
GFF_TEXT = """##gff-version 3
s1\tsrc\tgene\t2\t9\t.\t+\t.\tID=gene1;Name=G1
s1\tsrc\tCDS\t3\t5\t.\t-\t0\tID=cds1;Parent=gene1
s2\tsrc\texon\t1\t4\t.\t.\t.\tID=ex1
"""
GB_TEXT = """LOCUS       s1                        12 bp    DNA     linear   UNA 01-JAN-2000
FEATURES             Location/Qualifiers
     gene            2..9
                     /gene="g1"
     CDS             complement(join(3..5,7..8))
                     /gene="c1"
                     /product="a product"
ORIGIN
        1 acggttacga cg
//
"""
USER_FEATURES = [
    dict(seqid="s1", biotype="gene", name="u1", spans=[(1, 3), (6, 8)], strand="+"),
    dict(seqid="s2", biotype="cds", name="u2", spans=[(2, 5)], strand="-", parent_id="u1"),
    dict(seqid="s1", biotype="region", name="u3", spans=[(0, 12)], strand="+", attributes="note=x;k=v", on_alignment=True),
    dict(seqid="s3", biotype="gene", name="u'4 \"q\"", spans=[(4, 4)], strand=None),
]


def db_base(bid, tmp):
    from cogent3.core.annotation_db import BasicAnnotationDb, GffAnnotationDb, load_annotations
    if bid == "basic0":
        return BasicAnnotationDb()
    if bid == "basic":
        db = BasicAnnotationDb()
        for f in USER_FEATURES[:3]:
            db.add_feature(**f)
        return db
    if bid in ("gff", "gb"):
        path = os.path.join(tmp, f"in{len(os.listdir(tmp))}." + bid)
        with open(path, "w") as f:
            f.write(GFF_TEXT if bid == "gff" else GB_TEXT)
        return load_annotations(path=path)
    if bid == "gff_file":
        db = GffAnnotationDb(source=os.path.join(tmp, f"store{len(os.listdir(tmp))}.gffdb"))
        for f in USER_FEATURES[:2]:
            db.add_feature(**f)
        return db
    raise ValueError(bid)


def db_apply(db, op, tmp):
    k = op[0]
    if k == "add":
        db.add_feature(**USER_FEATURES[op[1]])
        return db
    if k == "subset":
        return db.subset(**op[1])
    if k == "union":
        return db.union(db_base(op[1], tmp))
    if k == "update":
        db.update(db_base(op[1], tmp))
        return db
    raise ValueError(op)


def db_view(db):
    return {
        "type": type(db).__name__,
        "records": obs(lambda: db_records(db)),
        "len": obs(lambda: len(db)),
        "tables": obs(lambda: list(db.table_names)),
        "num_matches": obs(lambda: [db.num_matches(), db.num_matches(biotype="gene"), db.num_matches(seqid="s1")]),
        "genes": obs(lambda: sorted(json.dumps(plain(dict(r)), sort_keys=True, default=str)
                                    for r in db.get_features_matching(biotype="gene"))),
        "biotype_counts": obs(lambda: dict(db.biotype_counts())),
        "describe": obs(lambda: sorted(map(repr, db.describe.to_list()))),
        "children": obs(lambda: sorted(json.dumps(plain(dict(r)), sort_keys=True, default=str)
                                       for r in db.get_feature_children(name="gene1"))),
    }


def gen_annodb(tier, seed):
    thorough = tier == "thorough"
    bases = ["basic0", "basic", "gff", "gb", "gff_file"]
    ops = [["add", 0], ["add", 3], ["subset", {"seqid": "s1"}], ["subset", {"biotype": "gene"}],
           ["subset", {"seqid": "s1", "start": 2, "stop": 6, "allow_partial": True}], ["subset", {"name": "nomatch"}],
           ["union", "basic"], ["union", "gff"], ["union", "gb"], ["update", "basic"], ["update", "gff"], ["update", "gb"]]
    for b in bases:
        chains = [[]] + [[o] for o in ops]
        pairs = [[o1, o2] for o1 in ops for o2 in ops]
        chains += pairs if thorough else pairs[::4]
        for ch in chains:
            for how in CHANNELS:
                yield [b, ch, how]


def contract_annodb(case):
    bid, ops, how = case
    shm = "/dev/shm"
    with tempfile.TemporaryDirectory(dir=shm if os.path.isdir(shm) and os.access(shm, os.W_OK) else None) as tmp:
        def build():
            db = db_base(bid, tmp)
            for op in ops:
                db = db_apply(db, op, tmp)
            return db
        try:
            x = build()
            n = len(x)
        except Exception:  # noqa: BLE001 - a history the library refuses is outside the precondition (C17's matter)
            return ("skip",)
        flags = "file-backed" if bid == "gff_file" else ""
        return check_rt(f"annodb/{type(x).__name__}", how, build, db_view, case, flags=flags, nontrivial=n > 0)


# ------------------------------------------------------------------------------------------------ models, likelihood functions
DNA_ALN = {"a": "ATGGCTAAACGT", "b": "ATGGCCAAACGA", "c": "ATGGATAAGCGT", "d": "CTGGATAAGCGT"}
PROT_ALN = {"a": "MKVLQWAC", "b": "MKILQWAC", "c": "MRVLEWSC", "d": "MRVLEWSC"}
LF_TREE = "((a:0.1,b:0.2)ab:0.05,c:0.3,d:0.1);"
LF_TREE3 = "(a:0.1,b:0.2,c:0.3);"
NUC_MODELS = ["JC69", "K80", "F81", "HKY85", "TN93", "GTR", "ssGN", "GN", "BH", "DT"]
CODON_MODELS = ["MG94HKY", "MG94GTR", "GY94", "CNFHKY", "CNFGTR", "Y98", "H04G", "H04GK", "H04GGK", "GNC"]
PROT_MODELS = ["DSO78", "JTT92", "AH96", "AH96_mtmammals", "WG01"]


def model_build(spec):
    """spec = [kind, name-or-id, kwargs]"""
    kind, name, kw = spec
    kw = dict(kw)
    if kind == "named":
        if "name" in kw:  # get_model's own first argument is called name
            from cogent3.evolve import models
            return getattr(models, name)(**kw)
        from cogent3 import get_model
        return get_model(name, **kw)
    from cogent3.evolve import substitution_model as smod
    from cogent3.evolve.predicate import MotifChange
    if name == "custom_kappa":
        preds = {"kappa": MotifChange("A", "G") | MotifChange("C", "T")}
        return smod.TimeReversibleNucleotide(predicates=preds, name="mine", **kw)
    if name == "custom_named_pred":
        preds = {"beta": MotifChange("A", "C"), "gamma_": MotifChange("A", "T") | MotifChange("C", "G")}
        return smod.TimeReversibleNucleotide(predicates=preds, name="mine2", **kw)
    if name == "custom_list":
        return smod.TimeReversibleNucleotide(predicates=[MotifChange("A", "G"), MotifChange("C", "T")], name="mine3", **kw)
    if name == "custom_dinuc":
        return smod.TimeReversibleDinucleotide(predicates={"kappa": MotifChange("A", "G") | MotifChange("C", "T")}, name="di", **kw)
    if name == "custom_codon":
        from cogent3.evolve.predicate import replacement
        return smod.TimeReversibleCodon(predicates={"omega": replacement}, name="cod", **kw)
    if name == "custom_protein":
        return smod.TimeReversibleProtein(name="prot", **kw)
    raise ValueError(spec)


def data_for(sm):
    from cogent3 import make_aligned_seqs
    mt = sm.get_alphabet().moltype.label
    if mt in ("protein", "protein_with_stop"):
        return make_aligned_seqs(PROT_ALN, moltype="protein")
    return make_aligned_seqs(DNA_ALN, moltype="dna")


def model_view(sm):
    from cogent3 import make_tree

    def lf_part():
        lf = sm.make_likelihood_function(make_tree(LF_TREE3), **({"bins": 2} if getattr(sm, "ordered_param", None) or sm.to_rich_dict().get("ordered_param") else {}))
        aln = data_for(sm)
        lf.set_alignment(aln.take_seqs(["a", "b", "c"]))
        out = {"lnL": float(lf.get_log_likelihood()), "nfp": int(lf.get_num_free_params()), "param_names": list(lf.get_param_names()),
               "mprobs": plain(lf.get_motif_probs().to_dict())}
        try:
            out["Q"] = plain(lf.get_rate_matrix_for_edge("a", calibrated=False).array)
        except Exception as e:  # noqa: BLE001 - discrete-time models have no rate matrix
            out["Q"] = ["raises", type(e).__name__]
        return out
    return {
        "type": type(sm).__name__,
        "name": obs(lambda: sm.name),
        "motifs": obs(lambda: list(sm.get_motifs())),
        "word_length": obs(lambda: sm.word_length),
        "params": obs(lambda: list(sm.get_param_list())),
        "mprob_model": obs(lambda: type(sm.mprob_model).__name__),
        "moltype": obs(lambda: sm.get_alphabet().moltype.label),
        "motif_probs": obs(lambda: sm.get_motif_probs()),
        "lf": obs(lf_part),
    }


def gen_model(tier, seed):
    thorough = tier == "thorough"
    specs = [["named", n, {}] for n in NUC_MODELS + PROT_MODELS]
    specs += [["named", n, {}] for n in (CODON_MODELS if thorough else ["MG94HKY", "GY94"])]
    mp = {"A": 0.1, "C": 0.2, "G": 0.3, "T": 0.4}
    for n in ("HKY85", "GTR", "GN") + (("F81", "TN93") if thorough else ()):
        specs += [["named", n, {"optimise_motif_probs": True}], ["named", n, {"motif_probs": mp}],
                  ["named", n, {"ordered_param": "rate", "distribution": "gamma"}], ["named", n, {"recode_gaps": True}],
                  ["named", n, {"name": "renamed"}], ["named", n, {"equal_motif_probs": True}]]
    specs += [["named", "HKY85", {"ordered_param": "kappa", "distribution": "gamma", "partitioned_params": ["kappa"]}],
              ["named", "HKY85", {"motif_length": 2}], ["named", "F81", {"motif_length": 2, "mprob_model": "monomer"}],
              ["named", "HKY85", {"motif_length": 2, "mprob_model": "conditional"}], ["named", "F81", {"motif_length": 3}],
              ["named", "MG94HKY", {"gc": 2}], ["named", "JTT92", {"optimise_motif_probs": True}],
              ["named", "WG01", {"ordered_param": "rate", "distribution": "gamma"}]]
    specs += [["custom", c, {}] for c in ("custom_kappa", "custom_named_pred", "custom_list", "custom_dinuc", "custom_codon", "custom_protein")]
    specs += [["custom", "custom_named_pred", {"optimise_motif_probs": True}], ["custom", "custom_kappa", {"motif_probs": mp}]]
    if thorough:
        specs += [["named", "GY94", {"optimise_motif_probs": True}], ["named", "MG94GTR", {"mprob_model": "tuple"}],
                  ["named", "CNFHKY", {"gc": 4}], ["named", "Y98", {"motif_probs": None, "equal_motif_probs": True}]]
    for spec in specs:
        for how in CHANNELS:
            yield [spec, how]


def contract_model(case):
    spec, how = case
    fam = "custom" if spec[0] == "custom" else "nucleotide" if spec[1] in NUC_MODELS else "codon" if spec[1] in CODON_MODELS else "protein"
    tag = "model/" + fam
    flags = ",".join(sorted(spec[2])) if spec[0] == "named" else spec[1]
    return check_rt(tag, how, lambda: model_build(spec), model_view, case, flags=flags)


LF_BASES = {
    # id -> (model spec, make_likelihood_function kwargs, tree, alignment kind)
    "HKY85": (["named", "HKY85", {}], {}, LF_TREE, "dna"),
    "GTR": (["named", "GTR", {}], {}, LF_TREE, "dna"),
    "F81opt": (["named", "F81", {"optimise_motif_probs": True}], {}, LF_TREE, "dna"),
    "GN": (["named", "GN", {}], {}, LF_TREE, "dna"),
    "BH": (["named", "BH", {}], {}, LF_TREE3, "dna"),
    "HKY85gamma": (["named", "HKY85", {"ordered_param": "rate", "distribution": "gamma"}], {"bins": 2}, LF_TREE, "dna"),
    "HKY85loci": (["named", "HKY85", {}], {"loci": ["l1", "l2"]}, LF_TREE, "dna2"),
    "JTT92": (["named", "JTT92", {}], {}, LF_TREE3, "protein"),
    "dinuc": (["named", "HKY85", {"motif_length": 2}], {}, LF_TREE3, "dna"),
    "custom": (["custom", "custom_named_pred", {}], {}, LF_TREE, "dna"),
    "MG94HKY": (["named", "MG94HKY", {}], {}, LF_TREE3, "dna"),
}


def lf_build(bid, ops):
    from cogent3 import make_aligned_seqs, make_tree
    spec, kw, newick, akind = LF_BASES[bid]
    sm = model_build(spec)
    tree = make_tree(newick)
    lf = sm.make_likelihood_function(tree, **kw)
    names = tree.get_tip_names()
    if akind == "protein":
        lf.set_alignment(make_aligned_seqs(PROT_ALN, moltype="protein", info={"source": "p.fa"}).take_seqs(names))
    else:
        aln = make_aligned_seqs(DNA_ALN, moltype="dna", info={"source": "d.fa"}).take_seqs(names)
        lf.set_alignment([aln[:6], aln[6:]] if akind == "dna2" else aln)
    for op in ops:
        k = op[0]
        if k == "rule":
            lf.set_param_rule(**op[1])
        elif k == "mprobs":
            lf.set_motif_probs(dict(op[1]))
        elif k == "optimise":
            lf.optimise(max_evaluations=op[1], limit_action="ignore", show_progress=False, local=True)
        elif k == "name":
            lf.set_name(op[1])
        elif k == "time_het":
            lf.set_time_heterogeneity(edge_sets=[dict(edges=list(e)) for e in op[1]], is_independent=op[2])
        else:
            raise ValueError(op)
    return lf


def rule_norm(r):
    r = {k: plain(v) for k, v in r.items()}
    for k in ("edges", "bins", "loci"):
        if isinstance(r.get(k), list):
            r[k] = sorted(r[k])
    return r


def lf_view(lf):
    def alignment():
        a = lf.get_param_value("alignment") if len(lf.locus_names) == 1 else None
        if a is not None:
            return dict(a.to_dict())
        return {loc: dict(lf.get_param_value("alignment", locus=loc).to_dict()) for loc in lf.locus_names}

    def stats():
        return [[t.title, list(t.header), t.to_list()] for t in lf.get_statistics(with_motif_probs=True, with_titles=True)]

    def mprobs():
        m = lf.get_motif_probs()
        return {k: v.to_dict() for k, v in m.items()} if isinstance(m, dict) else m.to_dict()
    return {
        "type": type(lf).__name__,
        "lnL": obs(lambda: float(lf.get_log_likelihood())),
        "nfp": obs(lambda: int(lf.get_num_free_params())),
        "name": obs(lambda: lf.name),
        "model": obs(lambda: [type(lf.model).__name__, lf.model.name]),
        "param_names": obs(lambda: list(lf.get_param_names())),
        "bins_loci": obs(lambda: [list(lf.bin_names), list(lf.locus_names)]),
        "statistics": obs(stats),
        "rules": obs(lambda: sorted((rule_norm(r) for r in lf.get_param_rules()), key=lambda d: json.dumps(d, sort_keys=True, default=str))),
        "motif_probs": obs(mprobs),
        "alignment": obs(alignment),
        "topology": obs(lambda: lf.tree.get_newick(with_node_names=True)),
        "annotated_tree": obs(lambda: lf.get_annotated_tree().get_newick(with_distances=True)) if len(lf.locus_names) == 1 else None,
    }


def lf_histories(bid, thorough):
    spec, kw, newick, akind = LF_BASES[bid]
    name = spec[1]
    ops = [["name", "my lf"], ["rule", {"par_name": "length", "edge": "a", "init": 0.7}],
           ["rule", {"par_name": "length", "edge": "b", "is_constant": True, "value": 0.25}],
           ["rule", {"par_name": "length", "is_independent": False}], ["optimise", 12]]
    if name in ("BH",):
        ops = [["name", "my lf"], ["optimise", 12]]
    mp4 = {"A": 0.1, "C": 0.2, "G": 0.3, "T": 0.4}
    if akind != "protein" and bid not in ("dinuc", "MG94HKY", "BH"):
        ops.append(["mprobs", mp4])
    par = {"HKY85": "kappa", "HKY85gamma": "kappa", "HKY85loci": "kappa", "GTR": "A/G", "dinuc": "kappa", "custom": "beta",
           "MG94HKY": "omega", "GN": "A>C"}.get(bid)
    if par:
        ops += [["rule", {"par_name": par, "init": 3.5}], ["rule", {"par_name": par, "is_constant": True, "value": 2.0}],
                ["rule", {"par_name": par, "lower": 0.5, "upper": 7.0, "init": 2.5}],
                ["rule", {"par_name": par, "is_independent": True}]]
        if newick == LF_TREE:
            ops += [["rule", {"par_name": par, "edges": ["a", "b"], "init": 4.0}],
                    ["rule", {"par_name": par, "tip_names": ["a", "b"], "clade": True, "stem": True, "init": 0.5}],
                    ["rule", {"par_name": par, "tip_names": ["a", "b"], "outgroup_name": "d", "clade": True, "stem": False,
                              "is_independent": True}]]
            if bid in ("HKY85", "GTR"):
                ops += [["time_het", [["a", "b"], ["c"]], True], ["time_het", [["a", "ab"]], False]]
    if bid == "HKY85gamma":
        ops += [["rule", {"par_name": "rate_shape", "init": 2.0}], ["rule", {"par_name": "bprobs", "init": [0.3, 0.7]}]]
    if bid == "HKY85loci":
        ops += [["rule", {"par_name": "kappa", "is_independent": True, "loci": ["l1", "l2"]}] if False else
                ["rule", {"par_name": "kappa", "locus": "l1", "init": 5.0}]]
    chains = [[]] + [[o] for o in ops]
    pairs = [[o1, o2] for o1 in ops for o2 in ops if o1 != o2]
    if bid in ("HKY85", "GTR", "HKY85gamma"):
        chains += pairs if thorough else pairs[::6]
    elif thorough and bid != "MG94HKY":
        chains += pairs[::3]
    return chains


def gen_lf(tier, seed):
    thorough = tier == "thorough"
    for bid in LF_BASES:
        if bid == "MG94HKY" and not thorough:
            chains = [[], [["rule", {"par_name": "omega", "is_constant": True, "value": 2.0}]]]
        else:
            chains = lf_histories(bid, thorough)
        for ch in chains:
            for how in CHANNELS:
                yield [bid, ch, how]


def contract_lf(case):
    bid, ops, how = case
    fam = {"HKY85loci": "multi-locus", "HKY85gamma": "gamma", "BH": "discrete", "custom": "custom-model", "JTT92": "protein",
           "dinuc": "dinucleotide", "MG94HKY": "codon"}.get(bid, "nucleotide")
    # the history is in the message; keys name the family, the channel and the differing components
    return check_rt(f"lf/{fam}", how, lambda: lf_build(bid, ops), lf_view, case)


# ------------------------------------------------------------------------------------------------ app results
def nc_view(n):
    return {"type": type(n).__name__, "bool": bool(n), "fields": obs(lambda: [n.type, n.origin, n.message, n.source]),
            "text": obs(lambda: str(n))}


def value_view(v):
    from cogent3.app.result import generic_result
    if isinstance(v, generic_result):
        return ["result", result_view(v)]
    if hasattr(v, "get_log_likelihood"):
        return ["lf", {k: x for k, x in lf_view(v).items() if k in ("lnL", "nfp", "name", "param_names", "statistics", "alignment")}]
    if hasattr(v, "to_dict") and hasattr(v, "names") and hasattr(v, "moltype"):
        return ["seqs", type(v).__name__, plain(dict(v.to_dict())), info_of(v)]
    if hasattr(v, "header") and hasattr(v, "to_list"):
        return ["table", table_view(v)]
    if hasattr(v, "template") and hasattr(v, "array"):
        return ["dictarray", type(v).__name__, da_view(v)]
    if hasattr(v, "get_newick"):
        return ["tree", tree_view(v)]
    return ["plain", plain(v)]


def result_view(r):
    def items():
        r.deserialised_values()
        return [[plain(k), value_view(r[k])] for k in r]
    tn = type(r).__name__
    if tn == "model_result":
        obs(lambda: r.lf)  # reading .lf (re)names the member functions "<name> pos-<k>": do it before anything is recorded
    v = {"type": tn, "source": obs(lambda: r.source), "items": obs(items)}
    if tn == "model_result":
        v.update({
            "name": obs(lambda: r.name), "lnL": obs(lambda: float(r.lnL)), "nfp": obs(lambda: int(r.nfp)),
            "DLC_uniqueQ": obs(lambda: [r.DLC, r.unique_Q]), "num_evaluations": obs(lambda: r.num_evaluations),
            # (model_result keeps its evaluation limit only among the constructor arguments it re-exports)
            "evaluation_limit": obs(lambda: r._construction_kwargs.get("evaluation_limit")),
            "elapsed": obs(lambda: r.elapsed_time), "lf_names": obs(lambda: [x.name for x in (r.lf.values() if isinstance(r.lf, dict) else [r.lf])]),
            "tree": obs(lambda: r.tree.get_newick(with_distances=True) if not isinstance(r.tree, dict) else {str(k): t.get_newick(with_distances=True) for k, t in r.tree.items()}),
            "alignment": obs(lambda: dict(r.alignment.to_dict()) if not isinstance(r.alignment, dict) else {str(k): dict(a.to_dict()) for k, a in r.alignment.items()}),
        })
    if tn == "hypothesis_result":
        v.update({"name": obs(lambda: r.name), "LR_df_p": obs(lambda: [float(r.LR), int(r.df), float(r.pvalue)]),
                  "null": obs(lambda: r.null.name), "alt": obs(lambda: r.alt.name),       # (alt is one model_result: the best alternative)
                  "best": obs(lambda: r.get_best_model().name), "selected": obs(lambda: [m.name for m in r.select_models()])})
    if tn == "model_collection_result":
        v.update({"name": obs(lambda: r.name), "best": obs(lambda: r.get_best_model().name)})
    if tn == "bootstrap_result":
        v.update({"observed_LR": obs(lambda: float(r.observed.LR)), "null_dist": obs(lambda: [float(x) for x in r.null_dist])})
    return v


def result_build(spec):
    from cogent3 import get_app, make_aligned_seqs, make_table, make_tree
    from cogent3.app import result as res
    from cogent3.app.composable import NotCompleted
    kind = spec[0]
    aln = make_aligned_seqs(DNA_ALN, moltype="dna", info={"source": "x.fa"})
    tree = make_tree(LF_TREE)
    opt = dict(max_evaluations=15, limit_action="ignore")
    if kind == "nc":
        src = {"str": "x.fa", "none": None, "aln": aln}[spec[4]]
        origin = spec[2] if spec[2] != "<app>" else get_app("omit_degenerates")
        return NotCompleted(spec[1], origin, spec[3], source=src)
    if kind == "generic":
        g = res.generic_result(source="x.fa")
        for item in spec[1]:
            if item == "scalars":
                g["int"], g["float"], g["str"], g["none"], g["list"] = 1, 0.5, "text", None, [1, [2, 3]]
            elif item == "dict":
                g["d"] = {"x": [1, 2], "y": {"z": 0.25}}
            elif item == "aln":
                g["aln"] = aln[2:9]
            elif item == "tuplekey":
                g[("t", 1)] = "tuple key"
            elif item == "tree":
                g["tree"] = tree
            elif item == "table":
                g["tab"] = make_root_table("mixed")
            elif item == "nested":
                inner = res.generic_result(source="inner.fa")
                inner["k"] = [1, 2]
                g["inner"] = inner
            elif item == "seq":
                g["seq"] = aln.get_seq("a")[1:7]
            elif item == "nc":
                g["nc"] = NotCompleted("FAIL", "x", "msg", source="x.fa")
        return g
    if kind == "tabular":
        t = res.tabular_result(source="x.fa")
        for item in spec[1]:
            t[item] = make_root_table("mixed") if item == "table" else make_root_da("2d") if item == "da" else make_root_dm("sym4")
        return t
    mk = lambda model_, **kw: get_app("model", model_, tree=tree, show_progress=False, opt_args=opt, **kw)  # noqa: E731
    if kind == "model":
        return mk(spec[1], **dict(spec[2]))(aln if not dict(spec[2]).get("split_codons") else aln)
    if kind == "hypothesis":
        return get_app("hypothesis", mk(spec[1]), *[mk(n) for n in spec[2]])(aln)
    if kind == "collection":
        r = res.model_collection_result(name="coll", source="x.fa")
        for n in spec[1]:
            r[n] = mk(n)(aln)
        return r
    if kind == "bootstrap":
        return get_app("bootstrap", get_app("hypothesis", mk("F81"), mk("HKY85")), num_reps=2)(aln)
    raise ValueError(spec)


def gen_result(tier, seed):
    thorough = tier == "thorough"
    specs = []
    for typ in ("ERROR", "FAIL"):
        for origin in ("myapp", "<app>"):
            for msg in ("simple", "multi\nline 'quoted' \"msg\" é"):
                for src in ("str", "none", "aln"):
                    specs.append(["nc", typ, origin, msg, src])
    items = ["scalars", "dict", "aln", "tuplekey", "tree", "table", "nested", "seq", "nc"]
    specs += [["generic", []]] + [["generic", [i]] for i in items] + [["generic", items]]
    specs += [["tabular", []], ["tabular", ["table"]], ["tabular", ["da"]], ["tabular", ["dm"]], ["tabular", ["table", "da", "dm"]]]
    specs += [["model", "HKY85", {}], ["model", "GN", {}], ["model", "HKY85", {"split_codons": True}],
              ["model", "F81", {"name": "renamed-model"}], ["model", "BH", {}],
              ["model", "HKY85", {"param_rules": [{"par_name": "kappa", "is_constant": True, "value": 2.0}]}],
              ["model", "HKY85", {"time_het": "max"}], ["model", "HKY85", {"lf_args": {"bins": 2}, "sm_args": {"ordered_param": "rate", "distribution": "gamma"}}]]
    specs += [["hypothesis", "F81", ["HKY85"]], ["hypothesis", "JC69", ["HKY85", "GTR"]], ["collection", ["F81", "HKY85"]]]
    if thorough:
        specs += [["bootstrap"], ["model", "GTR", {"split_codons": True}], ["hypothesis", "HKY85", ["GN"]],
                  ["collection", ["JC69", "F81", "HKY85", "GTR"]]]
    for spec in specs:
        for how in CHANNELS:
            yield [spec, how]


def contract_result(case):
    spec, how = case
    kind = spec[0]
    viewfn = nc_view if kind == "nc" else result_view
    tag = {"nc": "result/NotCompleted", "generic": "result/generic_result", "tabular": "result/tabular_result",
           "model": "result/model_result", "hypothesis": "result/hypothesis_result",
           "collection": "result/model_collection_result", "bootstrap": "result/bootstrap_result"}[kind]
    flags = ""
    if kind in ("generic", "tabular"):
        flags = "+".join(spec[1]) if len(spec[1]) <= 1 else "several"
    elif kind == "model":
        flags = ",".join(sorted(dict(spec[2])))
    elif kind == "nc":
        flags = "source:" + spec[4]

    def build():
        from cogent3.app.composable import NotCompleted
        r = result_build(spec)
        if kind != "nc" and isinstance(r, NotCompleted):
            raise ValueError(f"the app did not complete: {r}")
        return r
    return check_rt(tag, how, build, viewfn, case, flags=flags)


BOUNDED = {
    "seq": {
        "gen": gen_seq, "contract": contract_seq,
        "functions": ["Sequence.to_rich_dict / to_json (old and new types)", "SeqView.to_rich_dict / from_rich_dict",
                      "deserialise.deserialise_seq", "new_sequence.Sequence.copy", "Sequence.__reduce__ (pickle)"],
        "bound": "old and new Sequence types x dna/rna/protein/text/bytes parents of length 0..10 x annotation_offset {0,5,3} x "
                 "{no features, 2-3 features incl. multi-span and minus strand} x info {none, 2 keys} x histories: every "
                 "slice a,b in [-L-1,L+1]+None, c in {None,+-1,+-2,+-3} (L=10: every 2nd of them + the reduced set a,b in "
                 "{None,-2,0,1,2,L-1,L+1}, c in {None,-1,+-2}; quick: every 3rd of the reduced set, every 4th of the full set "
                 "for the text parent), rc, to_rna/to_dna, degap; depth 2 and 3: seeded sample over the reduced set; x channels "
                 "json, rich, pickle, copy",
        "rule": "a case = (type, moltype, parent, offset, feature set, info, history, channel); non-trivial when the "
                "displayed string is non-empty; distinct by hash of the case",
    },
    "coll": {
        "gen": gen_coll, "contract": contract_coll,
        "functions": ["SequenceCollection / Alignment / ArrayAlignment .to_rich_dict / to_json", "Aligned.to_rich_dict / from_rich_dict",
                      "new_alignment.SequenceCollection.to_rich_dict / from_rich_dict", "new_alignment.SeqsData.to_rich_dict",
                      "deserialise.deserialise_seq_collections", "deserialise.deserialise_aligned"],
        "bound": "Alignment, ArrayAlignment, old and new SequenceCollection x 4 fixed row sets (dna 3x10 and 2x6 with gaps and "
                 "ambiguity codes, protein 3x6, single sequence) x {unannotated, sequence features, + alignment feature} x "
                 "histories of depth <= 2 (thorough: all pairs + depth-3 sample; quick: every 8th pair) over take_seqs, "
                 "take_seqs(negate), rename_seqs, column slices, rc, to_rna, degap, omit_gap_pos, take_positions, add_feature on "
                 "the view x targets {collection, get_seq (also sliced / reverse complemented), get_gapped_seq, Aligned member, "
                 "SeqsData} x channels json, rich, pickle",
        "rule": "a case = (class, row set, annotation level, history, target, channel); non-trivial when some row is non-empty; "
                "distinct by hash of the case",
    },
    "tree": {
        "gen": gen_tree, "contract": contract_tree,
        "functions": ["PhyloNode.to_rich_dict / to_json", "deserialise.deserialise_tree", "TreeNode.__reduce__ (pickle)"],
        "bound": "10 fixed trees on 2..6 tips (named / unnamed internal nodes, no lengths, mixed lengths, tiny / huge / zero "
                 "lengths, root with a name or a length, multifurcations, names with space, underscore, comma, quote) x "
                 "histories of depth <= 2 (thorough: all pairs + depth-3 sample; quick: every 7th pair) over unrooted, "
                 "bifurcating, sorted, deepcopy, scale_branch_lengths, root_at_midpoint, rooted_at, rooted_with_tip, "
                 "get_sub_tree, remove_node+prune, reassign_names, set/clear a length, set an edge parameter (float, list), "
                 "rename the root, take an inner node x channels json, rich, pickle",
        "rule": "a case = (tree, history, channel); non-trivial when the tree has more than one node; distinct by hash",
    },
    "tabular": {
        "gen": gen_tabular, "contract": contract_tabular,
        "functions": ["Table.to_rich_dict / to_json / __getstate__ / __setstate__", "Columns.__getstate__ / __setstate__",
                      "DictArray.to_rich_dict / to_json", "DistanceMatrix.to_rich_dict", "deserialise.deserialise_tabular"],
        "bound": "6 tables (mixed str/int/float/bool/None columns with index, title, legend, digits, space; numeric with nan, "
                 "+-inf, -0.0, 2**53+1, 1e-300; header only; no columns; one row; string column templates + missing_data + "
                 "max_width + markdown format) x histories of depth <= 2 over row slices, column selection, sorted, filtered, "
                 "with_new_column, with_new_header, transposed, appended, title/legend/space/format/index_name setters, "
                 "format_column, column assignment; 9 DictArrays (1-3 dimensions, str/int keys, int/float/bool, empty) x "
                 "row/column selection, to_normalized, row_sum, col_sum depth <= 2; 4 DistanceMatrices (incl. nan, names with "
                 "space) x take_dists, negate, drop_invalid, single-cell edit (asymmetric matrix) depth <= 2; x channels json, rich, pickle",
        "rule": "a case = (kind, base object, history, channel); non-trivial when no dimension is empty; distinct by hash",
    },
    "alpha": {
        "gen": gen_alpha, "contract": contract_alpha,
        "functions": ["alphabet.Alphabet / CharAlphabet .to_rich_dict / to_json / __getnewargs_ex__", "moltype.MolType.to_rich_dict / to_json",
                      "new_alphabet.CharAlphabet / KmerAlphabet / CodonAlphabet .to_rich_dict / from_rich_dict / pickle",
                      "deserialise.deserialise_alphabet", "deserialise.deserialise_moltype"],
        "bound": "old style: 7 molecular types and their 4 alphabets each, word alphabets k=2,3, with_gap_motif, get_subset "
                 "(included / excluded, before and after get_word_alphabet), non_degen / ungapped derivations, codon alphabets "
                 "of 9 (thorough 20) genetic codes with / without stops; new style: 6 molecular types (pickle only: no rich "
                 "dict), their 4 alphabets, k-mer alphabets k=1..3 with / without gap, with_gap_motif, codon alphabets x "
                 "{stop, gap}; x channels json, rich, pickle",
        "rule": "a case = (family, source, derivation, channel); non-trivial when the alphabet is non-empty; distinct by hash",
    },
    "maps": {
        "gen": gen_maps, "contract": contract_maps,
        "functions": ["IndelMap.to_rich_dict / to_json / from_rich_dict", "FeatureMap.to_rich_dict / to_json / from_rich_dict",
                      "Span / LostSpan .to_rich_dict / __getstate__", "location.deserialise_indelmap / deserialise_featuremap"],
        "bound": "IndelMap: the map of every gapped string over {residue, gap} of length 1..5 (thorough 1..7, + 300 sampled of "
                 "length 9..12) x histories depth <= 2 over nucleic_reversed, with_termini_unknown, 4 slices; FeatureMap: 8 "
                 "location sets on a parent of length 8 (empty, full, 1-3 spans, unordered, overlapping, zero-length, "
                 "adjacent) + 5 explicit span lists (lost spans, reversed spans) x histories depth <= 2 (quick: every 3rd "
                 "pair) over nucleic_reversed, gaps, shadow, covered, nongap, without_gaps, zeroed, inverse, 3 slices; x "
                 "channels json, rich, pickle",
        "rule": "a case = (map kind, base, history, channel); IndelMap: non-trivial when the modelled gapped string has a "
                "gap and a residue; FeatureMap: when it has a span; distinct by hash",
    },
    "annodb": {
        "gen": gen_annodb, "contract": contract_annodb,
        "functions": ["SqliteAnnotationDbMixin.to_rich_dict / to_json / __getstate__ / __setstate__",
                      "annotation_db.deserialise_basic_db / deserialise_gff_db / deserialise_gb_db"],
        "bound": "5 databases (empty Basic, Basic with 3 user features incl. multi-span, minus strand, parent_id, attributes, "
                 "on_alignment; Gff loaded from a 3-row file; Genbank loaded from a 2-feature record with join/complement; "
                 "file-backed Gff) x histories depth <= 2 (quick: every 4th pair) over add_feature (incl. a name with quotes "
                 "and an empty span), subset (seqid / biotype / range / no match), union and update with a Basic, Gff or "
                 "Genbank database x channels json, rich, pickle",
        "rule": "a case = (base db, history, channel); non-trivial when the database has a record; distinct by hash",
    },
    "model": {
        "gen": gen_model, "contract": contract_model,
        "functions": ["substitution_model._SubstitutionModel.to_rich_dict / to_json / __getnewargs_ex__",
                      "deserialise.deserialise_substitution_model"],
        "bound": "every nucleotide (10) and protein (5) model of available_models(), 2 (thorough 10) codon models, x option "
                 "variants for HKY85 / GTR / GN (thorough + F81, TN93): optimise_motif_probs, motif_probs, gamma rate "
                 "heterogeneity, recode_gaps, name, equal_motif_probs; dinucleotide / trinucleotide motif_length with monomer / "
                 "conditional / tuple mprob models, partitioned gamma parameter, genetic code 2; 6 user-defined models (dict "
                 "and list predicates, own predicate names, dinucleotide, codon, protein) x channels json, rich, pickle; the "
                 "view includes lnL, nfp, parameter names, motif probs and the rate matrix of a likelihood function built from "
                 "the model on a fixed 3-taxon alignment",
        "rule": "a case = (model spec, channel); always non-trivial; distinct by hash",
    },
    "lf": {
        "gen": gen_lf, "contract": contract_lf,
        "functions": ["AlignmentLikelihoodFunction.to_rich_dict / to_json / get_param_rules", "deserialise.deserialise_likelihood_function",
                      "ParameterController.__reduce__ (pickle)"],
        "bound": "11 likelihood functions on fixed 3-4 taxon data (HKY85, GTR, F81 with free motif probs, GN, discrete BH, "
                 "HKY85+gamma 2 bins, HKY85 on 2 loci, JTT92 protein, dinucleotide HKY85, user-defined predicates, codon "
                 "MG94HKY) x histories depth <= 2 (all pairs for HKY85 / GTR / gamma in thorough, every 6th in quick; every 3rd "
                 "pair for the others in thorough) over set_name, set_param_rule (init, constant, bounds, independent, edge "
                 "list, clade+stem, clade with outgroup, global length, per-locus), set_motif_probs, set_time_heterogeneity, "
                 "optimise(12 evaluations, local) x channels json, rich, pickle; view = lnL, nfp, name, parameter names, "
                 "statistics tables, normalised parameter rules, motif probs, alignment, topology, annotated tree",
        "rule": "a case = (base lf, history, channel); always non-trivial; distinct by hash",
    },
    "result": {
        "gen": gen_result, "contract": contract_result,
        "functions": ["NotCompleted.to_rich_dict / to_json / __getnewargs_ex__", "generic_result.to_rich_dict / to_json / deserialised_values",
                      "model_result / hypothesis_result / model_collection_result / bootstrap_result / tabular_result .to_rich_dict",
                      "deserialise.deserialise_result", "deserialise.deserialise_not_completed"],
        "bound": "NotCompleted: 2 types x {str origin, app instance} x {plain, multi-line quoted unicode message} x source {str, "
                 "None, alignment}; generic_result with each of 9 content kinds (scalars, nested dict, sliced alignment, tuple "
                 "key, tree, table, nested result, sliced sequence, NotCompleted) and all together; tabular_result with table / "
                 "DictArray / DistanceMatrix; model_result from the model app (HKY85, GN, BH, split codons, renamed, constant "
                 "parameter rule, time_het=max, gamma); hypothesis_result (1 and 2 alternates); model_collection_result; "
                 "thorough: bootstrap_result (2 replicates) and 3 more; x channels json, rich, pickle",
        "rule": "a case = (result spec, channel); always non-trivial; distinct by hash",
    },
}
