"""Bounded run-time contracts for C10 -- every serialisable object round-trips, whatever state it is in
(stand-in tier; never counted as proved).

Contract text (all contracts of this module):  for an object ``x`` built by a *history* of view / mutation
operations and a channel ``how`` in {json: deserialise_object(json.loads(x.to_json())), rich:
deserialise_object(x.to_rich_dict()), pickle: pickle.loads(pickle.dumps(x)), and for sequences also
copy: x.copy()}

    view(how(x)) == view(x)            (observational equality, every component of the abstract view)
    view(x) after how(x) == view(x)    (serialising does not change the object that was serialised)

``view`` turns an object into plain strings / lists / dicts through its public read API only (strings, names,
parent coordinates, features with their spans and sliced text, annotation records, table rows and formatted
text, parameter values, log-likelihood).  Where a plain-data model of the history exists (sequence text, the
gapped string behind an IndelMap, the table rows) the view of the *round-tripped* object is additionally
compared against that model, so a wrong original cannot make a wrong copy look right.
A view component whose evaluation raises on the original is recorded as ("raises", type) and must raise the
same way on the copy.

Failure keys:  <contract>/<type tag>/<channel>/<symptom>[/<state flags>]  with symptom one of
raises:<ExceptionType>, differs:<components>, original-changed:<components>, model:<components>.
"""
from __future__ import annotations

import json
import math
import os
import pickle
import random
import tempfile
import warnings

import numpy

warnings.filterwarnings("ignore")

CHANNELS = ("json", "rich", "pickle")


# ------------------------------------------------------------------------------------------------ common
def rt(x, how):
    from cogent3.util.deserialise import deserialise_object
    if how == "json":
        return deserialise_object(json.loads(x.to_json()))
    if how == "rich":
        return deserialise_object(x.to_rich_dict())
    if how == "pickle":
        return pickle.loads(pickle.dumps(x))
    if how == "copy":
        return x.copy()
    raise ValueError(how)


def plain(v, depth=0):
    """numpy / tuples / odd scalars -> plain python data (lists, dicts with str keys, str, int, float, bool, None)"""
    if v is None or isinstance(v, (bool, str)):
        return v
    if isinstance(v, (int,)):
        return int(v)
    if isinstance(v, float):
        return v
    if isinstance(v, bytes):
        return ["bytes", v.decode("latin1")]
    if isinstance(v, numpy.ndarray):
        return plain(v.tolist(), depth + 1)
    if isinstance(v, numpy.generic):
        return plain(v.item(), depth + 1)
    if isinstance(v, dict):
        return {str(k): plain(x, depth + 1) for k, x in v.items()}
    if isinstance(v, (list, tuple)):
        return [plain(x, depth + 1) for x in v]
    if isinstance(v, (set, frozenset)):
        return sorted((plain(x, depth + 1) for x in v), key=repr)
    return ["obj", type(v).__name__, str(v)]


def same(a, b, rel=1e-9, ab=1e-12):
    """structural equality with a float tolerance (a recomputed likelihood may differ in the last bits)"""
    if isinstance(a, bool) or isinstance(b, bool):
        return type(a) is type(b) and a == b
    if isinstance(a, (int, float)) and isinstance(b, (int, float)):
        if isinstance(a, float) or isinstance(b, float):
            fa, fb = float(a), float(b)
            if math.isnan(fa) or math.isnan(fb):
                return math.isnan(fa) and math.isnan(fb)
            if math.isinf(fa) or math.isinf(fb):
                return fa == fb
            return abs(fa - fb) <= ab + rel * max(abs(fa), abs(fb))
        return a == b
    if type(a) is not type(b):
        return False
    if isinstance(a, list):
        return len(a) == len(b) and all(same(x, y, rel, ab) for x, y in zip(a, b))
    if isinstance(a, dict):
        return a.keys() == b.keys() and all(same(a[k], b[k], rel, ab) for k in a)
    return a == b


def obs(f):
    """one component of a view; an observation that raises is itself an observation"""
    try:
        return plain(f())
    except Exception as e:  # noqa: BLE001 - any refusal is recorded by type
        return ["raises", type(e).__name__]


def diff_components(v0, v1):
    keys = list(v0) + [k for k in v1 if k not in v0]
    return [k for k in keys if k not in v0 or k not in v1 or not same(v0[k], v1[k])]


def _short(v, n=260):
    s = repr(v)
    return s if len(s) <= n else s[:n] + "..."


def check_rt(prefix, how, build, viewfn, case, flags="", model=None, refine=None, nontrivial=True):
    """the common contract body.  build() -> fresh object in its history state; viewfn(obj) -> dict of plain
    components; model: optional dict of components computed without cogent3 which the original must show
    (precondition: the oracle is only used when it agrees with the plain-data model of the history);
    refine(v0, v1, comps) -> a more specific symptom string or None"""
    tail = f"/{flags}" if flags else ""
    x = build()
    v0 = viewfn(x)
    if model and [k for k in model if k not in v0 or not same(plain(model[k]), v0[k])]:
        return ("skip",)  # the original already disagrees with the plain-data model: another property's matter
    try:
        y = rt(x, how)
    except Exception as e:  # noqa: BLE001
        return ("fail", f"{prefix}/{how}/raises:{type(e).__name__}{tail}",
                f"{case}: {how} round trip raises {type(e).__name__}: {str(e)[:200]}")
    v1 = viewfn(y)
    comps = diff_components(v0, v1)
    if comps:
        sym = (refine(v0, v1, comps) if refine else None) or "differs:" + "+".join(comps)
        c = comps[0]
        return ("fail", f"{prefix}/{how}/{sym}{tail}",
                f"{case}: after {how} round trip component {c!r} is {_short(v1.get(c))}, original shows {_short(v0.get(c))}"
                f" (all differing components: {comps})")
    v0b = viewfn(x)
    comps = diff_components(v0, v0b)
    if comps:
        c = comps[0]
        return ("fail", f"{prefix}/{how}/original-changed:" + "+".join(comps) + tail,
                f"{case}: serialising ({how}) changed the original: component {c!r} was {_short(v0.get(c))}, is now {_short(v0b.get(c))}")
    return ("ok", nontrivial)


# ------------------------------------------------------------------------------------------------ sequences
DNA_COMP = dict(zip("ACGTRYMKSWNBVDH-?", "TGCAYRKMSWNVBHD-?"))
RNA_COMP = dict(zip("ACGURYMKSWNBVDH-?", "UGCAYRKMSWNVBHD-?"))


def comp(s, mt):
    t = DNA_COMP if mt == "dna" else RNA_COMP
    return "".join(t[c] for c in s)


def seq_spec_apply(s, mt, op):
    """plain-string model of one history step -> (string, moltype)"""
    k = op[0]
    if k == "s":
        a, b, c = op[1:]
        r = s[a:b:c]
        if c is not None and c < 0 and mt in ("dna", "rna"):
            r = comp(r, mt)
        return r, mt
    if k == "rc":
        return comp(s[::-1], mt), mt
    if k == "rna":
        return s.replace("T", "U"), "rna"
    if k == "dna":
        return s.replace("U", "T"), "dna"
    if k == "degap":
        return s.replace("-", "").replace("?", ""), mt
    raise ValueError(op)


def seq_real_apply(x, op):
    k = op[0]
    if k == "s":
        return x[op[1]:op[2]:op[3]]
    if k == "rc":
        return x.rc()
    if k == "rna":
        return x.to_rna()
    if k == "dna":
        return x.to_dna()
    if k == "degap":
        return x.degap()
    raise ValueError(op)


def db_records(db):
    """every row of an annotation db as sorted plain dicts"""
    if db is None:
        return []
    rows = []
    for r in db.get_records_matching():
        rows.append({k: plain(v) for k, v in dict(r).items()})
    return sorted(rows, key=lambda d: json.dumps(d, sort_keys=True, default=str))


def feature_view(f):
    return [f.biotype, f.name, f.seqid, plain(f.map.get_coordinates()), bool(f.reversed), int(f.map.parent_length),
            obs(lambda: str(f.get_slice()))]


def features_of(x, **kw):
    return sorted((feature_view(f) for f in x.get_features(allow_partial=True, **kw)), key=repr)


def info_of(x):
    info = getattr(x, "info", None)
    return {k: plain(v) for k, v in dict(info or {}).items() if k != "Refs"}


def seq_view(x):
    return {
        "str": obs(lambda: str(x)),
        "len": obs(lambda: len(x)),
        "name": obs(lambda: x.name),
        "type": type(x).__name__,
        "moltype": obs(lambda: x.moltype.label),
        "info": obs(lambda: info_of(x)),
        "parent_coordinates": obs(lambda: list(x.parent_coordinates())),
        "annotation_offset": obs(lambda: int(x.annotation_offset)),
        "features": obs(lambda: features_of(x)),
        "annotation_db": obs(lambda: db_records(x.annotation_db)),
    }


SEQ_FEATURES = {
    # id -> list of (biotype, name, spans relative to the parent string, strand)
    0: [],
    1: [("gene", "g1", [(1, 3), (5, 7)], "+"), ("cds", "c1", [(2, 5)], "-")],
    2: [("exon", "e1", [(0, 2)], "+"), ("exon", "e2", [(3, 8)], "-"), ("gene", "g2", [(0, 8)], "+")],
}


def make_root_seq(new, mt, parent, off, fid, info):
    from cogent3 import make_seq
    kw = {}
    if off:
        kw["annotation_offset"] = off
    if info:
        kw["info"] = {"note": "n1", "count": 3}
    x = make_seq(parent, name="s1", moltype=mt, new_type=new, **kw)
    L = len(parent)
    for biotype, name, spans, strand in SEQ_FEATURES[fid]:
        sp = [(min(a, L) + off, min(b, L) + off) for a, b in spans if min(a, L) < min(b, L)]
        if sp:
            x.add_feature(biotype=biotype, name=name, spans=sp, strand=strand)
    return x


def seq_slice_ops(L, rich):
    if rich:
        ab = [None] + list(range(-L - 1, L + 2))
        cs = [None, 1, 2, 3, -1, -2, -3]
    else:
        ab = [None, -2, 0, 1, 2, L - 1, L + 1]
        cs = [None, -1, 2, -2]
    return [["s", a, b, c] for a in ab for b in ab for c in cs]


SEQ_PARENTS = {"dna": ["", "A", "ACGGTTACGA", "TG-CANR?"], "rna": ["ACGUUR-A"], "protein": ["MKVLQ-W"], "text": ["ABCDE"],
               "bytes": ["ab!c"]}


def gen_seq(tier, seed):
    rnd = random.Random(seed)
    thorough = tier == "thorough"
    hows = CHANNELS + ("copy",)
    for new in (False, True):
        for mt, parents in SEQ_PARENTS.items():
            nuc = mt in ("dna", "rna")
            for parent in parents:
                L = len(parent)
                roots = [(0, 0, False)]
                if L >= 5:
                    roots += [(5, 0, False), (0, 0, True)]
                if mt == "dna" and L == 10:
                    roots += [(0, 1, False), (5, 1, False), (3, 2, True)]
                extra = ([["rc"], ["rna" if mt == "dna" else "dna"]] if nuc else []) + ([["degap"]] if "-" in parent else [])
                d1 = seq_slice_ops(L, rich=L <= 5 or thorough) if L else [["s", None, None, None]]
                if L > 5 and not thorough:
                    d1 = seq_slice_ops(L, rich=True)[::5] + seq_slice_ops(L, rich=False)
                red = seq_slice_ops(L, rich=False)
                for off, fid, info in roots:
                    chains = [[]] + [[o] for o in d1 + extra]
                    if L >= 2:
                        l1 = red[::(1 if thorough else 4)] + extra
                        l2 = red[::(2 if thorough else 5)] + extra
                        chains += [[o1, o2] for o1 in l1 for o2 in l2]
                        for _ in range(400 if thorough else 30):
                            chains.append([rnd.choice(red + extra) for _ in range(3)])
                    for ops in chains:
                        for how in hows:
                            yield [new, mt, parent, off, fid, info, ops, how]


def seq_flags(off, fid, ops, x):
    fl = []
    if fid:
        fl.append("annotated")
    if off:
        fl.append("offset")
    try:
        st = x._seq.step
        if st < 0:
            fl.append("reversed")
        if abs(st) > 1:
            fl.append("strided")
    except Exception:  # noqa: BLE001
        pass
    if any(o[0] in ("rna", "dna", "degap") for o in ops):
        fl.append("converted")
    return ",".join(fl)


def seq_refine(v0, v1, comps):
    if set(comps) <= {"features", "annotation_db"} and v1.get("annotation_db") == [] and v0.get("annotation_db"):
        return "annotations-dropped"
    return None


def contract_seq(case):
    new, mt, parent, off, fid, info, ops, how = case
    s, cur = parent, mt
    for op in ops:
        if op[0] in ("rc", "rna", "dna") and cur not in ("dna", "rna"):
            return ("skip",)
        if op[0] == "s" and op[3] == 0:
            return ("skip",)
        s, cur = seq_spec_apply(s, cur, op)
    holder = {}

    def build():
        x = make_root_seq(new, mt, parent, off, fid, info)
        for op in ops:
            x = seq_real_apply(x, op)
        holder["x"] = x
        return x
    try:
        x = build()
    except Exception:  # noqa: BLE001 - a history the library refuses is outside the precondition
        return ("skip",)
    flags = seq_flags(off, fid, ops, x)
    tag = "seq/" + ("new" if new else "old")
    model = {"str": s, "len": len(s), "name": "s1", "moltype": cur}
    return check_rt(tag, how, build, seq_view, case, flags=flags, model=model, refine=seq_refine,
                    nontrivial=len(s) > 0)


BOUNDED = {
    "seq": {
        "gen": gen_seq, "contract": contract_seq,
        "functions": ["Sequence.to_rich_dict / to_json (old and new types)", "SeqView.to_rich_dict / from_rich_dict",
                      "deserialise.deserialise_seq", "new_sequence.Sequence.copy", "Sequence.__reduce__ (pickle)"],
        "bound": "old and new Sequence types x dna/rna/protein/text/bytes parents of length 0..10 x annotation_offset {0,5,3} x "
                 "{no features, 2-3 features incl. multi-span and minus strand} x info {none, 2 keys} x histories: every "
                 "slice a,b in [-L-1,L+1]+None, c in {None,+-1,+-2,+-3} (L<=5; a fifth of them for L>5 in quick), rc, "
                 "to_rna/to_dna, degap; depth 2 reduced x reduced; depth 3 seeded sample; x channels json, rich, pickle, copy",
        "rule": "a case = (type, moltype, parent, offset, feature set, info, history, channel); non-trivial when the "
                "displayed string is non-empty; distinct by hash of the case",
    },
}
