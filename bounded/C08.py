"""Bounded run-time contracts for C08 (gapped-coordinate maps agree with the gapped string they describe).

Abstract view of an IndelMap: gapped(m) in {seq-index, gap}* -- one entry per alignment column.  The spec side
is a plain string over {x,-} ('x' = residue, '-' = gap) and everything the map reports (length, gap runs,
ungapped segments, both index conversions, spans, derived feature map and its inverse) is recomputed from
that string by counting characters.  Every transformation contract reads

        view(op(map(s), ...)) == spec_view(op_on_strings(s, ...))

over the WHOLE view.  Abstract view of a FeatureMap: the list of (parent index, strand flag) | lost, one
entry per map position; inverse / covered / shadow / reversal / composition are stated on these lists and
sets.  Results are `bounded`, never proved.
"""
from __future__ import annotations

import itertools
import random
import warnings

import numpy

warnings.filterwarnings("ignore")

LETTERS = "ACGTRYMKSW"
DNA_COMP = dict(zip("ACGTRYMKSWNBVDH-?", "TGCAYRKMSWNVBHD-?"))


# =============================================================================================== string spec
def strings(lo, hi):
    for L in range(lo, hi + 1):
        for t in itertools.product("x-", repeat=L):
            yield "".join(t)


def runs(s):
    """[(char, start, end)] maximal runs"""
    out, i = [], 0
    for ch, grp in itertools.groupby(s):
        k = len(list(grp))
        out.append((ch, i, i + k))
        i += k
    return out


def before_counts(s):
    """before[i] = number of residues strictly left of column i, i in 0..len(s)"""
    out, k = [], 0
    for c in s:
        out.append(k)
        if c == "x":
            k += 1
    out.append(k)
    return out


def layout(s):
    """witness pattern of a gap layout (not the concrete string)"""
    if not s:
        return "empty"
    if "x" not in s:
        return "allgap"
    if "-" not in s:
        return "nogap"
    rr = runs(s)
    lead = rr[0][0] == "-"
    trail = rr[-1][0] == "-"
    internal = sum(1 for r in rr if r[0] == "-") - lead - trail
    return f"{'L' if lead else ''}{'T' if trail else ''}I{min(internal, 2)}{'+' if internal > 2 else ''}"


def bclass(s, i):
    """class of the boundary between columns i-1 and i: the two neighbouring symbols (^ and $ are the ends)"""
    left = s[i - 1] if i > 0 else "^"
    right = s[i] if i < len(s) else "$"
    return left + right


ORDER = ["len", "parent_length", "spans", "gap_coordinates", "gap_align_coordinates", "gap_lengths", "nongap",
         "coordinates", "seq_index/residue", "seq_index/gap", "seq_index/end", "seq_index/negative",
         "align_index", "align_index/negative", "align_index/slice_stop", "fmap", "fmap_inverse"]


def spec_view(s):
    L, n = len(s), s.count("x")
    before = before_counts(s)
    cols = [before[i] if c == "x" else None for i, c in enumerate(s)]
    rr = runs(s)
    col_of = [i for i, c in enumerate(s) if c == "x"]
    return {
        "len": L,
        "parent_length": n,
        "spans": cols,
        "gap_coordinates": [[before[a], b - a] for ch, a, b in rr if ch == "-"],
        "gap_align_coordinates": [[a, b] for ch, a, b in rr if ch == "-"],
        "gap_lengths": [b - a for ch, a, b in rr if ch == "-"],
        "nongap": [[a, b] for ch, a, b in rr if ch == "x"],
        "coordinates": [[before[a], before[b]] for ch, a, b in rr if ch == "x"],
        "seq_index/residue": [[i, before[i]] for i, c in enumerate(s) if c == "x"],
        "seq_index/gap": [[i, before[i]] for i, c in enumerate(s) if c == "-"],
        "seq_index/end": before[L],
        "seq_index/negative": [[i - L, before[i]] for i in range(L)],
        "align_index": [[k, col_of[k]] for k in range(n)],
        "align_index/negative": [[k - n, col_of[k]] for k in range(n)],
        "align_index/slice_stop": [[k, 0 if k == 0 else col_of[k - 1] + 1] for k in range(n + 1)],
        "fmap": cols,
        "fmap_inverse": col_of,
    }


# =============================================================================================== real view
def _ints(x):
    if isinstance(x, (list, tuple)):
        return [_ints(v) for v in x]
    if isinstance(x, numpy.ndarray):
        return _ints(x.tolist())
    if x is None:
        return None
    if isinstance(x, float) and x == int(x):
        return int(x)
    return int(x) if isinstance(x, (numpy.integer, bool)) else x


def span_columns(spans, parent_length):
    """columns (seq index | None) described by a list of Span/LostSpan; flags coordinates outside the parent"""
    cols = []
    for sp in spans:
        if sp.lost:
            if sp.length < 0:
                return ["negative-lost-span", int(sp.length)]
            cols.extend([None] * int(sp.length))
        else:
            a, b = sp.start, sp.end
            if a != int(a) or b != int(b):
                return ["non-integer-span", repr(sp)]
            a, b = int(a), int(b)
            if not (0 <= a <= b <= parent_length):
                return ["outside-parent", [a, b], int(parent_length)]
            cols.extend(range(a, b))
    return cols


def _obs(m, name, L, n):
    if name == "len":
        return _ints(len(m))
    if name == "parent_length":
        return _ints(m.parent_length)
    if name == "spans":
        return span_columns(list(m.spans), m.parent_length)
    if name == "gap_coordinates":
        return _ints(m.get_gap_coordinates())
    if name == "gap_align_coordinates":
        return _ints(m.get_gap_align_coordinates())
    if name == "gap_lengths":
        return _ints(m.get_gap_lengths())
    if name == "nongap":
        return [[int(sp.start), int(sp.end)] for sp in m.nongap()]
    if name == "coordinates":
        return [[int(a), int(b)] for a, b in m.get_coordinates() if a != b]
    if name == "seq_index/residue" or name == "seq_index/gap":
        # which columns are asked is decided by the caller (spec side); here all columns are produced
        return None
    if name == "seq_index/end":
        return _ints(m.get_seq_index(L))
    if name == "seq_index/negative":
        return [[i - L, _ints(m.get_seq_index(i - L))] for i in range(L)]
    if name == "align_index":
        return [[k, _ints(m.get_align_index(k))] for k in range(n)]
    if name == "align_index/negative":
        return [[k - n, _ints(m.get_align_index(k - n))] for k in range(n)]
    if name == "align_index/slice_stop":
        return [[k, _ints(m.get_align_index(k, slice_stop=True))] for k in range(n + 1)]
    if name == "fmap":
        fm = m.to_feature_map()
        cols = span_columns(list(fm.spans), fm.parent_length)
        if len(fm) != len(m) or fm.parent_length != m.parent_length:
            return ["fmap-size", len(fm), int(fm.parent_length)]
        return cols
    if name == "fmap_inverse":
        inv = m.to_feature_map().inverse()
        cols = span_columns(list(inv.spans), inv.parent_length)
        if cols and isinstance(cols[0], str):
            return cols
        if len(cols) != n:
            return ["inverse-length", len(cols)]
        return cols
    raise KeyError(name)


def observe(m, name, spec):
    """value of observer `name` on the real map, shaped like the spec value"""
    L, n = spec["len"], spec["parent_length"]
    try:
        if name in ("seq_index/residue", "seq_index/gap"):
            return [[i, _ints(m.get_seq_index(i))] for i, _ in spec[name]]
        return _obs(m, name, L, n)
    except Exception as e:  # noqa: BLE001 - any exception of an observer is a disagreement with the string
        return ["raises", f"{type(e).__name__}: {e}"[:160]]


_BUILD_CACHE = {}


def build(s, how="parse"):
    """the indel map cogent3 builds from the gapped string: how='parse' -> Sequence.parse_out_gaps (the route the
    property names), how='direct' -> IndelMap(gap_pos, cum_gap_lengths) with integer arrays.  Maps are immutable
    (read-only arrays), so instances are shared between cases of one worker process."""
    key = (s, how)
    m = _BUILD_CACHE.get(key)
    if m is None:
        if how == "parse":
            from cogent3 import make_seq
            m = make_seq(s.replace("x", "A"), moltype="dna").parse_out_gaps()[0]
        else:
            from cogent3.core.location import IndelMap
            before = before_counts(s)
            gaps = [(before[a], b - a) for ch, a, b in runs(s) if ch == "-"]
            m = IndelMap(gap_pos=numpy.array([g[0] for g in gaps], dtype=int),
                         cum_gap_lengths=numpy.array([g[1] for g in gaps], dtype=int).cumsum(),
                         parent_length=s.count("x"))
        if len(_BUILD_CACHE) > 20000:
            _BUILD_CACHE.clear()
        _BUILD_CACHE[key] = m
    return m


_BASE_CACHE = {}


def base_observer_fails(s, name, spec):
    """does observer `name` already disagree with the string on the map built directly from s?"""
    key = (s, name)
    r = _BASE_CACHE.get(key)
    if r is None:
        try:
            b = observe(build(s), name, spec)
        except Exception:  # noqa: BLE001
            b = spec[name]
        r = (b != spec[name], b)
        if len(_BASE_CACHE) > 50000:
            _BASE_CACHE.clear()
        _BASE_CACHE[key] = r
    return r


def diff(m, s, base_check=True):
    """(own, base): own = (observer, got, want) for the first observer on which real map m disagrees with the
    string s although the same observer is right on the map built directly from s; base = the same for the first
    observer that is already wrong on the directly built map (the observer itself is at fault)."""
    spec = spec_view(s)
    base = None
    for name in ORDER:
        got = observe(m, name, spec)
        if got == spec[name]:
            continue
        if base_check:
            bad, b = base_observer_fails(s, name, spec)
            if bad:
                if base is None:
                    base = (name, b, spec[name])
                continue
        return (name, got, spec[name]), base
    return None, base


def compare(m, s, site, pattern, what, base_check=True):
    """None if every observer of real map m agrees with the string s, else a ("fail", key, message).
    If the disagreeing observer disagrees as well on the map built directly from s, the failure is attributed to
    the observer itself (key observe/...), not to the transformation."""
    own, base = diff(m, s, base_check)
    if own is not None:
        name, got, want = own
        return ("fail", f"{site}/{name}/{pattern}",
                f"{what}: {name} gives {got!r}, the string {s!r} says {want!r}; result map {m!r}")
    if base is not None:
        name, got, want = base
        return ("fail", f"observe/{name}/{layout(s)}",
                f"map built from {s!r}: {name} gives {got!r}, string says {want!r} (seen via {site}: {what})")
    return None


# =============================================================================================== observers
def gen_observe(tier, seed):
    hi = 12 if tier == "thorough" else 9
    for s in strings(0, hi):
        yield [s]
    if tier == "thorough":
        rnd = random.Random(seed)
        for _ in range(1500):
            L = rnd.randint(13, 40)
            p = rnd.choice((0.2, 0.5, 0.8))
            yield ["".join("-" if rnd.random() < p else "x" for _ in range(L))]


def contract_observe(case):
    (s,) = case
    try:
        m = build(s)
    except Exception as e:  # noqa: BLE001
        return ("fail", f"observe/parse_out_gaps-raises/{layout(s)}", f"{s!r}: {type(e).__name__}: {e}")
    r = compare(m, s, "observe", layout(s), f"map built from {s!r}", base_check=False)
    return r or ("ok", "-" in s)


# =============================================================================================== constructors
BUILDERS = ["from_aligned_segments", "gap_coords_to_map", "from_spans", "direct", "direct_lengths", "rich_dict",
            "json"]


def gen_construct(tier, seed):
    hi = 10 if tier == "thorough" else 8
    for s in strings(0, hi):
        for b in BUILDERS:
            yield [s, b]


def contract_construct(case):
    from cogent3.core.location import IndelMap, LostSpan, Span, gap_coords_to_map
    s, which = case
    L, n = len(s), s.count("x")
    before = before_counts(s)
    rr = runs(s)
    gaps = [(before[a], b - a) for ch, a, b in rr if ch == "-"]
    pos = numpy.array([g[0] for g in gaps], dtype=int)
    lens = numpy.array([g[1] for g in gaps], dtype=int)
    try:
        if which == "from_aligned_segments":
            m = IndelMap.from_aligned_segments(locations=[(a, b) for ch, a, b in rr if ch == "x"], aligned_length=L)
        elif which == "gap_coords_to_map":
            m = gap_coords_to_map(dict(gaps), n)
        elif which == "from_spans":
            spans = [LostSpan(b - a) if ch == "-" else Span(before[a], before[b]) for ch, a, b in rr]
            m = IndelMap.from_spans(spans=spans, parent_length=n)
        elif which == "direct":
            m = IndelMap(gap_pos=pos, cum_gap_lengths=lens.cumsum(), parent_length=n)
        elif which == "direct_lengths":
            m = IndelMap(gap_pos=pos, gap_lengths=lens, parent_length=n)
        elif which == "rich_dict":
            m = IndelMap.from_rich_dict(build(s).to_rich_dict())
        elif which == "json":
            from cogent3.util.deserialise import deserialise_object
            m = deserialise_object(build(s).to_json())
        else:
            raise ValueError(which)
    except Exception as e:  # noqa: BLE001
        return ("fail", f"construct/{which}/raises/{layout(s)}", f"{case}: {type(e).__name__}: {e}")
    r = compare(m, s, f"construct/{which}", layout(s), f"{which} for {s!r}")
    return r or ("ok", "-" in s)


# =============================================================================================== __getitem__
def slice_args(L, rich):
    """all (a, b) argument pairs whose Python meaning is an interval inside [0, L]"""
    vals = [None] + list(range(-L, L + 1))
    out = []
    for a in vals:
        for b in vals:
            if not rich and ((a is not None and a < 0) or (b is not None and b < 0)):
                continue
            out.append((a, b))
    return out


def gen_getitem(tier, seed):
    thorough = tier == "thorough"
    full, pos_only = (7, 10) if thorough else (5, 8)
    for s in strings(0, pos_only):
        L = len(s)
        if L <= full:
            for a, b in slice_args(L, rich=True):
                yield [s, "slice", a, b]
        else:
            for a in range(L + 1):
                for b in range(a, L + 1):
                    yield [s, "slice", a, b]
        if L <= full + 1:
            for i in range(-L, L):
                yield [s, "int", i, None]
            # arguments outside [-L, L]: Python clamps; an exception is accepted too
            for a, b in ((0, L + 1), (0, L + 3), (L + 1, L + 2), (1, L + 1), (-L - 1, L), (-L - 2, -L - 1),
                         (L, L + 2), (None, L + 1)):
                yield [s, "outside", a, b]
    if thorough:
        rnd = random.Random(seed)
        for _ in range(6000):
            L = rnd.randint(11, 30)
            p = rnd.choice((0.3, 0.5, 0.7))
            s = "".join("-" if rnd.random() < p else "x" for _ in range(L))
            a = rnd.randint(-L, L)
            b = rnd.randint(-L, L)
            yield [s, "slice", a, b]


def contract_getitem(case):
    s, kind, a, b = case
    L = len(s)
    m = build(s)
    if kind == "int":
        exp = s[a] if -L <= a < L else None
        if exp is None:
            return ("skip",)
        pattern = "index=-1" if a == -1 else "negative" if a < 0 else "nonneg"
        what = f"map({s!r})[{a}]"
        try:
            r = m[a]
        except Exception as e:  # noqa: BLE001
            return ("fail", f"getitem-int/raises/{pattern}", f"{what}: {type(e).__name__}: {e}")
        f = compare(r, exp, "getitem-int", pattern, what)
        return f or ("ok", True)
    exp = s[a:b]
    what = f"map({s!r})[{a}:{b}]"
    if kind == "outside":
        # C08 quantifies over "all slice intervals" *of the alignment*: an interval reaching beyond [-L, L] is not an
        # alignment interval, so what the map does with it is outside the contract's precondition (reviewer's scoping)
        return ("skip",)
        over = [v for v in (a, b) if v is not None and v > L]
        pattern = "beyond-length" if over else "below-minus-length"
        try:
            r = m[a:b]
        except Exception:  # noqa: BLE001 - refusing an out-of-range interval is allowed
            return ("ok", False)
        f = compare(r, exp, "getitem-outside", pattern, what)
        return f or ("ok", True)
    lo, hi, _ = slice(a, b).indices(L)
    form = "neg" if (a is not None and a < 0) or (b is not None and b < 0) else "pos"
    if lo >= hi:
        pattern = f"{form}/empty-interval"
    else:
        pattern = f"{form}/start({bclass(s, lo)})stop({bclass(s, hi)})"
    try:
        r = m[a:b]
    except Exception as e:  # noqa: BLE001
        return ("fail", f"getitem/raises/{pattern}", f"{what}: {type(e).__name__}: {e}")
    f = compare(r, exp, "getitem", pattern, what)
    return f or ("ok", lo < hi and "-" in s)


# =============================================================================================== unary
def gen_unary(tier, seed):
    hi = 10 if tier == "thorough" else 8
    for s in strings(0, hi):
        yield [s, "nucleic_reversed", None]
        for k in (1, 2, 3):
            yield [s, "mul", k]
        yield [s, "termini_unknown", None]
    if tier == "thorough":
        rnd = random.Random(seed)
        for _ in range(1500):
            L = rnd.randint(11, 30)
            s = "".join("-" if rnd.random() < 0.5 else "x" for _ in range(L))
            yield [s, rnd.choice(("nucleic_reversed", "mul", "termini_unknown")), 3]


def contract_unary(case):
    s, op, k = case
    m = build(s)
    pattern = layout(s)
    try:
        if op == "nucleic_reversed":
            r, exp = m.nucleic_reversed(), s[::-1]
        elif op == "mul":
            r, exp = m * k, "".join(c * k for c in s)
        elif op == "termini_unknown":
            r, exp = m.with_termini_unknown(), s
        else:
            raise ValueError(op)
    except Exception as e:  # noqa: BLE001
        return ("fail", f"{op}/raises/{pattern}", f"{case}: {type(e).__name__}: {e}")
    f = compare(r, exp, op, pattern, f"map({s!r}).{op}({'' if k is None else k})")
    if f:
        return f
    if op == "termini_unknown" and False:
        # (disabled by the reviewer: which gap runs with_termini_unknown marks as terminal is not part of the C08
        # statement -- only that the map still describes the same gapped string, which `compare` above checks)
        rr = runs(s)
        want = []
        for i, (ch, a, b) in enumerate(rr):
            if ch == "-":
                want.append(["?" if i in (0, len(rr) - 1) else "-", b - a])
        got = [["?" if getattr(sp, "terminal", False) else "-", int(sp.length)] for sp in r.spans if sp.lost]
        if got != want:
            bad = [i for i, (g, w) in enumerate(zip(got, want)) if g != w]
            kind = "internal-run-marked-terminal" if bad and want[bad[0]][0] == "-" else "terminal-run-not-marked"
            return ("fail", f"termini_unknown/{kind}/{pattern}",
                    f"map({s!r}).with_termini_unknown(): lost spans {got!r}, the string says {want!r}")
    return ("ok", "-" in s)


# =============================================================================================== binary
def same_len_pairs(lo, hi):
    for L in range(lo, hi + 1):
        ss = ["".join(t) for t in itertools.product("x-", repeat=L)]
        for s1 in ss:
            for s2 in ss:
                yield s1, s2


def gen_add(tier, seed):
    hi = 7 if tier == "thorough" else 6
    ss = list(strings(0, hi))
    for s1 in ss:
        for s2 in ss:
            yield [s1, s2]
    if tier == "thorough":
        rnd = random.Random(seed)
        for _ in range(4000):
            yield ["".join(rnd.choice("x-") for _ in range(rnd.randint(7, 14))),
                   "".join(rnd.choice("x-") for _ in range(rnd.randint(0, 14)))]


def contract_add(case):
    s1, s2 = case
    m1, m2 = build(s1), build(s2)
    pattern = f"junction({s1[-1] if s1 else '^'}|{s2[0] if s2 else '$'})"
    try:
        r = m1 + m2
    except Exception as e:  # noqa: BLE001
        return ("fail", f"add/raises/{pattern}", f"{case}: {type(e).__name__}: {e}")
    f = compare(r, s1 + s2, "add", pattern, f"map({s1!r}) + map({s2!r})")
    return f or ("ok", "-" in s1 + s2)


def merged_string(s1, s2):
    """gaps of both strings inserted before the same residues (and after the last one)"""
    def per_pos(s):
        out, k = [0] * (s.count("x") + 1), 0
        for c in s:
            if c == "x":
                k += 1
            else:
                out[k] += 1
        return out
    g1, g2 = per_pos(s1), per_pos(s2)
    n = len(g1) - 1
    return "".join("-" * (g1[p] + g2[p]) + ("x" if p < n else "") for p in range(n + 1))


def gen_merge(tier, seed):
    hi = 8 if tier == "thorough" else 6
    by_n = {}
    for s in strings(0, hi):
        by_n.setdefault(s.count("x"), []).append(s)
    for n, ss in sorted(by_n.items()):
        for s1 in ss:
            for s2 in ss:
                if len(s1) + len(s2) - n <= hi + 2:
                    for how in ("parse", "direct"):
                        yield [s1, s2, None, how]
                        if len(s1) <= 5 and len(s2) <= 5:
                            yield [s1, s2, n, how]
    if tier == "thorough":
        rnd = random.Random(seed)
        for _ in range(3000):
            n = rnd.randint(3, 12)

            def one():
                out = []
                for p in range(n + 1):
                    out.append("-" * (rnd.randint(1, 3) if rnd.random() < 0.35 else 0))
                    if p < n:
                        out.append("x")
                return "".join(out)
            yield [one(), one(), None, rnd.choice(("parse", "direct"))]


def merge_pattern(s1, s2):
    p1 = {g[0] for g in spec_view(s1)["gap_coordinates"]}
    p2 = {g[0] for g in spec_view(s2)["gap_coordinates"]}
    return ("no-gaps" if not (p1 or p2) else "one-side-ungapped" if not (p1 and p2)
            else "shared-position" if p1 & p2 else "distinct-positions")


def contract_merge(case):
    s1, s2, plen, how = case
    if s1.count("x") != s2.count("x"):
        return ("skip",)
    m1, m2 = build(s1, how), build(s2, how)
    exp = merged_string(s1, s2)
    pattern = f"{how}/{merge_pattern(s1, s2)}"
    if plen is not None and plen != 0:
        pattern += "/explicit-parent_length"
    what = f"map({s1!r}).merge_maps(map({s2!r}){'' if plen is None else ', parent_length=%d' % plen}) [{how}-built]"
    try:
        r = m1.merge_maps(m2) if plen is None else m1.merge_maps(m2, parent_length=plen)
    except Exception as e:  # noqa: BLE001
        return ("fail", f"merge_maps/raises/{pattern}", f"{what}: {type(e).__name__}: {e}")
    f = compare(r, exp, "merge_maps", pattern, what)
    return f or ("ok", "-" in s1 + s2)


def overlap_pattern(s1, s2):
    """how the gap runs of s1 relate to the gap columns of s2"""
    kinds = set()
    for ch, a, b in runs(s1):
        if ch != "-":
            continue
        both = [s2[i] == "-" for i in range(a, b)]
        if not any(both):
            kinds.add("untouched")
        elif all(both):
            kinds.add("covered")
        else:
            pieces = sum(1 for k, g in itertools.groupby(both) if k)
            kinds.add(("start" if both[0] else "") + ("end" if both[-1] else "")
                      + ("mid" if not (both[0] or both[-1]) else "") + ("x%d" % pieces if pieces > 1 else ""))
    return "+".join(sorted(kinds)) or "self-ungapped"


def gen_gapsets(tier, seed):
    hi = 8 if tier == "thorough" else 6
    for s1, s2 in same_len_pairs(0, hi):
        for mode in ("map", "array", "via_shared"):
            yield [s1, s2, "minus", mode]
        for mode in ("map", "array"):
            yield [s1, s2, "shared", mode]
    if tier == "thorough":
        rnd = random.Random(seed)
        for _ in range(4000):
            L = rnd.randint(9, 24)
            s1 = "".join(rnd.choice("x--") for _ in range(L))
            s2 = "".join(rnd.choice("x--") for _ in range(L))
            yield [s1, s2, rnd.choice(("minus", "shared")), rnd.choice(("map", "array"))]


def contract_gapsets(case):
    s1, s2, op, mode = case
    if len(s1) != len(s2):
        return ("skip",)
    m1, m2 = build(s1), build(s2)
    pattern = f"{mode}/{overlap_pattern(s1, s2)}"
    what = f"map({s1!r}).{op}_gaps(map({s2!r}) as {mode})"
    try:
        if mode == "map":
            arg = m2
        elif mode == "array":
            arg = m2.get_gap_align_coordinates()
        else:
            arg = m1.shared_gaps(m2)
        r = m1.minus_gaps(arg) if op == "minus" else m1.shared_gaps(arg)
    except Exception as e:  # noqa: BLE001
        return ("fail", f"{op}_gaps/raises/{pattern}", f"{what}: {type(e).__name__}: {e}")
    both = [i for i in range(len(s1)) if s1[i] == "-" and s2[i] == "-"]
    if op == "minus":
        exp = "".join(c for i, c in enumerate(s1) if not (c == "-" and s2[i] == "-"))
        f = compare(r, exp, "minus_gaps", pattern, what)
        return f or ("ok", bool(both))
    try:
        ivs = [[int(a), int(b)] for a, b in numpy.asarray(r).reshape((-1, 2)).tolist()]
    except Exception as e:  # noqa: BLE001
        return ("fail", f"shared_gaps/shape/{pattern}", f"{what}: returned {r!r} ({type(e).__name__})")
    got = []
    for a, b in ivs:
        if not (0 <= a < b <= len(s1)):
            return ("fail", f"shared_gaps/interval-outside-or-empty/{pattern}", f"{what}: {ivs!r}")
        got.extend(range(a, b))
    if got != both:
        return ("fail", f"shared_gaps/columns/{pattern}",
                f"{what}: intervals {ivs!r} cover columns {got!r}, both strings have a gap at {both!r}")
    return ("ok", bool(both))


def segment_lists(L, kmax):
    """sorted lists of 1..kmax non-empty pairwise disjoint (touching allowed) intervals inside [0, L]"""
    def rec(start, k):
        if k == 0:
            return
        for a in range(start, L):
            for b in range(a + 1, L + 1):
                yield [[a, b]]
                for rest in rec(b, k - 1):
                    yield [[a, b]] + rest
    return rec(0, kmax)


def gen_joined(tier, seed):
    thorough = tier == "thorough"
    for s in strings(1, 7 if thorough else 6):
        L = len(s)
        kmax = 3 if L <= (6 if thorough else 5) else 2
        for segs in segment_lists(L, kmax):
            yield [s, segs]
    if thorough:
        rnd = random.Random(seed)
        for _ in range(4000):
            L = rnd.randint(8, 20)
            s = "".join(rnd.choice("x-") for _ in range(L))
            cuts = sorted(rnd.sample(range(L + 1), min(L + 1, 2 * rnd.randint(1, 4))))
            segs = [[cuts[i], cuts[i + 1]] for i in range(0, len(cuts) - 1, 2)]
            yield [s, segs]


def contract_joined(case):
    s, segs = case
    m = build(s)
    exp = "".join(s[a:b] for a, b in segs)
    joints = sorted({f"{s[segs[i][1] - 1]}|{s[segs[i + 1][0]]}" for i in range(len(segs) - 1)})
    pattern = f"{min(len(segs), 3)}seg/joints({','.join(joints)})"
    what = f"map({s!r}).joined_segments({segs})"
    try:
        r = m.joined_segments([tuple(x) for x in segs])
    except Exception as e:  # noqa: BLE001
        return ("fail", f"joined_segments/raises/{pattern}", f"{what}: {type(e).__name__}: {e}")
    f = compare(r, exp, "joined_segments", pattern, what)
    return f or ("ok", "-" in exp)


# =============================================================================================== chains
def apply_string(s, op):
    k = op[0]
    if k == "slice":
        return s[op[1]:op[2]]
    if k == "rev":
        return s[::-1]
    if k == "mul":
        return "".join(c * op[1] for c in s)
    if k == "add":
        return s + op[1]
    if k == "radd":
        return op[1] + s
    if k == "joined":
        return "".join(s[a:b] for a, b in op[1])
    if k == "minus":
        return "".join(c for i, c in enumerate(s) if not (c == "-" and op[1][i] == "-"))
    if k == "merge":
        return merged_string(s, op[1])
    raise ValueError(op)


def apply_op(m, s, op):
    """(real result, string result) of one operation"""
    k = op[0]
    if k == "slice":
        r = m[op[1]:op[2]]
    elif k == "rev":
        r = m.nucleic_reversed()
    elif k == "mul":
        r = m * op[1]
    elif k == "add":
        r = m + build(op[1])
    elif k == "radd":
        r = build(op[1]) + m
    elif k == "joined":
        r = m.joined_segments([tuple(x) for x in op[1]])
    elif k == "minus":
        r = m.minus_gaps(build(op[1]))
    elif k == "merge":
        r = m.merge_maps(build(op[1]))
    else:
        raise ValueError(op)
    return r, apply_string(s, op)


def site_pattern(prev, op):
    """(site, witness pattern) of one operation applied to the string state `prev`; the same names the
    single-operation contracts use, so that one root cause keeps one key"""
    k = op[0]
    if k == "slice":
        lo, hi, _ = slice(op[1], op[2]).indices(len(prev))
        return "getitem", ("pos/empty-interval" if lo >= hi else f"pos/start({bclass(prev, lo)})stop({bclass(prev, hi)})")
    if k == "add":
        return "add", f"junction({prev[-1] if prev else '^'}|{op[1][0] if op[1] else '$'})"
    if k == "radd":
        return "add", f"junction({op[1][-1] if op[1] else '^'}|{prev[0] if prev else '$'})"
    if k == "joined":
        segs = op[1]
        joints = sorted({f"{prev[segs[i][1] - 1]}|{prev[segs[i + 1][0]]}" for i in range(len(segs) - 1)})
        return "joined_segments", f"{min(len(segs), 3)}seg/joints({','.join(joints)})"
    if k == "minus":
        return "minus_gaps", f"map/{overlap_pattern(prev, op[1])}"
    if k == "merge":
        return "merge_maps", f"parse/{merge_pattern(prev, op[1])}"
    if k == "rev":
        return "nucleic_reversed", layout(prev)
    if k == "mul":
        return "mul", layout(prev)
    raise ValueError(op)


def first_ops(s, thorough):
    L = len(s)
    ops = [["rev"], ["mul", 2]]
    others = ["-", "x", "-x", "x-", "--", "-x-"]
    ops += [["add", t] for t in others] + [["radd", t] for t in others]
    ops += [["slice", a, b] for a in range(L + 1) for b in range(a + 1, L + 1) if (a, b) != (0, L)]
    ops += [["joined", segs] for segs in segment_lists(L, 2) if len(segs) == 2]
    same = ["".join(t) for t in itertools.product("x-", repeat=L)]
    ops += [["minus", t] for t in (same if thorough else same[::3])]
    n = s.count("x")
    ops += [["merge", t] for t in strings(n, n + 2) if t.count("x") == n and t != "x" * n]
    return ops


def second_ops(s):
    L = len(s)
    n = s.count("x")
    ops = [["rev"], ["mul", 2], ["add", "-x"], ["add", "x-"], ["radd", "x-"], ["radd", "-x"]]
    ops += [["slice", a, b] for a in range(L + 1) for b in range(a, L + 1)]
    if L:
        ops += [["minus", "-" * L], ["merge", "x" * n + "-"], ["merge", "-" + "x" * n]]
    if n >= 1:
        ops += [["merge", "x-" + "x" * (n - 1)]]
    if L >= 2:
        ops += [["joined", [[0, a], [b, L]]] for a in range(1, L) for b in range(a, L)]
    return ops


def gen_chain(tier, seed):
    thorough = tier == "thorough"
    for s in strings(1, 5 if thorough else 4):
        firsts = first_ops(s, thorough)
        if not thorough and len(s) == 4:
            firsts = [o for o in firsts if o[0] not in ("joined", "merge")] + \
                     [o for o in firsts if o[0] in ("joined", "merge")][::2]
        for op1 in firsts:
            s1 = apply_string(s, op1)
            for op2 in second_ops(s1):
                yield [s, [op1, op2]]
    if thorough:
        rnd = random.Random(seed)
        for _ in range(4000):
            L = rnd.randint(4, 9)
            s = "".join(rnd.choice("x-") for _ in range(L))
            ops, cur = [], s
            for _d in range(3):
                cands = first_ops(cur, False) if len(cur) <= 7 else second_ops(cur)
                if not cands:
                    break
                op = rnd.choice(cands)
                ops.append(op)
                cur = apply_string(cur, op)
            if ops:
                yield [s, ops]


def contract_chain(case):
    """Only the final map is compared.  A failure that the last operation shows as well on a freshly built map
    gets the key of the single-operation contract; a failure that appears only because an earlier operation left
    a map that itself disagrees with its string is keyed chain/noncanonical-<that operation>><last operation>."""
    s, ops = case
    states = [(build(s), s)]
    names = ">".join("add" if o[0] == "radd" else o[0] for o in ops)

    def noncanonical():
        for j in range(1, len(states)):
            own, _ = diff(states[j][0], states[j][1])
            if own is not None:
                return "add" if ops[j - 1][0] == "radd" else ops[j - 1][0]
        return None

    what = f"map({s!r}) then {ops}"
    for op in ops:
        m, cur = states[-1]
        site, pattern = site_pattern(cur, op)
        try:
            states.append(apply_op(m, cur, op))
        except Exception as e:  # noqa: BLE001
            msg = f"{what}: {type(e).__name__}: {e}"
            try:
                apply_op(build(cur), cur, op)
            except Exception:  # noqa: BLE001 - the operation alone raises on this input: single-operation key
                return ("fail", f"{site}/raises/{pattern}", msg)
            bad = noncanonical()
            opn = "add" if op[0] == "radd" else op[0]
            if bad:
                return ("fail", f"chain/noncanonical-{bad}>{opn}/raises", msg)
            return ("fail", f"chain/{names}/raises/{pattern}", msg)
    (m, cur), prev, op = states[-1], states[-2][1], ops[-1]
    site, pattern = site_pattern(prev, op)
    own, base = diff(m, cur)
    if own is None:
        if base is not None:
            return compare(m, cur, f"chain/{names}", pattern, what)
        return ("ok", "-" in cur)
    name, got, want = own
    if len(ops) > 1:
        try:
            fresh, _ = apply_op(build(prev), prev, op)
            alone = compare(fresh, cur, site, pattern, f"{what} (last operation alone on map({prev!r}))")
        except Exception:  # noqa: BLE001
            alone = None
        if alone is not None and not alone[1].startswith("observe/"):
            return alone
        states.pop()
        bad = noncanonical()
        if bad:
            opn = "add" if op[0] == "radd" else op[0]
            return ("fail", f"chain/noncanonical-{bad}>{opn}/{name}",
                    f"{what}: {name} gives {got!r}, the string {cur!r} says {want!r}; result map {m!r}")
    return ("fail", f"chain/{names}/{name}/{pattern}",
            f"{what}: {name} gives {got!r}, the string {cur!r} says {want!r}; result map {m!r}")


# =============================================================================================== sequences
def lettered(s):
    out, k = [], 0
    for c in s:
        if c == "x":
            out.append(LETTERS[k % len(LETTERS)])
            k += 1
        else:
            out.append("-")
    return "".join(out)


def gen_seq(tier, seed):
    hi = 8 if tier == "thorough" else 6
    for s in strings(0, hi):
        L = len(s)
        yield [s, "roundtrip", None, None]
        yield [s, "rc", None, None]
        for a in range(L + 1):
            for b in range(a, L + 1):
                yield [s, "slice", a, b]
                yield [s, "seq_feature_map", a, b]
    if tier == "thorough":
        rnd = random.Random(seed)
        for _ in range(1500):
            L = rnd.randint(9, 24)
            s = "".join(rnd.choice("x-") for _ in range(L))
            a = rnd.randint(0, L)
            b = rnd.randint(a, L)
            yield [s, rnd.choice(("roundtrip", "rc", "slice", "slice", "seq_feature_map")), a, b]


def contract_seq(case):
    from cogent3 import make_seq
    from cogent3.core.location import FeatureMap, LostSpan, Span
    s, kind, a, b = case
    g = lettered(s)
    seq = make_seq(g, moltype="dna")
    try:
        m, u = seq.parse_out_gaps()
    except Exception as e:  # noqa: BLE001
        return ("fail", f"seq/parse_out_gaps-raises/{layout(s)}", f"{g!r}: {type(e).__name__}: {e}")
    degapped = g.replace("-", "")
    if str(u) != degapped:
        return ("fail", f"seq/parse_out_gaps-ungapped/{layout(s)}", f"{g!r}: ungapped {str(u)!r}")
    before = before_counts(s)
    try:
        if kind == "roundtrip":
            got, exp, pattern = str(u.gapped_by_map(m)), g, layout(s)
        elif kind == "rc":
            got = str(u.rc().gapped_by_map(m.nucleic_reversed()))
            exp, pattern = "".join(DNA_COMP[c] for c in reversed(g)), layout(s)
        elif kind == "slice":
            sub = m[a:b]
            data = u[m.get_seq_index(a):m.get_seq_index(b)]
            got, exp = str(data.gapped_by_map(sub)), g[a:b]
            pattern = "empty-interval" if a == b else f"start({bclass(s, a)})stop({bclass(s, b)})"
        elif kind == "seq_feature_map":
            fm = FeatureMap(spans=[Span(a, b), LostSpan(1)], parent_length=len(s))
            r = m.make_seq_feature_map(fm)
            got = [[int(x), int(y)] for x, y in r.get_coordinates()], int(r.parent_length)
            exp = [[before[a], before[b]]], s.count("x")
            pattern = "empty-interval" if a == b else f"start({bclass(s, a)})stop({bclass(s, b)})"
        else:
            raise ValueError(kind)
    except Exception as e:  # noqa: BLE001
        return ("fail", f"seq/{kind}/raises/{layout(s)}", f"{case} ({g!r}): {type(e).__name__}: {e}")
    if got != exp:
        return ("fail", f"seq/{kind}/{pattern}", f"{case} ({g!r}): got {got!r}, the string says {exp!r}")
    return ("ok", "-" in s)


# =============================================================================================== FeatureMap
def fm_make(P, spans):
    from cogent3.core.location import FeatureMap, LostSpan, Span
    out = []
    for sp in spans:
        if sp[0] == "l":
            out.append(LostSpan(sp[1]))
        else:
            out.append(Span(sp[1], sp[2], reverse=bool(sp[3])))
    return FeatureMap(spans=out, parent_length=P)


def fm_cols(spans):
    """spec: one entry per map position: [parent index, reversed?] or None (lost)"""
    out = []
    for sp in spans:
        if sp[0] == "l":
            out += [None] * sp[1]
        else:
            r = list(range(sp[1], sp[2]))
            if sp[3]:
                r.reverse()
            out += [[p, bool(sp[3])] for p in r]
    return out


def fm_real(fm):
    """real view of a FeatureMap: (columns | error marker, len, parent_length)"""
    try:
        return _fm_real(fm)
    except Exception as e:  # noqa: BLE001
        return ["raises", f"{type(e).__name__}: {e}"[:120]], -1, -1


def _fm_real(fm):
    cols = []
    P = int(fm.parent_length)
    for sp in fm.spans:
        if sp.lost:
            if sp.length < 0:
                return ["negative-lost-span"], len(fm), P
            cols += [None] * int(sp.length)
        else:
            a, b = int(sp.start), int(sp.end)
            if not (0 <= a <= b <= P):
                return ["outside-parent", [a, b], P], len(fm), P
            if int(sp.length) != b - a:
                return ["span-length", [a, b], int(sp.length)], len(fm), P
            cols += [[int(p), bool(sp.reverse)] for p in sp]
    return cols, len(fm), P


def fm_compare(fm, exp_cols, exp_P, site, pattern, what, strand=True):
    cols, n, P = fm_real(fm)
    want = exp_cols
    if not strand:
        cols = [c if c is None or isinstance(c, str) else c[0] for c in cols]
        want = [c if c is None else c[0] for c in exp_cols]
    if cols != want:
        obs = "outside-parent" if cols and cols[0] == "outside-parent" else "positions"
        return ("fail", f"{site}/{obs}/{pattern}", f"{what}: positions {cols!r}, set meaning {want!r}; result {fm!r}")
    if n != len(want):
        return ("fail", f"{site}/len/{pattern}", f"{what}: len {n}, expected {len(want)}; result {fm!r}")
    if P != exp_P:
        return ("fail", f"{site}/parent_length/{pattern}", f"{what}: parent_length {P}, expected {exp_P}")
    return None


def fm_pattern(spans):
    f = []
    if not spans:
        return "no-spans"
    if any(sp[0] == "l" for sp in spans):
        f.append("lost")
    if any(sp[0] == "s" and sp[3] for sp in spans):
        f.append("rev")
    if any(sp[0] == "s" and sp[1] == sp[2] for sp in spans):
        f.append("empty-span")
    real = [sp for sp in spans if sp[0] == "s" and sp[1] < sp[2]]
    if any(real[i][1] > real[i + 1][1] for i in range(len(real) - 1)):
        f.append("unordered")
    if overlapping(spans):
        f.append("overlap")
    return "+".join(f) or "plain"


def overlapping(spans):
    seen = set()
    for sp in spans:
        if sp[0] == "s":
            for p in range(sp[1], sp[2]):
                if p in seen:
                    return True
                seen.add(p)
    return False


def interval_overlap(spans):
    """the notion FeatureMap.inverse documents ("can't work if there are overlaps in the map"): sorted by start, a
    span starts left of the end of an earlier one -- this also counts an empty span lying strictly inside another"""
    real = sorted((sp[1], sp[2]) for sp in spans if sp[0] == "s")
    hi = 0
    for a, b in real:
        if a < hi:
            return True
        hi = max(hi, b)
    return False


def span_universe(P, empties=True):
    out = []
    for a in range(P + 1):
        for b in range(a, P + 1):
            if a == b and not empties:
                continue
            out.append(["s", a, b, False])
            if a < b:
                out.append(["s", a, b, True])
    out += [["l", 1], ["l", 2]]
    return out


def fmaps(P, kmax, empties=True):
    uni = span_universe(P, empties)
    for k in range(kmax + 1):
        for t in itertools.product(uni, repeat=k):
            yield list(t)


FM_OPS = ("inverse", "covered", "shadow", "nucleic_reversed", "structure", "scale", "zeroed")


def gen_fm_unary(tier, seed):
    thorough = tier == "thorough"
    for P in range(0, 5 if thorough else 4):
        for spans in fmaps(P, 3, empties=(P <= 2)):
            for op in FM_OPS:
                yield [P, spans, op]
    if thorough:
        rnd = random.Random(seed)
        for _ in range(5000):
            P = rnd.randint(5, 12)
            spans = []
            for _k in range(rnd.randint(1, 5)):
                if rnd.random() < 0.25:
                    spans.append(["l", rnd.randint(1, 3)])
                else:
                    a = rnd.randint(0, P)
                    b = rnd.randint(a, P)
                    spans.append(["s", a, b, rnd.random() < 0.3])
            yield [P, spans, rnd.choice(FM_OPS)]


def _fm_snapshot(fm):
    return ([(bool(sp.lost), None if sp.lost else int(sp.start), None if sp.lost else int(sp.end),
              None if sp.lost else bool(sp.reverse), int(len(sp))) for sp in fm.spans],
            int(fm.parent_length), int(fm.start), int(fm.end), int(len(fm)))


def contract_fm_unary(case):
    """every operation returns a new map and leaves its receiver as it was"""
    P, spans, op = case
    fm = fm_make(P, spans)
    before = _fm_snapshot(fm)
    res = _contract_fm_unary(case, fm)
    if res[0] == "ok":
        after = _fm_snapshot(fm)
        if after != before:
            return ("fail", f"fm/{op}/receiver-modified/{fm_pattern(spans)}",
                    f"FeatureMap({spans}, parent_length={P}).{op}() changed its receiver: {before} -> {after}")
    return res


def _contract_fm_unary(case, fm):
    P, spans, op = case
    cols = fm_cols(spans)
    pattern = fm_pattern(spans)
    what = f"FeatureMap({spans}, parent_length={P}).{op}()"
    covered = sorted({c[0] for c in cols if c is not None})
    ovl = interval_overlap(spans)
    try:
        if op == "structure":
            f = fm_compare(fm, cols, P, "fm/construct", pattern, what)
            if f:
                return f
            real = [sp for sp in spans if sp[0] == "s"]
            want = [min(sp[1] for sp in real), max(sp[2] for sp in real)] if real else [0, 0]
            got = [int(fm.start), int(fm.end)]
            if got != want:
                return ("fail", f"fm/start-end/{pattern}", f"{what}: start,end {got}, spans say {want}")
            got = [[int(a), int(b)] for a, b in fm.get_coordinates()]
            if got != [[sp[1], sp[2]] for sp in real]:
                return ("fail", f"fm/get_coordinates/{pattern}", f"{what}: {got}")
            g = fm.gaps()
            want_g = [[i, False] for i, c in enumerate(cols) if c is None]
            f = fm_compare(g, want_g, len(cols), "fm/gaps", pattern, what + ".gaps()")
            if f:
                return f
            w = fm.without_gaps()
            f = fm_compare(w, [c for c in cols if c is not None], P, "fm/without_gaps", pattern, what)
            if f:
                return f
            ng = [[int(sp.start), int(sp.end)] for sp in fm.nongap()]
            ng_cols = [i for a, b in ng for i in range(a, b)]
            if ng_cols != [i for i, c in enumerate(cols) if c is not None]:
                return ("fail", f"fm/nongap/{pattern}", f"{what}.nongap(): {ng}")
            return ("ok", bool(spans))
        if op == "scale":
            for k in (2, 3):
                sc = fm * k
                want_sc = []
                for sp in spans:
                    want_sc += fm_cols([["l", sp[1] * k]] if sp[0] == "l" else [["s", sp[1] * k, sp[2] * k, sp[3]]])
                f = fm_compare(sc, want_sc, P * k, "fm/mul", pattern, what + f" * {k}")
                if f:
                    return f
                try:
                    back = sc / k
                except Exception as e:  # noqa: BLE001
                    # FeatureMap division is not among the operations C08 lists for feature maps (inverse, covered,
                    # shadow, reversal, composition): a refusal is tolerated, a wrong result below is not
                    continue
                f = fm_compare(back, cols, P, "fm/mul-div", pattern, what + f" * {k} / {k}")
                if f:
                    return f
            return ("ok", bool(spans))
        if op == "zeroed":
            real = [sp for sp in spans if sp[0] == "s"]
            if not real:
                return ("skip",)
            lo = min(min(sp[1], sp[2]) for sp in real)
            hi = max(max(sp[1], sp[2]) for sp in real)
            z = fm.zeroed()
            want = [None if c is None else [c[0] - lo, c[1]] for c in cols]
            f = fm_compare(z, want, hi - lo, "fm/zeroed", pattern, what)
            return f or ("ok", lo > 0)
        if op == "covered":
            r = fm.covered()
            f = fm_compare(r, [[p, False] for p in covered], P, "fm/covered", pattern, what, strand=False)
            return f or ("ok", bool(covered))
        if op == "nucleic_reversed":
            r = fm.nucleic_reversed()
            want = []
            for sp in reversed(spans):
                if sp[0] == "l":
                    want += [None] * sp[1]
                else:
                    want += [[p, False] for p in range(P - sp[2], P - sp[1])]
            f = fm_compare(r, want, P, "fm/nucleic_reversed", pattern, what, strand=False)
            return f or ("ok", bool(covered))
        if op in ("inverse", "shadow"):
            try:
                r = fm.inverse() if op == "inverse" else fm.shadow()
            except ValueError as e:
                if ovl:
                    return ("ok", False)      # documented: a map with overlaps cannot be inverted
                return ("fail", f"fm/{op}/raises/{pattern}", f"{what}: ValueError: {e}")
            if ovl:
                if op == "inverse":
                    return ("skip",)          # no set-theoretic inverse of a non-injective map
            if op == "shadow":
                want = [[p, False] for p in range(P) if p not in set(covered)]
                f = fm_compare(r, want, P, "fm/shadow", pattern, what, strand=False)
                return f or ("ok", bool(covered))
            want = [None] * P
            for j, c in enumerate(cols):
                if c is not None:
                    want[c[0]] = [j, c[1]]
            f = fm_compare(r, want, len(cols), "fm/inverse", pattern, what)
            if f:
                return f
            rr = r.inverse()
            f = fm_compare(rr, cols, P, "fm/inverse-inverse", pattern, what + ".inverse()")
            return f or ("ok", bool(covered))
    except Exception as e:  # noqa: BLE001
        return ("fail", f"fm/{op}/raises/{pattern}", f"{what}: {type(e).__name__}: {e}")
    raise ValueError(op)


def gen_fm_getitem(tier, seed):
    thorough = tier == "thorough"
    for P in range(0, 5 if thorough else 4):
        for spans in fmaps(P, 2, empties=(P <= 3)):
            n = len(fm_cols(spans))
            for a in [None] + list(range(-n - 1, n + 2)):
                for b in [None] + list(range(-n - 1, n + 2)):
                    yield [P, spans, ["slice", a, b]]
            for i in range(-n - 1, n + 1):
                yield [P, spans, ["int", i]]
            for a in range(-2, n + 3):
                for b in range(a, n + 3):
                    yield [P, spans, ["remap", a, b, False]]
                    if a < b:
                        yield [P, spans, ["remap", a, b, True]]
            sub = span_universe(n, empties=False)[:-2]
            for x in sub:
                yield [P, spans, ["map", [x]]]
            if n <= 4 or thorough:
                for x in sub:
                    for y in sub + [["l", 1]]:
                        yield [P, spans, ["map", [x, y]]]
            for a in range(n + 1):
                for b in range(a, n + 1):
                    yield [P, spans, ["list", [[0, a], [b, n]]]]
    if thorough:
        rnd = random.Random(seed)
        for _ in range(6000):
            P = rnd.randint(4, 10)
            spans = []
            for _k in range(rnd.randint(1, 4)):
                if rnd.random() < 0.25:
                    spans.append(["l", rnd.randint(1, 3)])
                else:
                    a = rnd.randint(0, P)
                    b = rnd.randint(a, P)
                    spans.append(["s", a, b, rnd.random() < 0.3])
            n = len(fm_cols(spans))
            sub = []
            for _k in range(rnd.randint(1, 3)):
                a = rnd.randint(0, n)
                b = rnd.randint(a, n)
                sub.append(["s", a, b, rnd.random() < 0.3])
            yield [P, spans, rnd.choice((["map", sub], ["slice", sub[0][1], sub[0][2]]))]


def compose(cols, idx):
    out = []
    for e in idx:
        if e is None or not (0 <= e[0] < len(cols)) or cols[e[0]] is None:
            out.append(None)
        else:
            c = cols[e[0]]
            out.append([c[0], bool(c[1]) != bool(e[1])])
    return out


def contract_fm_getitem(case):
    from cogent3.core.location import Span
    P, spans, idx = case
    fm = fm_make(P, spans)
    cols = fm_cols(spans)
    n = len(cols)
    pattern = fm_pattern(spans)
    kind = idx[0]
    what = f"FeatureMap({spans}, parent_length={P})[{idx}]"
    try:
        if kind == "slice":
            a, b = idx[1], idx[2]
            lo, hi, _ = slice(a, b).indices(n)
            want = cols[a:b]
            r = fm[a:b]
            site = "fm/getitem-slice"
            pattern += "/empty-interval" if lo >= hi else ""
        elif kind == "int":
            i = idx[1]
            if not (-n <= i < n):
                try:
                    fm[i]
                except Exception:  # noqa: BLE001 - out of range: any refusal is fine
                    return ("ok", False)
                return ("fail", f"fm/getitem-int/out-of-range-accepted/{pattern}", f"{what}: no exception, len {n}")
            want = [cols[i]]
            r = fm[i]
            site = "fm/getitem-int" + ("-negative" if i < 0 else "")
        elif kind == "map":
            sub = idx[1]
            want = compose(cols, fm_cols(sub))
            r = fm[fm_make(n, sub)]
            site = "fm/getitem-map"
            pattern += "/by-" + fm_pattern(sub)
        elif kind == "list":
            want = []
            for a, b in idx[1]:
                want += cols[a:b]
            r = fm[[slice(a, b) for a, b in idx[1]]]
            site = "fm/getitem-list"
        elif kind == "remap":
            a, b, rev = idx[1], idx[2], idx[3]
            if not spans:
                return ("skip",)       # Span.remap_with needs a map with at least one span
            if b < 0 or a > n:
                return ("skip",)       # a span that does not even touch the map is no sub-location of it
            js = list(range(a, b))
            if rev:
                js.reverse()
            want = compose(cols, [[j, rev] for j in js])
            parts = Span(a, b, reverse=rev).remap_with(fm)
            r = fm.__class__(spans=parts, parent_length=P)
            site = "fm/remap_with"
            where = ("inside" if 0 <= a and b <= n else "overhang-both" if a < 0 and b > n
                     else "overhang-start" if a < 0 else "overhang-end")
            pattern += f"/{where}{'/rev' if rev else ''}"
        else:
            raise ValueError(kind)
    except Exception as e:  # noqa: BLE001
        return ("fail", f"fm/getitem-{kind}/raises/{pattern}", f"{what}: {type(e).__name__}: {e}")
    f = fm_compare(r, want, P, site, pattern, what)
    return f or ("ok", bool(want))


def gen_fm_misc(tier, seed):
    thorough = tier == "thorough"
    for P in range(0, 6 if thorough else 5):
        # from_locations: sorted, start <= end, start <= P; an end beyond the parent is truncated (documented)
        locs1 = [[a, b] for a in range(P + 1) for b in range(a, P + 3)]
        for x in locs1:
            yield [P, "from_locations", [x]]
        for x in locs1:
            for y in locs1:
                if y[0] >= x[1]:
                    yield [P, "from_locations", [x, y]]
        for s1 in fmaps(P, 1):
            for s2 in fmaps(P, 2 if P <= 3 else 1):
                yield [P, "add", [s1, s2]]


def contract_fm_misc(case):
    from cogent3.core.location import FeatureMap
    P, op, arg = case
    if op == "from_locations":
        what = f"FeatureMap.from_locations({arg}, parent_length={P})"
        want = []
        for a, b in arg:
            want += [[p, False] if p < P else None for p in range(a, b)]
        beyond = any(b > P for a, b in arg)
        pattern = ("end-beyond-parent" if beyond else "inside") + f"/{len(arg)}loc"
        try:
            r = FeatureMap.from_locations(locations=[tuple(x) for x in arg], parent_length=P)
        except Exception as e:  # noqa: BLE001
            return ("fail", f"fm/from_locations/raises/{pattern}", f"{what}: {type(e).__name__}: {e}")
        f = fm_compare(r, want, P, "fm/from_locations", pattern, what)
        return f or ("ok", bool(want))
    if op == "add":
        s1, s2 = arg
        what = f"FeatureMap({s1}) + FeatureMap({s2}) on parent {P}"
        try:
            r = fm_make(P, s1) + fm_make(P, s2)
        except Exception as e:  # noqa: BLE001
            return ("fail", "fm/add/raises", f"{what}: {type(e).__name__}: {e}")
        f = fm_compare(r, fm_cols(s1) + fm_cols(s2), P, "fm/add", fm_pattern(s1 + s2), what)
        return f or ("ok", bool(s1 or s2))
    raise ValueError(op)


# =============================================================================================== table
_IM = "cogent3.core.location.IndelMap."
# ================================================================================================ long maps (dtype boundaries)
LONG_LAYOUTS = [
    [["x", 40000], ["-", 5], ["x", 30000], ["-", 7], ["x", 3]],
    [["-", 3], ["x", 32766], ["-", 2], ["x", 2], ["-", 40000], ["x", 32770], ["-", 4]],
    [["x", 65534], ["-", 3], ["x", 1], ["-", 65540], ["x", 5]],
    [["x", 2], ["-", 70000], ["x", 70000], ["-", 1], ["x", 1]],
]


def gen_long(tier, seed):
    for k, _ in enumerate(LONG_LAYOUTS):
        for how in ("direct", "parse"):
            yield [k, how]


def contract_long(case):
    """gap bookkeeping far beyond 2**15 / 2**16 positions: coordinates, lengths, index conversions at the run boundaries,
    one slice and the reversal, against run-length arithmetic"""
    k, how = case
    runs_ = LONG_LAYOUTS[k]
    col = 0
    seqpos = 0
    gaps_seq, gaps_aln, probes = [], [], []
    for ch, n in runs_:
        if ch == "-":
            gaps_seq.append([seqpos, n])
            gaps_aln.append([col, col + n])
            probes += [(col, None), (col + n - 1, None)]
        else:
            probes += [(col, seqpos), (col + n - 1, seqpos + n - 1)]
            seqpos += n
        col += n
    L, P = col, seqpos
    site = f"long/{how}"
    try:
        if how == "parse":
            from cogent3 import make_seq
            m = make_seq("".join(("A" if ch == "x" else "-") * n for ch, n in runs_), moltype="dna").parse_out_gaps()[0]
        else:
            from cogent3.core.location import IndelMap
            m = IndelMap(gap_pos=numpy.array([g[0] for g in gaps_seq], dtype=int),
                         cum_gap_lengths=numpy.array([g[1] for g in gaps_seq], dtype=int).cumsum(), parent_length=P)
        if len(m) != L or int(m.parent_length) != P:
            return ("fail", f"{site}/len", f"{case}: len {len(m)} parent_length {m.parent_length}; the string has {L} columns, {P} residues")
        gc = [[int(a), int(b)] for a, b in m.get_gap_coordinates()]
        if gc != gaps_seq:
            return ("fail", f"{site}/gap_coordinates", f"{case}: {gc}, the string has {gaps_seq}")
        ga = [[int(a), int(b)] for a, b in m.get_gap_align_coordinates()]
        if ga != gaps_aln:
            return ("fail", f"{site}/gap_align_coordinates", f"{case}: {ga}, the string has {gaps_aln}")
        for c, sp in probes:
            if sp is not None:
                if int(m.get_seq_index(c)) != sp:
                    return ("fail", f"{site}/seq_index", f"{case}: column {c} holds residue {sp}, get_seq_index gives {m.get_seq_index(c)}")
                if int(m.get_align_index(sp)) != c:
                    return ("fail", f"{site}/align_index", f"{case}: residue {sp} is in column {c}, get_align_index gives {m.get_align_index(sp)}")
        # a slice across the last run boundaries
        a, b = max(0, L - 70010), L - 1
        sl = m[a:b]
        want = [[max(x, a) - a, min(y, b) - a] for x, y in gaps_aln if min(y, b) > max(x, a)]
        got = [[int(x), int(y)] for x, y in sl.get_gap_align_coordinates()]
        if len(sl) != b - a or got != want:
            return ("fail", f"{site}/slice", f"{case}: m[{a}:{b}] has len {len(sl)} gaps {got}; the string slice has len {b - a} gaps {want}")
        rv = m.nucleic_reversed()
        want = sorted([[L - y, L - x] for x, y in gaps_aln])
        got = [[int(x), int(y)] for x, y in rv.get_gap_align_coordinates()]
        if len(rv) != L or got != want:
            return ("fail", f"{site}/nucleic_reversed", f"{case}: gaps {got}; the reversed string has {want}")
    except Exception as e:
        return ("fail", f"{site}/raises-{type(e).__name__}", f"{case}: {type(e).__name__}: {str(e)[:200]}")
    return ("ok", True)


BOUNDED = {
    "long_maps": {
        "gen": gen_long, "contract": contract_long,
        "functions": ["IndelMap.__post_init__ / from gapped string (parse_out_gaps)", "get_gap_coordinates", "get_gap_align_coordinates",
                      "get_seq_index", "get_align_index", "__getitem__(slice)", "nucleic_reversed"],
        "bound": "4 layouts of 65 000 - 140 000 columns with gap runs and residues on both sides of 2**15 and 2**16, built from the "
                 "gapped string and from coordinate arrays",
        "rule": "lengths, gap coordinates (sequence and alignment), index conversions at every run boundary, one long slice and the "
                "reversal agree with run-length arithmetic on the string",
        "shards": 4,
    },
    "observe": {
        "gen": gen_observe, "contract": contract_observe,
        "functions": ["cogent3.core.sequence.Sequence.parse_out_gaps", _IM + "__len__", _IM + "spans",
                      _IM + "get_gap_coordinates", _IM + "get_gap_align_coordinates", _IM + "get_gap_lengths",
                      _IM + "nongap", _IM + "get_coordinates", _IM + "get_seq_index", _IM + "get_align_index",
                      _IM + "to_feature_map", "cogent3.core.location.FeatureMap.inverse"],
        "bound": "all strings over {x,-} of length 0..9 (thorough 0..12) + 1500 seeded random strings of length "
                 "13..40; every column / residue index incl. negative ones and the slice_stop variant",
        "rule": "a case = one gapped string; the whole view (17 observers) is compared with counts on the string; "
                "non-trivial when the string has a gap",
    },
    "construct": {
        "gen": gen_construct, "contract": contract_construct,
        "functions": [_IM + "from_aligned_segments", "cogent3.core.location.gap_coords_to_map", _IM + "from_spans",
                      _IM + "__post_init__", _IM + "from_rich_dict", _IM + "to_rich_dict", _IM + "to_json"],
        "bound": "all strings of length 0..8 (thorough 0..10) x 7 ways of building the map from the runs of the string",
        "rule": "a case = (string, builder); whole view compared; non-trivial when the string has a gap",
    },
    "getitem": {
        "gen": gen_getitem, "contract": contract_getitem,
        "functions": [_IM + "__getitem__ (slice and int)"],
        "bound": "all strings of length 0..8 (thorough 0..10) x every interval 0<=a<=b<=L; for length <=5 (thorough "
                 "<=7) every a,b in [-L,L]+None (incl. reverse = empty intervals); every int index in [-L,L); 8 "
                 "argument pairs outside [-L,L] (Python clamping or any exception accepted); thorough: 6000 seeded "
                 "random (string of length 11..30, a, b)",
        "rule": "a case = (string, kind, a, b); expected = view of s[a:b]; non-trivial when the interval is not empty "
                "and the string has a gap; key pattern = neighbouring symbols at the two cut points",
    },
    "unary": {
        "gen": gen_unary, "contract": contract_unary,
        "functions": [_IM + "nucleic_reversed", _IM + "__mul__", _IM + "with_termini_unknown"],
        "bound": "all strings of length 0..8 (thorough 0..10) x {reverse, scale by 1,2,3, termini unknown}; thorough: "
                 "1500 seeded random strings of length 11..30",
        "rule": "expected = view of the reversed / column-repeated string; with_termini_unknown keeps the view and "
                "marks exactly the leading and trailing gap runs as terminal",
    },
    "add": {
        "gen": gen_add, "contract": contract_add,
        "functions": [_IM + "__add__"],
        "bound": "all ordered pairs of strings of length 0..6 (thorough 0..7; 16129 / 65025 pairs) + thorough 4000 "
                 "seeded random pairs up to length 14",
        "rule": "expected = view of s1+s2; key pattern = the two symbols at the junction",
    },
    "merge": {
        "gen": gen_merge, "contract": contract_merge,
        "functions": [_IM + "merge_maps", "cogent3.core.location._update_lengths"],
        "bound": "all ordered pairs of strings of length 0..6 (thorough 0..8) with the same number of residues and "
                 "merged length <= bound+2, maps built by parse_out_gaps and by the IndelMap constructor, with parent_length "
                 "omitted and (length<=5) given explicitly; thorough 3000 "
                 "seeded random pairs with 3..12 residues",
        "rule": "expected = string with the gaps of both inserted before the same residue",
    },
    "gapsets": {
        "gen": gen_gapsets, "contract": contract_gapsets,
        "functions": [_IM + "minus_gaps", _IM + "shared_gaps", "cogent3.core.location.coords_minus_coords",
                      "cogent3.core.location.coords_intersect", "cogent3.core.location.span_and_span"],
        "bound": "all ordered pairs of equal-length strings of length 0..6 (thorough 0..8; 5461 / 87381 pairs) x "
                 "argument given as map / array / result of shared_gaps; thorough 4000 seeded random pairs of length 9..24",
        "rule": "minus: expected = view of s1 with the columns deleted where both have a gap; shared: the returned "
                "intervals cover exactly the columns where both have a gap, inside [0,L]",
    },
    "joined": {
        "gen": gen_joined, "contract": contract_joined,
        "functions": [_IM + "joined_segments"],
        "bound": "all strings of length 1..6 (thorough 1..7) x all sorted lists of 1..3 (2 for the longest) non-empty "
                 "disjoint intervals; thorough 4000 seeded random (string up to 20, up to 4 segments)",
        "rule": "expected = view of the concatenated slices; key pattern = symbols on both sides of each joint",
    },
    "chain": {
        "gen": gen_chain, "contract": contract_chain,
        "functions": [_IM + "__getitem__", _IM + "__add__", _IM + "__mul__", _IM + "nucleic_reversed",
                      _IM + "joined_segments", _IM + "minus_gaps", _IM + "merge_maps"],
        "bound": "all strings of length 1..4 (thorough 1..5) x every first operation (slice, reverse, x2, add/radd of 6 "
                 "strings, 2-segment joins, minus every (quick: every third) equal-length string, merges; quick, length "
                 "4: every second join/merge) x every second operation from a reduced set; thorough 4000 seeded random "
                 "depth-3 chains",
        "rule": "only the final map is compared (an intermediate may be a non-canonical representation); a failure the "
                "last operation also shows on a freshly built map gets the single-operation key, a failure caused by an "
                "intermediate map that disagrees with its own string is keyed chain/noncanonical-<op>><last op>/<observer>",
    },
    "seq": {
        "gen": gen_seq, "contract": contract_seq,
        "functions": ["cogent3.core.sequence.Sequence.parse_out_gaps", "cogent3.core.sequence.Sequence.gapped_by_map",
                      "cogent3.core.sequence.Sequence.gapped_by_map_segment_iter", _IM + "make_seq_feature_map",
                      _IM + "nucleic_reversed", _IM + "__getitem__", _IM + "get_seq_index"],
        "bound": "all gap layouts of length 0..6 (thorough 0..8) with distinct residue letters x {round trip, reverse "
                 "complement, every interval slice re-gapped through the sliced map, interval -> sequence feature map}; "
                 "thorough 1500 seeded random cases on strings of length 9..24",
        "rule": "expected = the (sliced / reverse-complemented) gapped string itself",
    },
    "fm_unary": {
        "gen": gen_fm_unary, "contract": contract_fm_unary,
        "functions": ["cogent3.core.location.FeatureMap." + n for n in
                      ("inverse", "covered", "shadow", "nucleic_reversed", "gaps", "nongap", "without_gaps", "__mul__",
                       "__truediv__", "get_coordinates", "start", "end", "__post_init__")],
        "bound": "parent length 0..3 (thorough 0..4) x every list of <=3 spans out of all "
                 "forward/reverse spans (parent <=2: also empty spans) inside the parent and lost spans of length 1,2 "
                 "(overlapping and unordered lists included) x {inverse, covered, shadow, nucleic_reversed, structure "
                 "observers, scale by 2 and 3 and back}; thorough 5000 seeded random maps on parents 5..12",
        "rule": "map = list of (parent index, strand)|lost per position; inverse = the inverse partial function (only "
                "for maps without overlaps; ValueError accepted when a span starts inside an earlier one), inverse "
                "twice = the map; covered = sorted "
                "set of positions; shadow = sorted complement; nucleic_reversed = spans mirrored p -> P-p in reverse order",
    },
    "fm_getitem": {
        "gen": gen_fm_getitem, "contract": contract_fm_getitem,
        "functions": ["cogent3.core.location.FeatureMap.__getitem__", "cogent3.core.location.Span.remap_with",
                      "cogent3.core.location.as_map", "cogent3.core.location._norm_slice",
                      "cogent3.core.location.Span.__getitem__", "cogent3.core.location._LostSpan.__getitem__"],
        "bound": "parent length 0..3 (thorough 0..4) x every map of <=2 spans x {every slice a,b in [-n-1,n+1]+None, every "
                 "int in [-n-1,n], every forward/reverse Span in [-2,n+2] that at least touches the map through remap_with, "
                 "every 1-span and (n<=4) "
                 "2-span feature map on the map, lists of two slices}; thorough 6000 seeded random compositions",
        "rule": "expected = composition of the two position lists (strand flags xor-ed); coordinates inside the parent",
    },
    "fm_misc": {
        "gen": gen_fm_misc, "contract": contract_fm_misc,
        "functions": ["cogent3.core.location.FeatureMap.from_locations", "cogent3.core.location._spans_from_locations",
                      "cogent3.core.location.FeatureMap.__add__"],
        "bound": "parent length 0..4 (thorough 0..5): every sorted list of 1-2 locations with start<=P, end<=P+2; every "
                 "pair of maps (<=1 span + <=2 spans) for +",
        "rule": "from_locations: positions beyond the parent are lost (documented truncation); add = concatenation",
    },
}
