"""Bounded run-time contracts for C06 (format round-trips, parser agreement, line streaming; stand-in tier,
never counted as proved).

Contract text
  roundtrip : for a collection/alignment x made from plain {name: sequence} data,
              load(write(x, "file.<fmt>[.<cmp>]")) has the same names (PHYLIP/PAML: the name or a prefix of it of
              at least 9 characters), the same order and the same sequences as the plain data.
  parsers   : for a well-formed text written by the independent spec writers of this module, every parser
              variant of the format returns exactly the spec records (labels verbatim, sequence up to letter
              case) and all variants return identical records (including letter case).
  splitlines: list(iter_splitlines(file, chunk_size=c)) equals the list of lines the file was built from, for
              every chunk size c in 1..len+1 and None, and the line-based parser fed from that stream returns
              the spec records.

The expected values never come from cogent3: they are the plain lists of names/strings a case is built from.
"""
from __future__ import annotations

import bz2
import gzip
import os
import pathlib
import random
import tempfile
import zipfile

# ------------------------------------------------------------------------------------------------ domain
KINDS = ["array", "aln", "coll", "newcoll"]          # ArrayAlignment, Alignment, SequenceCollection (old, new)
FMTS = ["fasta", "phylip", "paml", "gde", "json"]
FASTA_SUFFIXES = ["fasta", "fa", "mfa"]
ALL_SUFFIXES = ["fasta", "fa", "mfa", "phylip", "paml", "gde", "json"]
CMPS = ["", "gz", "bz2", "zip"]
MOLTYPES = ["dna", "rna", "protein"]
LENS = [0, 1, 2, 3, 4, 5, 6, 7, 8, 59, 60, 61, 119, 120, 121, 180, 181]

# printable ASCII, no leading/trailing blank (every one of these formats pads/strips the ends of a label line,
# PHYLIP pads names with blanks by definition, so edge blanks are not representable)
NAMES = ["a", "s1", "seq 1", "a  b", "a|b", "c>d", ">x", "x>", "#c", "%p", "nine_char", "ten__chars",
         "eleven_char", "a,b;c:(d)", "[x]'q'\"", "12", "2 8", "a\\b", "a=b", "~", "s.1", "x_y-z",
         "gi|123|ref|NM_1.1| Homo sapiens", "A" * 30, "abcdefgh ijk", "ACGT", "Seq_No-2"]

PATTERN = {"dna": "ACGTTGCANRY-?ACGGT-CA", "rna": "ACGUUGCANRY-?ACGGU-CA", "protein": "MKVLQ-ACDEFGHIKNPRSTWYBXZ?"}
PRINTABLE = "".join(chr(c) for c in range(33, 127))


def family(fmt):
    return "fasta" if fmt in FASTA_SUFFIXES else fmt


def seq_for(mt, i, L):
    pat = PATTERN[mt]
    return (pat * (L // len(pat) + 2))[i * 3:i * 3 + L]


def rand_name(rnd, maxlen=14):
    n = rnd.randint(1, maxlen)
    chars = [rnd.choice(PRINTABLE) for _ in range(n)]
    for j in range(1, n - 1):
        if rnd.random() < 0.1:
            chars[j] = " "
    return "".join(chars)


def rand_seq(rnd, mt, L):
    pat = PATTERN[mt]
    return "".join(rnd.choice(pat) for _ in range(L))


# ------------------------------------------------------------------------------------------------ helpers
def write_bytes(path, data, cmp_):
    """independent writer of a (compressed) file"""
    if cmp_ == "":
        with open(path, "wb") as f:
            f.write(data)
    elif cmp_ == "gz":
        with gzip.open(path, "wb") as f:
            f.write(data)
    elif cmp_ == "bz2":
        with bz2.open(path, "wb") as f:
            f.write(data)
    elif cmp_ == "zip":
        member = os.path.basename(path)[:-len(".zip")]
        with zipfile.ZipFile(path, "w") as z:
            z.writestr(member, data)
    else:
        raise ValueError(cmp_)


def name_class(n):
    for ch, tag in ((">", "name-contains->"), ("#", "name-contains-#"), ("%", "name-contains-%")):
        if ch in n:
            return tag
    if len(n) > 10:
        return "name-longer-than-10"
    if len(n) == 10:
        return "name-of-10"
    if " " in n:
        return "name-with-blank"
    if n.isdigit():
        return "name-of-digits"
    if n.isalnum() or n.replace("_", "").isalnum():
        return "name-alnum"
    return "name-punctuation"


def trunc_ok(orig, got):
    """documented truncation, read permissively: the name itself or a prefix of >= 9 characters (the blank that
    a cut may leave at the end is padding)"""
    if got == orig:
        return True
    return any(orig[:k].rstrip() == got for k in range(9, len(orig)))


# ------------------------------------------------------------------------------------------------ roundtrip
def make_container(kind, data, mt):
    from cogent3 import make_aligned_seqs, make_unaligned_seqs
    if kind == "array":
        return make_aligned_seqs(data, moltype=mt, array_align=True)
    if kind == "aln":
        return make_aligned_seqs(data, moltype=mt, array_align=False)
    if kind == "coll":
        return make_unaligned_seqs(data, moltype=mt)
    if kind == "newcoll":
        return make_unaligned_seqs(data, moltype=mt, new_type=True)
    raise ValueError(kind)


def load_container(kind, path, mt):
    from cogent3 import load_aligned_seqs, load_unaligned_seqs
    if kind == "array":
        return load_aligned_seqs(path, moltype=mt, array_align=True)
    if kind == "aln":
        return load_aligned_seqs(path, moltype=mt, array_align=False)
    if kind == "coll":
        return load_unaligned_seqs(path, moltype=mt)
    if kind == "newcoll":
        return load_unaligned_seqs(path, moltype=mt, new_type=True)
    raise ValueError(kind)


def view(c):
    d = c.to_dict()
    return [[str(n), str(d[n])] for n in c.names]


def gen_roundtrip(tier, seed):
    rnd = random.Random(seed)
    thorough = tier == "thorough"
    seen = set()

    def emit(kind, mt, fmt, cmp_, names, lengths):
        seqs = [seq_for(mt, i, L) for i, L in enumerate(lengths)]
        case = [kind, mt, fmt, cmp_, list(names), seqs]
        k = repr(case)
        if k in seen:
            return None
        seen.add(k)
        return case

    def ok_kind(kind, lengths):
        return kind in ("coll", "newcoll") or len(set(lengths)) == 1

    out = []
    # A: every name of the corpus, first and second position
    for kind in KINDS:
        for fmt in FMTS:
            for nm in NAMES:
                for names in ([nm, "zz"], ["zz", nm]):
                    for L in (7, 61):
                        out.append(emit(kind, "dna", fmt, "", names, [L, L]))
    # B: every length of the bound, 1..3 sequences (order is not sorted order)
    for kind in KINDS:
        for fmt in FMTS:
            for L in LENS:
                for names in (["only"], ["zz", "a b"], ["s3", "s1", "s2"]):
                    out.append(emit(kind, "dna", fmt, "", names, [L] * len(names)))
    # C: suffix x compression
    for kind in KINDS:
        for fmt in ALL_SUFFIXES:
            for cmp_ in CMPS:
                for L in (0, 1, 61):
                    for names in (["s1", "seq 2"], ["c>d", "a|b"]):
                        out.append(emit(kind, "dna", fmt, cmp_, names, [L, L]))
    # D: moltypes
    for kind in KINDS:
        for fmt in FMTS:
            for mt in MOLTYPES:
                for L in (9, 61, 121):
                    out.append(emit(kind, mt, fmt, "", ["t2", "t1"], [L, L]))
    # E: ragged collections (formats that carry one length per record)
    for kind in ("coll", "newcoll"):
        for fmt in ("fasta", "gde", "json"):
            for L1 in (0, 1, 59, 60, 61, 121):
                for L2 in (0, 1, 59, 60, 61, 121):
                    out.append(emit(kind, "dna", fmt, "", ["r1", "r2"], [L1, L2]))
    if thorough:
        pairs = [[nm, "zz"] for nm in NAMES] + [["s3", "s1", "s2"], ["only"], ["zz", "ten__chars", "c>d"]]
        for kind in KINDS:
            for fmt in ALL_SUFFIXES:
                for cmp_ in CMPS:
                    for mt in MOLTYPES:
                        for names in pairs:
                            for L in LENS:
                                if fmt in ("fa", "mfa") and (L not in (0, 1, 60, 61) or mt != "dna"):
                                    continue
                                if cmp_ and L not in (0, 1, 8, 60, 61, 121):
                                    continue
                                if mt != "dna" and L not in (0, 1, 8, 60, 61, 121):
                                    continue
                                out.append(emit(kind, mt, fmt, cmp_, names, [L] * len(names)))
    for c in out:
        if c is not None:
            yield c
    # seeded random sample beyond the frontier
    nrand = 20000 if thorough else 600
    for _ in range(nrand):
        kind = rnd.choice(KINDS)
        mt = rnd.choice(MOLTYPES)
        fmt = rnd.choice(ALL_SUFFIXES)
        cmp_ = rnd.choice(CMPS)
        n = rnd.randint(1, 5)
        names = []
        while len(names) < n:
            nm = rand_name(rnd, rnd.choice((4, 9, 10, 11, 20)))
            if nm not in names:
                names.append(nm)
        ragged = kind in ("coll", "newcoll") and family(fmt) in ("fasta", "gde", "json") and rnd.random() < 0.4
        L = rnd.choice((rnd.randint(0, 10), rnd.randint(55, 65), rnd.randint(115, 125), rnd.randint(0, 400)))
        lengths = [rnd.randint(0, 130) if ragged else L for _ in names]
        seqs = [rand_seq(rnd, mt, x) for x in lengths]
        yield [kind, mt, fmt, cmp_, names, seqs]


def rt_eval(case):
    """("skip",) | ("ok", nontrivial) | ("fail", signature, message)"""
    kind, mt, fmt, cmp_, names, seqs = case
    fam = family(fmt)
    lengths = [len(s) for s in seqs]
    # ---- precondition
    if not names or len(set(names)) != len(names) or any(n != n.strip() or not n for n in names):
        return ("skip",)
    if kind in ("array", "aln") and len(set(lengths)) > 1:
        return ("skip",)
    if fam in ("phylip", "paml"):
        if len(set(lengths)) > 1:            # one length in the header: a ragged collection is not expressible
            return ("skip",)
        if len({n[:9].rstrip() for n in names}) != len(names):   # truncated names would collide
            return ("skip",)
    data = dict(zip(names, seqs))
    spec = [[n, s] for n, s in zip(names, seqs)]
    try:
        c = make_container(kind, data, mt)
        if view(c) != spec:
            return ("skip",)                  # the container does not hold the plain data (not this property)
    except Exception:
        return ("skip",)
    suffix = fmt + ("." + cmp_ if cmp_ else "")
    with tempfile.TemporaryDirectory() as d:
        path = os.path.join(d, "x." + suffix)
        try:
            c.write(path)
        except Exception as e:
            return ("fail", f"write raises {type(e).__name__}",
                    f"write({'x.' + suffix!r}) raised {type(e).__name__}: {str(e)[:160]}")
        if not os.path.exists(path):
            return ("fail", "write leaves no file", f"no file {'x.' + suffix!r} after write")
        try:
            back = load_container(kind, path, mt)
            got = view(back)
        except Exception as e:
            return ("fail", f"load raises {type(e).__name__}",
                    f"the written file {'x.' + suffix!r} loads with {type(e).__name__}: {str(e)[:160]}")
        leftovers = [f for f in os.listdir(d) if f != "x." + suffix]
    if leftovers:
        return ("fail", "write leaves extra files", f"{leftovers}")
    if len(got) != len(spec):
        return ("fail", "record count", f"wrote {len(spec)} records, loaded {len(got)}: {got[:3]}")
    permissive = fam in ("phylip", "paml")
    for (n, s), (gn, gs) in zip(spec, got):
        name_ok = trunc_ok(n, gn) if permissive else n == gn
        if not name_ok:
            rest = [x[0] for x in got]
            for n2 in names:                  # the same names in another order?
                hit = next((g for g in rest if (trunc_ok(n2, g) if permissive else n2 == g)), None)
                if hit is None:
                    break
                rest.remove(hit)
            else:
                return ("fail", "order", f"order written {names}, loaded {[x[0] for x in got]}")
            return ("fail", "names", f"name {n!r} came back as {gn!r} (all: {[x[0] for x in got]})")
    for (n, s), (gn, gs) in zip(spec, got):
        if s != gs:
            return ("fail", "seqs", f"sequence of {n!r} written {s!r}, loaded {gs!r}")
    return ("ok", max(lengths) > 0)


def shrink_records(names, seqs, mt):
    """simpler (names, seqs) candidates; a non-empty sequence is never made empty"""
    n = len(names)
    if n > 1:
        for i in range(n):
            yield [names[i]], [seqs[i]]
        if n > 2:
            yield names[:2], seqs[:2]
    if any(len(s) == 0 for s in seqs):       # is the empty sequence needed for the failure?
        yield names, [s or seq_for(mt, i, 1) for i, s in enumerate(seqs)]
    plain = [f"n{i}" for i in range(n)]
    yield plain, seqs
    for i in range(n):
        if names[i] != plain[i] and plain[i] not in names:
            yield names[:i] + [plain[i]] + names[i + 1:], seqs
    for i in range(n):                       # same length but alphanumeric; then shorter
        for cand in (plain[i] + "x" * (len(names[i]) - len(plain[i])), names[i][:11].rstrip(), names[i][:10].rstrip()):
            if cand and cand != names[i] and len(cand) <= len(names[i]) and cand not in names:
                yield names[:i] + [cand] + names[i + 1:], seqs
    for k in (1, 8, 61):
        if any(len(s) > k for s in seqs):
            yield names, [s[:k] if len(s) > k else s for s in seqs]
    yield names, [seq_for(mt, i, len(s)) for i, s in enumerate(seqs)]


def rt_candidates(case):
    kind, mt, fmt, cmp_, names, seqs = case
    if cmp_:
        yield [kind, mt, fmt, "", names, seqs]
    if fmt != family(fmt):
        yield [kind, mt, family(fmt), cmp_, names, seqs]
    for k in ("array", "coll"):
        if kind != k and KINDS.index(k) < KINDS.index(kind):
            yield [k, mt, fmt, cmp_, names, seqs]
    if mt != "dna":
        yield [kind, "dna", fmt, cmp_, names, [seq_for("dna", i, len(s)) for i, s in enumerate(seqs)]]
    for nn, ss in shrink_records(names, seqs, mt):
        yield [kind, mt, fmt, cmp_, nn, ss]


def minimise(case, evaluate, candidates, sig):
    """greedy delta-minimisation (only used to name the failure class and to print a small witness): a simpler
    candidate replaces the case when it fails with the same signature"""
    res = None
    for _ in range(40):
        for cand in candidates(case):
            if cand == case:
                continue
            try:
                r = evaluate(cand)
            except Exception:
                continue
            if r[0] == "fail" and r[1] == sig:
                case, res = cand, r
                break
        else:
            break
    return case, res


def record_features(names, seqs):
    feats = sorted({name_class(n) for n in names if not (n[:1] == "n" and n[1:].isdigit())} - {"name-alnum"})
    lengths = [len(s) for s in seqs]
    if 0 in lengths:
        feats.append("zero-length")
    if len(set(lengths)) > 1:
        feats.append("ragged")
    if max(lengths, default=0) > 60:
        feats.append("longer-than-60")
    elif max(lengths, default=0) > 8:
        feats.append("longer-than-8")
    if len(names) > 1:
        feats.append("records>1")
    return feats


_MIN_CACHE = {}


def contract_roundtrip(case):
    res = rt_eval(case)
    if res[0] != "fail":
        return res
    kind, mt, fmt, cmp_, names, seqs = case
    coarse = ("rt", res[1], kind, mt, fmt, cmp_, tuple(record_features(names, seqs)))
    if coarse not in _MIN_CACHE:
        small, r2 = minimise(case, rt_eval, rt_candidates, res[1])
        k2, m2, f2, c2, n2, s2 = small
        feats = ([c2] if c2 else []) + ([f"suffix={f2}"] if f2 != family(f2) else []) + ([m2] if m2 != "dna" else [])
        feats += [f for f in record_features(n2, s2) if not (res[1] == "order" and f.startswith("name-"))]
        key = f"roundtrip/{k2}/{family(f2)}/{res[1]}" + ("/" + ",".join(feats) if feats else "")
        _MIN_CACHE[coarse] = (key, small, r2[2] if r2 else res[2])
    key, small, smsg = _MIN_CACHE[coarse]
    return ("fail", key, f"{case}: {res[2]} || minimal witness {small}: {smsg}")


# ------------------------------------------------------------------------------------------------ spec writers
def wrap(s, width):
    if not width:
        return [s]
    return [s[i:i + width] for i in range(0, len(s), width)] or [""]


def spec_lines(fmt, names, seqs, lay):
    """the lines of a well-formed file of the format; independent of cogent3's writers"""
    width = lay.get("width", 60)
    blank = lay.get("blank", False)
    lines = []
    n = len(names)
    L = len(seqs[0]) if seqs else 0
    if lay.get("lower", False):
        seqs = [s.lower() for s in seqs]
    if fmt in ("fasta", "gde"):
        ch = lay.get("label_char", ">" if fmt == "fasta" else "%")
        for i, (nm, s) in enumerate(zip(names, seqs)):
            if blank and i:
                lines.append("")
            lines.append(ch + nm)
            lines.extend(wrap(s, width))
    elif fmt == "paml":
        lines.append(f"   {n}   {L}")
        for nm, s in zip(names, seqs):
            if blank:
                lines.append("")
            lines.append(nm)
            lines.extend(wrap(s, width))
    elif fmt == "phylip":
        group = lay.get("group", False)

        def fmt_chunk(c):
            return " ".join(c[i:i + 10] for i in range(0, len(c), 10)) if group else c
        if lay.get("interleaved", False):
            lines.append(f" {n} {L} I")
            chunks = [wrap(s, width) for s in seqs]
            for b in range(len(chunks[0])):
                if b:
                    lines.append("")
                for nm, ch in zip(names, chunks):
                    lines.append((f"{nm:<10}" if b == 0 else "") + fmt_chunk(ch[b]))
        else:
            lines.append(f" {n} {L}")
            for nm, s in zip(names, seqs):
                if blank:
                    lines.append("")
                for b, c in enumerate(wrap(s, width)):
                    lines.append((f"{nm:<10}" if b == 0 else " " * 10) + fmt_chunk(c))
    elif fmt == "clustal":
        lines.append("CLUSTAL W (1.82) multiple sequence alignment")
        lines.append("")
        pad = max(len(x) for x in names) + 4
        chunks = [wrap(s, width) for s in seqs]
        done = 0
        for b in range(len(chunks[0])):
            lines.append("")
            for nm, ch in zip(names, chunks):
                tail = f" {done + len(ch[b])}" if lay.get("linenos", False) else ""
                lines.append(f"{nm:<{pad}}{ch[b]}{tail}")
            lines.append(" " * pad + "*" * min(3, len(chunks[0][b])))
            done += len(chunks[0][b])
    elif fmt == "genbank":
        moltag = {"dna": "DNA", "rna": "RNA", "protein": "protein"}[lay.get("mt", "dna")]
        for nm, s in zip(names, seqs):
            lines.append(f"LOCUS       {nm:<16} {len(s):>11} bp    {moltag}     linear   SYN 01-JAN-2000")
            lines.append("DEFINITION  synthetic record for the C06 contract.")
            lines.append(f"ACCESSION   {nm}")
            lines.append(f"VERSION     {nm}.1")
            lines.append("KEYWORDS    .")
            lines.append("SOURCE      synthetic construct")
            lines.append("  ORGANISM  synthetic construct")
            lines.append("            other sequences; artificial sequences.")
            lines.append("FEATURES             Location/Qualifiers")
            lines.append(f"     source          1..{len(s)}")
            lines.append('                     /organism="synthetic construct"')
            lines.append('                     /mol_type="other DNA"')
            if len(s) >= 3:
                lines.append("     gene            1..3")
                lines.append('                     /gene="g1"')
            lines.append("ORIGIN      ")
            low = s.lower()
            for i in range(0, len(low), 60):
                row = low[i:i + 60]
                lines.append(f"{i + 1:>9} " + " ".join(row[j:j + 10] for j in range(0, len(row), 10)))
            lines.append("//")
    else:
        raise ValueError(fmt)
    return lines


def spec_text(lines, lay):
    eol = lay.get("eol", "\n")
    t = eol.join(lines)
    if lay.get("final_eol", True) and lines:
        t += eol
    return t


# ------------------------------------------------------------------------------------------------ parsers
def _pairs(it):
    return [[str(a), str(b)] for a, b in it]


def parser_variants(fmt, path, text, lines, mt, aligned, plain):
    """name -> thunk returning [[label, seq], ...]; `raw` variants are compared with each other exactly"""
    from cogent3 import load_aligned_seqs, load_unaligned_seqs
    from cogent3.parse.sequence import get_parser
    P = pathlib.Path(path)
    raw, cooked = {}, {}
    if fmt == "fasta":
        from cogent3.parse import fasta as F
        raw["iter_fasta_records[bytes]"] = lambda: _pairs(F.iter_fasta_records(text.encode("utf8")))
        raw["iter_fasta_records[str path]"] = lambda: _pairs(F.iter_fasta_records(path))
        raw["iter_fasta_records[Path]"] = lambda: _pairs(F.iter_fasta_records(P))
        raw["iter_fasta_records[list]"] = lambda: _pairs(F.iter_fasta_records(list(lines)))
        if plain:
            def textio():
                with open(path, "rt", newline="") as f:
                    return _pairs(F.iter_fasta_records(f))
            raw["iter_fasta_records[TextIOWrapper]"] = textio
        for strict in (True, False):
            tag = "strict" if strict else "non-strict"
            raw[f"MinimalFastaParser[path,{tag}]"] = lambda s=strict: _pairs(F.MinimalFastaParser(path, strict=s))
            raw[f"MinimalFastaParser[lines,{tag}]"] = lambda s=strict: _pairs(F.MinimalFastaParser(list(lines), strict=s))
            raw[f"FastaParser[lines,{tag}]"] = lambda s=strict: _pairs(F.FastaParser(list(lines), strict=s))
        for sfx in ("fasta", "fa", "mfa", "faa", "fna"):
            raw[f"get_parser({sfx})[path]"] = lambda s=sfx: _pairs(get_parser(s)(path))
    elif fmt == "gde":
        from cogent3.parse import fasta as F
        for strict in (True, False):
            tag = "strict" if strict else "non-strict"
            raw[f"MinimalGdeParser[path,{tag}]"] = lambda s=strict: _pairs(F.MinimalGdeParser(path, strict=s))
            raw[f"MinimalGdeParser[lines,{tag}]"] = lambda s=strict: _pairs(F.MinimalGdeParser(list(lines), strict=s))
        raw["get_parser(gde)[path]"] = lambda: _pairs(get_parser("gde")(path))
        raw["get_parser(gde)[Path]"] = lambda: _pairs(get_parser("gde")(P))
        raw["get_parser(gde)[list]"] = lambda: _pairs(get_parser("gde")(list(lines)))
    elif fmt == "phylip":
        from cogent3.parse.phylip import MinimalPhylipParser, get_align_for_phylip
        raw["MinimalPhylipParser[lines]"] = lambda: _pairs(MinimalPhylipParser(list(lines)))
        raw["get_parser(phylip)[path]"] = lambda: _pairs(get_parser("phylip")(path))
        raw["get_parser(phylip)[Path]"] = lambda: _pairs(get_parser("phylip")(P))
        raw["get_parser(phylip)[tuple]"] = lambda: _pairs(get_parser("phylip")(tuple(lines)))

        def gafp():
            a = get_align_for_phylip(list(lines))
            d = a.to_dict()
            return [[n, d[n]] for n in a.names]
        cooked["get_align_for_phylip[lines]"] = gafp
    elif fmt == "paml":
        from cogent3.parse.paml import PamlParser
        raw["PamlParser[lines]"] = lambda: _pairs(PamlParser(list(lines)))
        if plain:
            def textio():
                with open(path, "rt") as f:
                    return _pairs(PamlParser(f))
            raw["PamlParser[TextIOWrapper]"] = textio
        raw["get_parser(paml)[path]"] = lambda: _pairs(get_parser("paml")(path))
        raw["get_parser(paml)[list]"] = lambda: _pairs(get_parser("paml")(list(lines)))
    elif fmt == "clustal":
        from cogent3.parse.clustal import ClustalParser
        raw["ClustalParser[lines,strict]"] = lambda: _pairs(ClustalParser(list(lines), strict=True))
        raw["ClustalParser[lines,non-strict]"] = lambda: _pairs(ClustalParser(list(lines), strict=False))
        raw["get_parser(clustal)[path]"] = lambda: _pairs(get_parser("clustal")(path))
        raw["get_parser(aln)[path,non-strict]"] = lambda: _pairs(get_parser("aln")(path, strict=False))
    elif fmt == "genbank":
        from cogent3.parse import genbank as G
        raw["iter_genbank_records[bytes]"] = lambda: [[a, b] for a, b, _ in G.iter_genbank_records(text.encode("utf8"))]
        raw["iter_genbank_records[str path]"] = lambda: [[a, b] for a, b, _ in G.iter_genbank_records(path)]
        raw["iter_genbank_records[Path]"] = lambda: [[a, b] for a, b, _ in G.iter_genbank_records(P)]
        if plain:
            def textio():
                with open(path, "rt", newline="") as f:
                    return [[a, b] for a, b, _ in G.iter_genbank_records(f)]
            raw["iter_genbank_records[TextIO]"] = textio
        raw["minimal_parser[path]"] = lambda: [[r["locus"], r["sequence"]] for r in G.minimal_parser(path)]
        raw["minimal_parser[path,no feature conversion]"] = lambda: [
            [r["locus"], r["sequence"]] for r in G.minimal_parser(path, convert_features=None)]

        def rich(**kw):
            out = []
            for name, seq in G.rich_parser(path, **kw):
                if str(seq.name) != str(name):
                    out.append([f"{name}!={seq.name}", str(seq)])
                else:
                    out.append([str(name), str(seq)])
            return out
        raw["rich_parser[path]"] = lambda: rich()
        raw["rich_parser[path,just_seq]"] = lambda: rich(just_seq=True)
        raw["rich_parser[path,moltype]"] = lambda: rich(moltype=mt)
        raw["get_parser(gb)[path]"] = lambda: _pairs(get_parser("gb")(path))

    def loaded(fn, **kw):
        c = fn(path, moltype=mt, **kw)
        return view(c)
    cooked["load_unaligned_seqs[path]"] = lambda: loaded(load_unaligned_seqs)
    if fmt != "genbank":
        cooked["load_unaligned_seqs[path,new_type]"] = lambda: loaded(load_unaligned_seqs, new_type=True)
    if aligned and fmt != "genbank":
        cooked["load_aligned_seqs[path,array]"] = lambda: loaded(load_aligned_seqs, array_align=True)
        cooked["load_aligned_seqs[path,Alignment]"] = lambda: loaded(load_aligned_seqs, array_align=False)
    return raw, cooked


SUFFIX = {"fasta": "fasta", "gde": "gde", "phylip": "phylip", "paml": "paml", "clustal": "aln", "genbank": "gb"}
PLAIN_LAY = {"width": 60, "eol": "\n", "final_eol": True, "blank": False, "lower": False}


def lay_tag(lay):
    tags = []
    for k in sorted(lay):
        if k == "mt" or lay[k] == PLAIN_LAY.get(k, False):
            continue
        v = lay[k]
        tags.append(f"{k}={v!r}" if not isinstance(v, bool) else (k if v else f"no-{k}"))
    return ",".join(tags) or "plain-layout"


def names_for(fmt):
    if fmt == "phylip":
        return [n for n in NAMES if len(n) <= 10]
    if fmt in ("clustal", "genbank"):
        return [n for n in NAMES if " " not in n and not n.startswith(("CLUSTAL", "MUSCLE"))]
    return list(NAMES)


def layouts_for(fmt, thorough):
    """the plain layout and layouts that deviate from it in one respect (lower-case residues only for FASTA, where
    soft-masked files are conventional)"""
    base = dict(PLAIN_LAY)
    lays = [base]

    def dev(**kw):
        d = dict(base)
        d.update(kw)
        lays.append(d)
    if fmt in ("fasta", "gde", "paml", "phylip"):
        for w in (0, 10, 1) if fmt != "phylip" else (50, 10):
            dev(width=w)
        dev(eol="\r\n")
        dev(final_eol=False)
        dev(blank=True)
    if fmt == "fasta":
        dev(lower=True)
    if fmt == "gde":
        dev(label_char="#")
    if fmt == "phylip":
        dev(group=True)
        dev(interleaved=True)
        dev(interleaved=True, width=50, group=True)
    if fmt == "clustal":
        dev(width=50)
        dev(linenos=True)
        dev(eol="\r\n")
        dev(final_eol=False)
    if fmt == "genbank":
        dev(eol="\r\n")
        dev(final_eol=False)
    return lays


def gen_parsers(tier, seed):
    rnd = random.Random(seed + 1)
    thorough = tier == "thorough"
    for fmt in ("fasta", "gde", "phylip", "paml", "clustal", "genbank"):
        nms = names_for(fmt)
        lays = layouts_for(fmt, thorough)
        lens = [1, 2, 9, 10, 11, 59, 60, 61, 119, 120, 121, 181] if thorough else [1, 10, 59, 60, 61, 121]
        # every name of the corpus x every layout
        for nm in nms:
            for lay in lays:
                if thorough:
                    for L in (1, 8, 60, 61, 121):
                        for names in ([nm, "zz"], ["zz", nm]):
                            yield [fmt, "dna", "", names, [seq_for("dna", i, L) for i in range(2)], lay]
                else:
                    yield [fmt, "dna", "", [nm, "zz"], [seq_for("dna", i, 8) for i in range(2)], lay]
                    yield [fmt, "dna", "", ["zz", nm], [seq_for("dna", i, 61) for i in range(2)], lay]
        # every length x every layout, 1..3 records
        for L in lens:
            for lay in lays:
                for names in (["only"], ["zz", "a|b"], ["s3", "s1", "s2"]):
                    yield [fmt, "dna", "", names, [seq_for("dna", i, L) for i in range(len(names))], lay]
        # compression of the file, moltypes
        for cmp_ in CMPS[1:]:
            for lay in lays[:1] + ([lays[4]] if len(lays) > 4 else []):
                for L in (1, 61):
                    yield [fmt, "dna", cmp_, ["zz", "a|b"], [seq_for("dna", i, L) for i in range(2)], lay]
        if fmt != "genbank":
            for mt in ("rna", "protein"):
                for L in (9, 61):
                    yield [fmt, mt, "", ["t2", "t1"], [seq_for(mt, i, L) for i in range(2)], lays[0]]
        # ragged records (formats with one length per record)
        if fmt in ("fasta", "gde", "genbank"):
            for L1 in (1, 59, 60, 61):
                for L2 in (1, 60, 121):
                    yield [fmt, "dna", "", ["r1", "r2"], [seq_for("dna", 0, L1), seq_for("dna", 1, L2)], lays[0]]
    # seeded random sample: random names, lengths and layout combinations
    nrand = 12000 if thorough else 400
    for _ in range(nrand):
        fmt = rnd.choice(("fasta", "fasta", "gde", "phylip", "paml", "clustal", "genbank"))
        mt = "dna" if fmt == "genbank" else rnd.choice(MOLTYPES)
        n = rnd.randint(1, 4)
        names = []
        while len(names) < n:
            nm = rand_name(rnd, 10 if fmt == "phylip" else rnd.choice((5, 10, 16)))
            if fmt in ("clustal", "genbank"):
                nm = nm.replace(" ", "_")
            if nm not in names:
                names.append(nm)
        ragged = fmt in ("fasta", "gde", "genbank") and rnd.random() < 0.4
        L = rnd.choice((rnd.randint(1, 10), rnd.randint(55, 65), rnd.randint(115, 125), rnd.randint(1, 300)))
        seqs = [rand_seq(rnd, mt, rnd.randint(1, 130) if ragged else L) for _ in names]
        lay = dict(PLAIN_LAY)
        lay["width"] = rnd.choice((60, 60, 50, 10, 7, 1, 0)) if fmt not in ("phylip", "clustal") else rnd.choice((60, 50, 10))
        lay["eol"] = rnd.choice(("\n", "\n", "\r\n"))
        lay["final_eol"] = rnd.random() < 0.8
        if fmt in ("fasta", "gde", "paml", "phylip"):
            lay["blank"] = rnd.random() < 0.3
        if fmt == "fasta":
            lay["lower"] = rnd.random() < 0.2
        if fmt == "gde":
            lay["label_char"] = rnd.choice("%#")
        if fmt == "phylip":
            lay["group"] = rnd.random() < 0.3
            lay["interleaved"] = rnd.random() < 0.5
            if lay["interleaved"]:
                lay["blank"] = False
        if fmt == "clustal":
            lay["linenos"] = rnd.random() < 0.3
        yield [fmt, mt, rnd.choice(CMPS), names, seqs, lay]


def well_formed(fmt, names, seqs):
    if not names or len(set(names)) != len(names) or any(n != n.strip() or not n for n in names):
        return False
    if any(len(s) == 0 for s in seqs):
        return False                         # a record without sequence is not well-formed
    aligned = len({len(s) for s in seqs}) == 1
    if fmt in ("phylip", "paml", "clustal") and not aligned:
        return False
    if fmt == "phylip" and any(len(n) > 10 for n in names):
        return False
    if fmt in ("clustal", "genbank") and any(" " in n for n in names):
        return False
    if fmt == "genbank" and any(len(n) > 16 for n in names):
        return False
    if fmt == "clustal" and any(n.startswith(("CLUSTAL", "MUSCLE")) for n in names):
        return False
    return True


def ps_eval(case):
    """("skip",) | ("ok", True) | ("fail", signature, message)"""
    fmt, mt, cmp_, names, seqs, lay = case
    lay = dict(lay)
    lay["mt"] = mt
    if not well_formed(fmt, names, seqs):
        return ("skip",)
    aligned = len({len(s) for s in seqs}) == 1
    lines = spec_lines(fmt, names, seqs, lay)
    text = spec_text(lines, lay)
    spec = [[n, s] for n, s in zip(names, seqs)]
    with tempfile.TemporaryDirectory() as d:
        path = os.path.join(d, "x." + SUFFIX[fmt] + ("." + cmp_ if cmp_ else ""))
        write_bytes(path, text.encode("ascii"), cmp_)
        raw, cooked = parser_variants(fmt, path, text, lines, mt, aligned, cmp_ == "")
        results = {}
        for group in (raw, cooked):
            for vname, thunk in group.items():
                try:
                    results[vname] = thunk()
                except Exception as e:
                    results[vname] = e
    for vname, got in results.items():
        if isinstance(got, Exception):
            return ("fail", f"{vname}/raises {type(got).__name__}",
                    f"{vname} raised {type(got).__name__}: {str(got)[:160]} on text {text[:160]!r}")
        if [g[0] for g in got] != names:
            if len(got) != len(names):
                return ("fail", f"{vname}/record count",
                        f"{vname} returned {len(got)} records {got[:3]} for {len(spec)}; text {text[:160]!r}")
            return ("fail", f"{vname}/labels",
                    f"{vname} returned labels {[g[0] for g in got]}, file has {names}; text {text[:160]!r}")
        for (n, s), (gn, gs) in zip(spec, got):
            if gs.upper() != s.upper():
                return ("fail", f"{vname}/sequence", f"{vname} returned {gs!r} for {n!r}, file has {s!r}")
    ref = None
    for vname in raw:
        if ref is None:
            ref = vname
            continue
        if results[vname] != results[ref]:
            casediff = [[a, b.upper()] for a, b in results[vname]] == [[a, b.upper()] for a, b in results[ref]]
            what = "letter case of sequence" if casediff else "records"
            return ("fail", f"disagree on {what}/{vname} vs {ref}",
                    f"{vname} -> {results[vname][:2]}; {ref} -> {results[ref][:2]}; text {text[:160]!r}")
    return ("ok", True)


def ps_candidates(case):
    fmt, mt, cmp_, names, seqs, lay = case
    if cmp_:
        yield [fmt, mt, "", names, seqs, lay]
    for k in sorted(lay):
        plain = PLAIN_LAY.get(k, False)
        if lay[k] != plain:
            d = dict(lay)
            d[k] = plain
            if k not in PLAIN_LAY:
                del d[k]
            yield [fmt, mt, cmp_, names, seqs, d]
    if mt != "dna":
        yield [fmt, "dna", cmp_, names, [seq_for("dna", i, len(s)) for i, s in enumerate(seqs)], lay]
    for nn, ss in shrink_records(names, seqs, mt):
        yield [fmt, mt, cmp_, nn, ss, lay]


def contract_parsers(case):
    res = ps_eval(case)
    if res[0] != "fail":
        return res
    fmt, mt, cmp_, names, seqs, lay = case
    coarse = ("ps", res[1], fmt, mt, cmp_, lay_tag(lay), tuple(record_features(names, seqs)))
    if coarse not in _MIN_CACHE:
        small, r2 = minimise(case, ps_eval, ps_candidates, res[1])
        f2, m2, c2, n2, s2, l2 = small
        feats = ([c2] if c2 else []) + ([m2] if m2 != "dna" else [])
        if lay_tag(l2) != "plain-layout":
            feats.append(lay_tag(l2))
        feats += record_features(n2, s2)
        key = f"parsers/{fmt}/{res[1]}" + ("/" + ",".join(feats) if feats else "")
        _MIN_CACHE[coarse] = (key, small, r2[2] if r2 else res[2])
    key, small, smsg = _MIN_CACHE[coarse]
    return ("fail", key, f"{case}: {res[2]} || minimal witness {small}: {smsg}")


# ------------------------------------------------------------------------------------------------ splitlines
LINE_TEXTS = [[], ["a"], ["a", "b"], ["a", "", "b"], ["ab", "cd", "ef"], [""], ["", ""], ["abc", "", "", "d"],
              [">s1", "AC", "GT", ">s2 desc", "A"], ["x", "y"], ["", "a"], ["a", ""], ["a b", " c ", "\td"],
              ["longer line with blanks", "s", "", "another fairly long line here"]]


def chunk_sizes(n, thorough):
    full = list(range(1, n + 2))
    if thorough or n <= 40:
        return full + [None]
    pick = set(range(1, 12)) | set(range(n - 3, n + 2)) | {59, 60, 61, 62, 63, 70, 71, 72} | set(range(12, n, 7))
    return sorted(c for c in pick if 1 <= c <= n + 1) + [None]


def gen_splitlines(tier, seed):
    rnd = random.Random(seed + 2)
    thorough = tier == "thorough"
    for lines in LINE_TEXTS:
        for eol in ("\n", "\r\n", "\r"):
            for final in (True, False):
                if not final and (not lines or lines[-1] == ""):
                    continue
                n = len(eol.join(lines)) + (len(eol) if final and lines else 0)
                for cmp_ in (CMPS if thorough else ["", "gz"]):
                    for c in chunk_sizes(n, True):
                        yield ["lines", lines, {"eol": eol, "final_eol": final}, cmp_, c]
    # spec-written format files streamed with every chunk size, then parsed
    jobs = []
    for fmt in ("fasta", "gde", "phylip", "paml", "clustal"):
        for lay in layouts_for(fmt, thorough):
            for names, L in ((["s1", "seq two"], 61), (["zz", "a|b", "nine_char"], 8 if not thorough else 121)):
                if fmt == "clustal":
                    names = [n.replace(" ", "_") for n in names]
                jobs.append((fmt, names, L, lay))
    for fmt, names, L, lay in jobs:
        seqs = [seq_for("dna", i, L) for i in range(len(names))]
        n = len(spec_text(spec_lines(fmt, names, seqs, lay), lay))
        for c in chunk_sizes(n, thorough):
            yield [fmt, [names, seqs], lay, "", c]
        for cmp_ in CMPS[1:]:
            for c in (1, 7, 60, 61, n, n + 1):
                yield [fmt, [names, seqs], lay, cmp_, c]
    nrand = 3000 if thorough else 300
    for _ in range(nrand):
        k = rnd.randint(1, 8)
        lines = []
        for _i in range(k):
            ln = rnd.choice(("", "", None, None, None))
            if ln is None:
                ln = "".join(rnd.choice(PRINTABLE + "   ") for _j in range(rnd.choice((1, 2, 5, 30, 80))))
            lines.append(ln)
        final = rnd.random() < 0.7
        if not final and lines[-1] == "":
            lines[-1] = "z"
        eol = rnd.choice(("\n", "\n", "\r\n", "\r"))
        n = len(eol.join(lines)) + 2
        yield ["lines", lines, {"eol": eol, "final_eol": final}, rnd.choice(CMPS), rnd.choice((None, rnd.randint(1, n), rnd.randint(1, 5)))]


def chunk_class(c, n):
    if c is None:
        return "chunk=None"
    if c == 1:
        return "chunk=1"
    if c >= n:
        return "chunk>=size"
    return "1<chunk<size"


def line_parser(fmt):
    from cogent3.parse import clustal, fasta, paml, phylip
    return {"fasta": fasta.MinimalFastaParser, "gde": fasta.MinimalGdeParser, "phylip": phylip.MinimalPhylipParser,
            "paml": paml.PamlParser, "clustal": clustal.ClustalParser}[fmt]


def sl_text(case):
    kind, payload, lay, cmp_, chunk = case
    if kind == "lines":
        lines, spec = list(payload), None
    else:
        names, seqs = payload
        lines = spec_lines(kind, names, seqs, lay)
        spec = [[n, s] for n, s in zip(names, seqs)]
    return lines, spec, spec_text(lines, lay)


def sl_eval(case):
    """("skip",) | ("ok", nontrivial) | ("fail", signature, message)"""
    from cogent3.util.io import iter_splitlines
    kind, payload, lay, cmp_, chunk = case
    if chunk is not None and chunk < 1:
        return ("skip",)
    if kind == "lines":
        if not lay.get("final_eol", True) and (not payload or payload[-1] == ""):
            return ("skip",)                # the last empty line would not exist in the file
    elif not well_formed(kind, payload[0], payload[1]):
        return ("skip",)
    lines, spec, text = sl_text(case)
    with tempfile.TemporaryDirectory() as d:
        sfx = "txt" if kind == "lines" else SUFFIX[kind]
        path = os.path.join(d, "x." + sfx + ("." + cmp_ if cmp_ else ""))
        write_bytes(path, text.encode("ascii"), cmp_)
        try:
            got = list(iter_splitlines(path, chunk_size=chunk))
        except Exception as e:
            return ("fail", f"raises {type(e).__name__}", f"{type(e).__name__}: {str(e)[:200]}")
        if got != lines:
            if got == [ln for ln in lines if ln != ""]:
                what = "blank lines dropped"
            elif "".join(got) == "".join(lines) and len(got) < len(lines):
                what = "lines merged or blank lines dropped"
            elif len(got) > len(lines):
                what = "extra lines"
            else:
                what = "content"
            return ("fail", f"lines differ ({what})",
                    f"text {text[:200]!r} streamed as {got[:12]}, built from {lines[:12]}")
        if spec is not None:
            parse = line_parser(kind)
            try:                             # precondition: the parser returns the spec records on the plain lines
                if [[a, b.upper()] for a, b in _pairs(parse(list(lines)))] != [[a, b.upper()] for a, b in spec]:
                    return ("skip",)
            except Exception:
                return ("skip",)             # (a parser that fails here is reported by the `parsers` contract)
            try:
                recs = _pairs(parse(iter_splitlines(path, chunk_size=chunk)))
            except Exception as e:
                return ("fail", f"{kind} parser on stream raises {type(e).__name__}",
                        f"{type(e).__name__}: {str(e)[:200]}")
            if [[a, b.upper()] for a, b in recs] != [[a, b.upper()] for a, b in spec]:
                return ("fail", f"{kind} records from stream differ", f"records {recs[:3]}, file has {spec[:3]}")
    return ("ok", len(lines) > 1)


def sl_candidates(case):
    kind, payload, lay, cmp_, chunk = case
    if cmp_:
        yield [kind, payload, lay, "", chunk]
    for k in sorted(lay):
        plain = PLAIN_LAY.get(k, False)
        if lay[k] != plain:
            d = dict(lay)
            d[k] = plain
            if k not in PLAIN_LAY:
                del d[k]
            yield [kind, payload, d, cmp_, chunk]
    if chunk is not None:
        yield [kind, payload, lay, cmp_, None]
        if chunk != 1:
            yield [kind, payload, lay, cmp_, 1]
    if kind == "lines":
        for i in range(len(payload)):
            yield [kind, payload[:i] + payload[i + 1:], lay, cmp_, chunk]
        for i, ln in enumerate(payload):
            if len(ln) > 1:
                yield [kind, payload[:i] + [ln[:1]] + payload[i + 1:], lay, cmp_, chunk]
    else:
        for nn, ss in shrink_records(payload[0], payload[1], "dna"):
            yield [kind, [nn, ss], lay, cmp_, chunk]


def contract_splitlines(case):
    res = sl_eval(case)
    if res[0] != "fail":
        return res
    kind, payload, lay, cmp_, chunk = case
    n = len(sl_text(case)[2])
    coarse = ("sl", res[1], kind, cmp_, lay_tag(lay), chunk_class(chunk, n))
    if coarse not in _MIN_CACHE:
        small, r2 = minimise(case, sl_eval, sl_candidates, res[1])
        k2, p2, l2, c2, ch2 = small
        feats = ([c2] if c2 else [])
        tag = lay_tag(l2).replace("eol='\\r\\n'", "CRLF").replace("eol='\\r'", "CR")
        if tag != "plain-layout":
            feats.append(tag)
        if ch2 is not None:
            feats.append(chunk_class(ch2, len(sl_text(small)[2])))
        site = "splitlines/" + ("lines" if kind == "lines" else f"{kind}-text")
        key = f"{site}/{res[1]}" + ("/" + ",".join(feats) if feats else "")
        _MIN_CACHE[coarse] = (key, small, r2[2] if r2 else res[2])
    key, small, smsg = _MIN_CACHE[coarse]
    return ("fail", key, f"{case}: {res[2]} || minimal witness {small}: {smsg}")


# ------------------------------------------------------------------------------------------------ registry
# ================================================================================================ explicit format argument
XF_FORMATS = ["fasta", "phylip", "paml", "gde"]
XF_NAMES = ["aln.txt", "aln.dat", "aln.phy", "aln.fas", "aln.txt.gz", "aln.dat.bz2", "aln.fasta", "aln.phylip.gz", "data"]


def gen_explicit_format(tier, seed):
    for fmt in XF_FORMATS:
        for fname in XF_NAMES:
            for loader in ("aligned", "unaligned"):
                yield [fmt, fname, loader]


def contract_explicit_format(case):
    """an explicit format= decides how a file is written and read, whatever its suffix says"""
    import os
    import tempfile

    from cogent3 import load_aligned_seqs, load_unaligned_seqs, make_aligned_seqs
    fmt, fname, loader = case
    rows = {"seq_1": "ACGTACGTTAGCAT-GCATG" * 4, "seq_2": "ACGTACGATAGCATCGCATG" * 4, "s3": "ACTTACGTTAGC--CGCTTG" * 4}
    with tempfile.TemporaryDirectory() as d:
        path = os.path.join(d, fname)
        try:
            make_aligned_seqs(rows, moltype="dna").write(path, format=fmt)
        except Exception:
            return ("skip",)                    # writing this combination is refused: nothing to read back
        try:
            got = (load_aligned_seqs if loader == "aligned" else load_unaligned_seqs)(path, format=fmt, moltype="dna")
            d_ = {k: str(v) for k, v in got.to_dict().items()}
        except Exception as e:
            return ("fail", f"explicit-format/{loader}/raises-{type(e).__name__}/{fmt}",
                    f"{case}: written with format={fmt!r}, load_{loader}_seqs(format={fmt!r}) raises {type(e).__name__}: {str(e)[:160]}")
    want = rows if loader == "aligned" else {k: v.replace("-", "") for k, v in rows.items()}
    if fmt in ("phylip", "paml") and loader == "unaligned":
        want = rows if set(map(len, d_.values())) == {80} else want     # parsers of aligned formats keep gaps
    if d_ != want and {k: v.replace("-", "") for k, v in d_.items()} != {k: v.replace("-", "") for k, v in want.items()}:
        return ("fail", f"explicit-format/{loader}/rows-differ/{fmt}", f"{case}: read {d_}, written {rows}")
    return ("ok", True)


BOUNDED = {
    "explicit_format": {
        "gen": gen_explicit_format, "contract": contract_explicit_format,
        "functions": ["cogent3.load_aligned_seqs", "cogent3.load_unaligned_seqs", "_load_seqs (format dispatch)", "Alignment.write"],
        "bound": "4 formats x 9 file names whose suffix is missing, unrelated to or in conflict with the format (plain, .gz, "
                 ".bz2) x both loaders; one 3-row alignment of 80 columns",
        "rule": "written with format=f and read with format=f gives the rows back (names, residues), whatever the suffix says",
        "shards": 4,
    },
    "roundtrip": {
        "gen": gen_roundtrip, "contract": contract_roundtrip,
        "functions": ["SequenceCollection.write / ArrayAlignment.write / Alignment.write (core.alignment)",
                      "new_alignment.SequenceCollection.write", "format.alignment.save_to_filename",
                      "format.fasta.seqs_to_fasta", "format.phylip.alignment_to_phylip",
                      "format.paml.alignment_to_paml", "format.gde.alignment_to_gde", "to_json/load_from_json",
                      "util.io.atomic_write", "util.io.open_", "util.io.open_zip", "util.io.get_format_suffixes",
                      "cogent3.load_aligned_seqs", "cogent3.load_unaligned_seqs", "parse.sequence.get_parser",
                      "parse.fasta.iter_fasta_records", "parse.phylip.MinimalPhylipParser", "parse.paml.PamlParser",
                      "parse.fasta.MinimalGdeParser"],
        "bound": "4 container kinds (ArrayAlignment, Alignment, old and new SequenceCollection) x suffixes "
                 "{fasta,fa,mfa,phylip,paml,gde,json} x {plain,gz,bz2,zip} x {dna,rna,protein}; 1-3 sequences of "
                 "length {0..8,59,60,61,119,120,121,180,181} over the full alphabet incl. gaps and ambiguity codes; "
                 "27 printable-ASCII names (incl. '>', '|', '#', '%', blanks, 9/10/11/30 characters) in first and "
                 "second position; ragged collections for fasta/gde/json with lengths from {0,1,59,60,61,121}^2; "
                 "plus a seeded sample (600 quick / 20000 thorough) of 1-5 random printable names (<=20 chars) "
                 "and random sequences of length <=400",
        "rule": "a case = (kind, moltype, suffix, compression, names, sequences); quick = one-factor sweeps, thorough "
                "= cross product; non-trivial when some sequence is non-empty; distinct by hash of the case; "
                "skipped when the container cannot hold the data, names have blanks at the ends, names collide "
                "after 9-character truncation (phylip/paml) or the data is ragged for an alignment format; a failing "
                "case is delta-minimised inside the contract only to name its class (key) and print a small witness",
    },
    "parsers": {
        "gen": gen_parsers, "contract": contract_parsers,
        "functions": ["parse.fasta.iter_fasta_records (bytes, str, Path, TextIOWrapper, list)",
                      "parse.fasta.MinimalFastaParser (strict/non-strict, path/lines)", "parse.fasta.FastaParser",
                      "parse.fasta.MinimalGdeParser (strict/non-strict)", "parse.phylip.MinimalPhylipParser",
                      "parse.phylip.get_align_for_phylip", "parse.paml.PamlParser",
                      "parse.clustal.ClustalParser (strict/non-strict)", "parse.genbank.iter_genbank_records",
                      "parse.genbank.minimal_parser", "parse.genbank.rich_parser (just_seq, moltype)",
                      "parse.sequence.get_parser / LineBasedParser", "cogent3.load_unaligned_seqs",
                      "cogent3.load_aligned_seqs", "util.io.open_ (gz, bz2, zip)"],
        "bound": "spec-written files of 6 formats (fasta, gde, phylip sequential+interleaved, paml, clustal, genbank) "
                 "x layouts that deviate from the plain one in one respect (line width 0/1/10/50/60, CRLF, no final "
                 "newline, blank lines between records, lower-case residues (fasta), '#' labels (gde), 10-column "
                 "groups (phylip), line numbers (clustal)) x the name corpus (27 names, both positions) x lengths "
                 "{1,10,59,60,61,121} (thorough 12 lengths) x 1-3 records x compression of the file; plus a seeded "
                 "sample (400 / 12000) of random names, sequences and layout combinations",
        "rule": "a case = (format, moltype, compression, names, sequences, layout); every parser variant of the "
                "format (8-27 per format) is run inside one case; skipped when the records are not well-formed for "
                "the format (empty sequence, name too long for the name column, blanks in clustal/genbank names); "
                "distinct by hash of the case; failing cases are delta-minimised to name the key",
    },
    "splitlines": {
        "gen": gen_splitlines, "contract": contract_splitlines,
        "functions": ["util.io.iter_splitlines", "util.io.open_", "parse.fasta.MinimalFastaParser/MinimalGdeParser",
                      "parse.phylip.MinimalPhylipParser", "parse.paml.PamlParser", "parse.clustal.ClustalParser"],
        "bound": "14 line lists (empty file, blank lines, blanks inside lines) x {LF, CRLF, CR} x final newline "
                 "yes/no x {plain, gz} (thorough + bz2, zip) x every chunk size 1..len+1 and None; spec-written "
                 "fasta/gde/phylip/paml/clustal files in every layout x chunk sizes (all 1..len+1 in thorough, "
                 "a spread incl. 1..11, 59..63, len-3..len+1 in quick); plus seeded random line lists (300 / 3000)",
        "rule": "a case = (line list or format records, layout, compression, chunk size); non-trivial when the file "
                "has more than one line; distinct by hash of the case; the record comparison is skipped when the "
                "parser does not return the spec records from the in-memory lines (that is the `parsers` contract)",
    },
}
