"""Bounded run-time contracts for C17 (annotation databases return exactly the matching records; never counted
as proved).

Abstract view of a database: the multiset of (seqid, biotype, name, sorted spans, strand, attributes,
on_alignment, start, stop) over all its tables.  Contract texts:
  query    get_features_matching / get_records_matching / num_matches == linear scan of the record list
  subset   view(db.subset(**q)) == linear scan, same class, receiver unchanged
  ops      add / update / union / subset / deepcopy / pickle / to_rich_dict+from_dict / to_json+deserialise /
           write+reopen: view(result) == the list operation on the record lists, every other database unchanged
  load_gff / load_genbank   view(load_annotations(text)) == records read off the text (1-based closed ->
           0-based half-open), whatever the block size, the seqid filter and the database loaded into
  gb_family   GenbankAnnotationDb.get_feature_children / get_feature_parent == linear scan by name and window
The independent spec (record model, scan, text maps) is speclib/c17_spec.py.
"""
from __future__ import annotations

import collections
import copy
import itertools
import json
import os
import pickle
import random
import tempfile

from speclib.c17_spec import (R, alternatives, compare, extent, file_ok, gb_feats_of, gb_location, gb_text,
                              gff_attr_text, gff_rows_of, gff_spec_records, gff_text, item_kind, norm_spans,
                              proj_feature, proj_full, select, span_kind)

L = 12
CLASSES = ("basic", "gff", "gb")


def _tmpdir():
    """a TemporaryDirectory (removed by the contract), on tmpfs when there is one"""
    shm = "/dev/shm"
    return tempfile.TemporaryDirectory(dir=shm if os.path.isdir(shm) and os.access(shm, os.W_OK) else None)


def _cls(name):
    from cogent3.core import annotation_db as adb
    return {"basic": adb.BasicAnnotationDb, "gff": adb.GffAnnotationDb, "gb": adb.GenbankAnnotationDb}[name]


def _cls_name(db):
    return {"BasicAnnotationDb": "basic", "GffAnnotationDb": "gff", "GenbankAnnotationDb": "gb"}.get(
        type(db).__name__, type(db).__name__)


# ------------------------------------------------------------------------------------------------ real-code drivers
def add_user(db, r):
    kw = dict(seqid=r["seqid"], biotype=r["biotype"], name=r["name"], spans=[tuple(s) for s in r["spans"]],
              strand=r["strand"], on_alignment=r["on_aln"])
    from speclib.c17_spec import item_attr
    a = item_attr(["user", r])
    if a is not None:
        kw["attributes"] = a
    db.add_feature(**kw)


def build(cls, recs, tmp, **load_kw):
    """a database of class cls holding recs: the records the flat-file format of cls can express are written
    to GFF / GenBank text and loaded with load_annotations, the others are added with add_feature.
    Returns (db, items)."""
    from cogent3.core.annotation_db import load_annotations
    filed = [r for r in recs if file_ok(cls, r)]
    if filed and cls == "gff":
        path = os.path.join(tmp, f"in{len(os.listdir(tmp))}.gff")
        with open(path, "w") as f:
            f.write(gff_text(gff_rows_of(filed)))
        db = load_annotations(path=path, **load_kw)
    elif filed and cls == "gb":
        path = os.path.join(tmp, f"in{len(os.listdir(tmp))}.gb")
        with open(path, "w") as f:
            f.write(gb_text([["s1", L, gb_feats_of(filed)]]))
        db = load_annotations(path=path, **load_kw)
    else:
        db = _cls(cls)()
    for r in recs:
        if not file_ok(cls, r):
            add_user(db, r)
    return db, [[item_kind(cls, r), r] for r in recs]


def _attr_norm(a):
    if isinstance(a, dict):
        return ("quals",) + tuple(sorted((k, tuple(v)) for k, v in a.items() if k != "raw_location"))
    return a


def real_full(row):
    return (row["seqid"], row["biotype"], row["name"], norm_spans(row["spans"]), row["strand"],
            _attr_norm(row.get("attributes")), bool(row.get("on_alignment")), row["start"], row["stop"])


def real_feature(row):
    return (row["seqid"], row["biotype"], row["name"], norm_spans(row["spans"]), row["strand"],
            bool(row.get("on_alignment")))


def view(db):
    return [real_full(r) for r in db.get_records_matching()]


def raw_rows(db):
    """every column of every row, for the operations that must be the identity on the record multiset"""
    out = []
    for r in db.get_records_matching():
        out.append(tuple(sorted((k, repr(v.tolist()) if hasattr(v, "tolist") else repr(v)) for k, v in r.items())))
    return sorted(out)


def wild(tuples, items):
    """spec records whose name the format does not determine (name None) match any otherwise-unknown name"""
    if all(it[1]["name"] is not None for it in items):
        return tuples
    known = {it[1]["name"] for it in items}
    return [t if t[2] in known else t[:2] + (None,) + t[3:] for t in tuples]


def describe(res):
    kind, missing, extra = res
    bits = []
    if missing:
        it = missing[0]
        bits.append(f"missing[{it[0]},{span_kind(it[1]['spans'])}]")
    if extra:
        bits.append(f"extra[{span_kind(extra[0][3])}]")
    return "+".join(bits)


def explain(res, proj):
    kind, missing, extra = res
    return f"missing {[proj(it) for it in missing]}, unexpected {extra}"


def check_view(db, items, where):
    """None or (witness, message): the whole abstract view of db equals the item list"""
    try:
        got = view(db)
        n = len(db)
    except Exception as e:
        return f"{where} raises {type(e).__name__}", f"{type(e).__name__}: {e}"
    res = compare(wild(got, items), items, [], proj_full)
    if res:
        return f"{where} {describe(res)}", explain(res, proj_full)
    if n != len(items):
        return f"{where} len", f"len(db) = {n}, {len(items)} records expected"
    return None


# ------------------------------------------------------------------------------------------------ record sets
SET_A = [
    R("s1", "gene", "g1", [[2, 5]], "+", "file", quals=[["note", "kinase"]]),
    R("s1", "gene", "g2", [[1, 3], [6, 8]], "-", "file"),
    R("s1", "exon", "e1", [[2, 5]], "+", "file", quals=[["Parent", "g1"]]),
    R("s1", "exon", "e2", [[5, 9]], "-", "file"),
    R("s2", "gene", "g3", [[0, 12]], "+", "file", quals=[["note", "kinase"]]),
    R("s1", "exon", "g1", [[4, 4]], "+", "user"),
    R("s2", "cds", "g1", [[8, 10], [10, 12]], "-", "user", attrs="note=kinase2"),
    R("s1", "gene", "g4", [[9, 12]], None, "user", on_aln=True),
    R("s1", "cds", "n1", [[1, 11], [3, 4]], "+", "file"),      # nested spans (extent is not last row's end)
]
SET_B = [
    R("s1", "gene", "a", [[0, 1]], "+", "file"),
    R("s1", "gene", "b", [[11, 12]], "-", "file"),
    R("s1", "gene", "c", [[3, 4], [8, 9]], "+", "file", quals=[["note", "kinase"]]),
    R("s1", "exon", "d", [[4, 8]], ".", "file"),
    R("s1", "gene", "g1", [[5, 7]], "+", "user"),
    R("s1", "gene", "g1", [[5, 7]], "+", "user"),
    R("s2", "exon", "g1", [[6, 6]], "-", "user", attrs="kinase"),
    R("s2", "gene", "G1", [[7, 12]], None, "user"),      # differs from the queried name g1 only in case
]


def random_set(rnd, n):
    recs = []
    for i in range(n):
        src = rnd.choice(("file", "user"))
        nsp = rnd.choice((1, 1, 2))
        pts = sorted(rnd.randint(0, L) for _ in range(2 * nsp))
        spans = [[pts[2 * j], pts[2 * j + 1]] for j in range(nsp)]
        if src == "file":
            spans = [[s, e if e > s else s + 1] for s, e in spans if s < L] or [[0, 1]]
        recs.append(R(rnd.choice(("s1", "s1", "s2")), rnd.choice(("gene", "exon")),
                      f"f{i}" if src == "file" else rnd.choice(("g1", "g2")), spans,
                      rnd.choice(("+", "-")) if src == "file" else rnd.choice(("+", "-", None)), src,
                      attrs=rnd.choice((None, "note=kinase")) if src == "user" else None,
                      quals=rnd.choice(([], [["note", "kinase"]])) if src == "file" else [],
                      on_aln=(src == "user" and rnd.random() < 0.2)))
    return recs


# ------------------------------------------------------------------------------------------------ query
QKEYS = ("seqid", "biotype", "name", "strand", "attributes", "start", "stop", "allow_partial")
# on_alignment is deliberately not a query argument here: the property statement lists seqid, biotype, name,
# strand, attributes and the coordinate window (on Gff/Genbank dbs the column does not exist and the query
# raises; that is outside what C17 states).  The on_alignment *column* is still compared in every returned record.
VALUES = {"seqid": ["s1", "s2", "zz"], "biotype": ["gene", "exon"], "name": ["g1"], "strand": ["+", "-"],
          "attributes": ["kinase"]}


def windows(full):
    if full:
        w = [(S, E) for S in range(L + 1) for E in range(S, L + 1)]
        w += [(S, None) for S in range(L + 1)] + [(None, E) for E in range(L + 1)]
    else:
        w = [(0, 12), (2, 5), (2, 6), (3, 8), (4, 4), (5, 5), (0, 2), (9, 12), (6, 7), (4, None), (None, 7)]
    return [(None, None, False)] + [(S, E, p) for (S, E) in w for p in (False, True)]


def gen_query(tier, seed):
    thorough = tier == "thorough"
    rnd = random.Random(seed)
    names = list(VALUES)
    sets = [SET_A, SET_B]
    # (1) every argument-presence pattern x every window of the lattice
    for recs in sets if thorough else sets[:1]:
        for cls in CLASSES:
            for present in itertools.product((False, True), repeat=len(names)):
                vals = [VALUES[n][0] if p else None for n, p in zip(names, present)]
                for S, E, p in windows(True):
                    yield [cls, recs, vals + [S, E, p]]
    # (2) every value combination x reduced windows (thorough: every window)
    for recs in sets:
        for cls in CLASSES:
            for vals in itertools.product(*[[None] + VALUES[n] for n in names]):
                for S, E, p in windows(thorough):
                    yield [cls, recs, list(vals) + [S, E, p]]
    # (3) seeded random record sets
    for _ in range(60 if thorough else 6):
        recs = random_set(rnd, rnd.randint(1, 5))
        for cls in CLASSES:
            for _ in range(400 if thorough else 150):
                vals = [rnd.choice([None, None] + VALUES[n]) for n in names]
                S, E, p = rnd.choice(windows(True))
                yield [cls, recs, vals + [S, E, p]]


_DBS = {}
_MIN = {}       # (db, method, witness, argument pattern) -> minimised failure key: one minimisation per pattern


def cached_db(cls, recs):
    key = (cls, json.dumps(recs, sort_keys=True))
    if key not in _DBS:
        if len(_DBS) > 64:
            _DBS.clear()
            _MIN.clear()
        with _tmpdir() as tmp:
            _DBS[key] = build(cls, recs, tmp)
    return _DBS[key]


def run_query(db, items, q, method):
    """None, or (witness kind, message)"""
    kw = {k: v for k, v in q.items() if v is not None and not (k == "allow_partial" and v is False)}
    if method == "num_matches":
        kw = {k: v for k, v in kw.items() if k not in ("start", "stop", "allow_partial")}
    try:
        if method == "get_features_matching":
            got = [real_feature(r) for r in db.get_features_matching(**kw)]
        elif method == "get_records_matching":
            got = [real_full(r) for r in db.get_records_matching(**kw)]
        else:
            got = db.num_matches(**kw)
    except Exception as e:
        return f"raises {type(e).__name__}", f"{method}({kw}) raises {type(e).__name__}: {e}"
    proj = proj_feature if method == "get_features_matching" else proj_full
    first = None
    for alt in alternatives(q):
        must, may = select(items, q, alt)
        if method == "num_matches":
            if len(must) <= got <= len(must) + len(may):
                return None
            first = first or (("count low" if got < len(must) else "count high"),
                              f"{method}({kw}) = {got}, linear scan selects {len(must)}"
                              + (f"..{len(must) + len(may)}" if may else ""))
            continue
        res = compare(got, must, may, proj)
        if res is None:
            return None
        first = first or (describe(res), f"{method}({kw}): {explain(res, proj)}; linear scan selects "
                                         f"{[proj(it) for it in must]}")
    return first


def query_pattern(q):
    args = [k for k in QKEYS[:5] if q.get(k) is not None]
    S, E = q.get("start"), q.get("stop")
    win = "none" if S is None and E is None else "start-only" if E is None else "stop-only" if S is None else \
        "empty-window" if S == E else "window"
    return "+".join(args) or "no-filter", win + ("/partial" if q.get("allow_partial") and win != "none" else "")


WINDOW_CUTS = ({"start": None, "stop": None, "allow_partial": False}, {"allow_partial": False}, {"stop": None},
               {"start": None})


def minimise_query(db, items, q, method, kind):
    """greedily drop arguments while the same kind of failure persists"""
    q = dict(q)
    same = lambda r: r is not None and r[0].split("[")[0] == kind.split("[")[0]
    if method == "num_matches":
        q.update(start=None, stop=None, allow_partial=False)
    for k in QKEYS[:5]:
        if q.get(k) is None:
            continue
        trial = dict(q, **{k: None})
        if same(run_query(db, items, trial, method)):
            q = trial
    # the window: drop it altogether, else drop allow_partial, else one side
    for change in WINDOW_CUTS:
        trial = dict(q, **change)
        if trial != q and same(run_query(db, items, trial, method)):
            q = trial
    return q


def contract_query(case):
    cls, recs, qv = case
    q = dict(zip(QKEYS, qv))
    db, items = cached_db(cls, recs)
    methods = ["get_features_matching", "get_records_matching"]
    if q["start"] is None and q["stop"] is None and not q["allow_partial"]:
        methods.append("num_matches")
    for m in methods:
        r = run_query(db, items, q, m)
        if r is not None:
            memo = (id(db), m, r[0], query_pattern(q))
            if memo not in _MIN:
                qmin = minimise_query(db, items, q, m, r[0])
                r2 = run_query(db, items, qmin, m) or r
                a, w = query_pattern(qmin)
                _MIN[memo] = (f"query/{cls}/{m}/{a}/{w}/{r2[0]}", r2[1])
            key, msg = _MIN[memo]
            return ("fail", key, f"records {[proj_full(it) for it in items]} in {cls} db: {msg}  [found with {q}]")
    must, may = select(items, q)
    return ("ok", bool(must) and len(must) < len(items))


# ------------------------------------------------------------------------------------------------ counting queries
def gen_counts(tier, seed):
    """count_distinct(seqid=, biotype=, name=) with every argument False / True / a value; biotype_counts(); describe"""
    thorough = tier == "thorough"
    rnd = random.Random(seed + 9)
    sets = [SET_A, SET_B] + [random_set(rnd, rnd.randint(2, 6)) for _ in range(20 if thorough else 4)]
    for recs in sets:
        for cls in CLASSES:
            yield [cls, recs, "biotype_counts", None]
            yield [cls, recs, "describe", None]
            for flags in itertools.product(*[[False, True] + VALUES[k] for k in ("seqid", "biotype", "name")]):
                yield [cls, recs, "count_distinct", list(flags)]


def contract_counts(case):
    cls, recs, method, flags = case
    db, items = cached_db(cls, recs)
    if method == "biotype_counts":
        want = collections.Counter(it[1]["biotype"] for it in items)
        try:
            got = dict(db.biotype_counts())
        except Exception as e:
            return ("fail", f"counts/{cls}/biotype_counts/raises {type(e).__name__}", f"{case}: {type(e).__name__}: {e}")
        if got != dict(want):
            return ("fail", f"counts/{cls}/biotype_counts/differs", f"records {[proj_full(it) for it in items]} in {cls} db: "
                                                                   f"biotype_counts() = {got}, the record list has {dict(want)}")
        return ("ok", len(want) > 1)
    if method == "describe":
        try:
            t = db.describe
            rows = {str(r[0]): int(r[1]) for r in t.to_list()}
        except Exception as e:
            return ("fail", f"counts/{cls}/describe/raises {type(e).__name__}", f"{case}: {type(e).__name__}: {e}")
        want = {}
        for col in ("seqid", "biotype"):
            for k, v in collections.Counter(it[1][col] for it in items).items():
                want[f"{col}({k!r})"] = v
        got = {k: v for k, v in rows.items() if not k.startswith("num_rows")}
        total = sum(v for k, v in rows.items() if k.startswith("num_rows"))
        if got != want or total != len(items):
            return ("fail", f"counts/{cls}/describe/differs", f"records {[proj_full(it) for it in items]} in {cls} db: describe "
                                                             f"= {rows}, the record list has {want} and {len(items)} rows")
        return ("ok", True)
    cols = [k for k, f in zip(("seqid", "biotype", "name"), flags) if f is True]
    cons = {k: f for k, f in zip(("seqid", "biotype", "name"), flags) if isinstance(f, str)}
    kw = {k: f for k, f in zip(("seqid", "biotype", "name"), flags) if f is not False}
    try:
        t = db.count_distinct(**kw)
    except Exception as e:
        return ("fail", f"counts/{cls}/count_distinct/raises {type(e).__name__}", f"count_distinct({kw}): {type(e).__name__}: {e}")
    if not cols:
        return ("ok", False) if t is None else ("fail", f"counts/{cls}/count_distinct/result-without-a-counted-column", f"count_distinct({kw}) = {t!r}")
    q = dict.fromkeys(QKEYS)
    q.update(cons)
    q["allow_partial"] = False
    must, may = select(items, q)
    lo = collections.Counter(tuple(it[1][c] for c in cols) for it in must)
    hi = lo + collections.Counter(tuple(it[1][c] for c in cols) for it in may)
    got = collections.Counter()
    try:
        header = list(t.header)
        for row in t.to_list():
            d = dict(zip(header, row))
            got[tuple(d[c] for c in cols)] += int(d["count"])
    except Exception as e:
        return ("fail", f"counts/{cls}/count_distinct/unreadable-result", f"count_distinct({kw}): {type(e).__name__}: {e}")
    bad = [k for k in set(got) | set(hi) if not lo.get(k, 0) <= got.get(k, 0) <= hi.get(k, 0)]
    if bad:
        pattern = "+".join(f"{k}={'value' if isinstance(v, str) else v}" for k, v in kw.items())
        kind = "count low" if any(got.get(k, 0) < lo.get(k, 0) for k in bad) else "count high"
        return ("fail", f"counts/{cls}/count_distinct/{pattern}/{kind}",
                f"records {[proj_full(it) for it in items]} in {cls} db: count_distinct({kw}) sums to {dict(got)}, a linear "
                f"scan counts {dict(lo)}" + (f"..{dict(hi)}" if may else ""))
    return ("ok", len(lo) > 1 or bool(cons))


# ------------------------------------------------------------------------------------------------ on_alignment queries
def gen_on_alignment(tier, seed):
    """get_features_matching(on_alignment=True/False, [seqid], [biotype]) -- the one query method that accepts the
    argument on every db class"""
    rnd = random.Random(seed + 17)
    sets = [SET_A, SET_B + [R("s1", "gene", "aln1", [[2, 6]], "+", "user", on_aln=True),
                            R("s2", "exon", "aln2", [[0, 3]], "-", "user", on_aln=True)]]
    for _ in range(12 if tier == "thorough" else 3):
        sets.append(random_set(rnd, rnd.randint(2, 6)))
    for recs in sets:
        for cls in CLASSES:
            for oa in (True, False):
                for seqid in (None, "s1", "s2"):
                    for bt in (None, "gene"):
                        yield [cls, recs, oa, seqid, bt]


def contract_on_alignment(case):
    cls, recs, oa, seqid, bt = case
    db, items = cached_db(cls, recs)
    kw = {"on_alignment": oa}
    if seqid is not None:
        kw["seqid"] = seqid
    if bt is not None:
        kw["biotype"] = bt
    q = dict(zip(QKEYS, [seqid, bt, None, None, None, None, None, False]))
    try:
        got = [real_feature(r) for r in db.get_features_matching(**kw)]
    except Exception as e:
        return ("fail", f"on_alignment/{cls}/raises {type(e).__name__}", f"get_features_matching({kw}) raises {type(e).__name__}: {e}")
    must, may = select(items, q)
    must = [it for it in must if bool(it[1].get("on_aln")) == oa]
    may = [it for it in may if bool(it[1].get("on_aln")) == oa]
    res = compare(got, must, may, proj_feature)
    if res is not None:
        others = "+".join(k for k in ("seqid", "biotype") if k in kw) or "alone"
        return ("fail", f"on_alignment/{cls}/on_alignment={oa}/{others}/{describe(res)}",
                f"records {[proj_full(it) for it in items]} in {cls} db: get_features_matching({kw}): {explain(res, proj_feature)}; "
                f"linear scan selects {[proj_feature(it) for it in must]}")
    return ("ok", bool(must) and len(must) < len(items))


# ------------------------------------------------------------------------------------------------ subset
SUBKEYS = ("seqid", "biotype", "name", "strand", "attributes", "start", "stop", "allow_partial")


def gen_subset(tier, seed):
    thorough = tier == "thorough"
    names = SUBKEYS[:5]
    for recs in (SET_A, SET_B) if thorough else (SET_A,):
        for cls in CLASSES:
            for present in itertools.product((False, True), repeat=len(names)):
                vals = [VALUES[n][0] if p else None for n, p in zip(names, present)]
                for S, E, p in windows(thorough):
                    yield [cls, recs, vals + [S, E, p]]
            if thorough:
                for vals in itertools.product(*[[None] + VALUES[n] for n in names]):
                    for S, E, p in windows(False):
                        yield [cls, recs, list(vals) + [S, E, p]]


def run_subset(db, items, q, cls):
    kw = {k: v for k, v in q.items() if v is not None and not (k == "allow_partial" and v is False)}
    try:
        new = db.subset(**kw)
    except Exception as e:
        return f"raises {type(e).__name__}", f"subset({kw}) raises {type(e).__name__}: {e}"
    if _cls_name(new) != cls:
        return "class", f"subset({kw}) returns a {type(new).__name__}"
    try:
        got = view(new)
    except Exception as e:
        return f"view raises {type(e).__name__}", f"reading subset({kw}) raises {type(e).__name__}: {e}"
    first = None
    for alt in alternatives(q):
        must, may = select(items, q, alt)
        res = compare(got, must, may, proj_full)
        if res is None:
            first = None
            break
        first = first or (describe(res), f"subset({kw}): {explain(res, proj_full)}")
    if first:
        return first
    try:
        n = len(new)
    except Exception as e:
        return f"len raises {type(e).__name__}", str(e)
    if n != len(got):
        return "len", f"len(subset) = {n} but it holds {len(got)} records"
    return None


def contract_subset(case):
    cls, recs, qv = case
    q = dict(zip(SUBKEYS, qv))
    db, items = cached_db(cls, recs)
    r = run_subset(db, items, q, cls)
    if r is None:
        r0 = check_view(db, items, "receiver after subset")
        if r0:
            return ("fail", f"subset/{cls}/{r0[0]}", f"{q}: {r0[1]}")
        must, _ = select(items, q)
        return ("ok", bool(must) and len(must) < len(items))
    qmin = dict(q)
    same = lambda rr: rr is not None and rr[0].split("[")[0] == r[0].split("[")[0]
    for k in SUBKEYS[:5]:
        if qmin.get(k) is not None and same(run_subset(db, items, dict(qmin, **{k: None}), cls)):
            qmin[k] = None
    for change in WINDOW_CUTS:
        trial = dict(qmin, **change)
        if trial != qmin and same(run_subset(db, items, trial, cls)):
            qmin = trial
    r2 = run_subset(db, items, qmin, cls) or r
    a, w = query_pattern(qmin)
    return ("fail", f"subset/{cls}/{a}/{w}/{r2[0]}",
            f"records {[proj_full(it) for it in items]} in {cls} db: {r2[1]}  [found with {q}]")


# ------------------------------------------------------------------------------------------------ ops
OPS_A = [
    R("s1", "gene", "g1", [[2, 5]], "+", "file", quals=[["note", "kinase"]]),
    R("s1", "cds", "c1", [[1, 3], [6, 8]], "-", "file", quals=[["Parent", "g1"]]),
    R("s2", "gene", "g1", [[0, 12]], "+", "user", attrs="note=x"),
    R("s1", "exon", "g1", [[4, 4]], None, "user"),
]
OPS_B = [
    R("s1", "gene", "h1", [[3, 9]], "-", "file"),
    R("s2", "gene", "g1", [[0, 12]], "+", "user", attrs="note=x"),     # equal to a record of A: multiset, not set
    R("s3", "exon", "g1", [[7, 8], [10, 11]], "-", "user", on_aln=True),
]
NEW = R("s1", "gene", "new", [[5, 6], [8, 11]], "-", "user", attrs="added")
OPS = [["add"], ["update", None], ["update", "s1"], ["update", ["s2", "s3"]], ["union"], ["runion"],
       ["subset", {"seqid": "s1"}], ["subset", {"name": "g1", "strand": "+"}],
       ["subset", {"biotype": "gene", "start": 1, "stop": 9, "allow_partial": True}],
       ["subset", {"start": 1, "stop": 9}],
       ["deepcopy"], ["pickle"], ["rich"], ["json"], ["write"]]


def gen_ops(tier, seed):
    rnd = random.Random(seed)
    thorough = tier == "thorough"
    for ca in CLASSES:
        for cb in CLASSES:
            for op in OPS:
                yield [ca, OPS_A, cb, OPS_B, [op]]
            for op1 in OPS:
                for op2 in OPS:
                    yield [ca, OPS_A, cb, OPS_B, [op1, op2]]
            for _ in range(1500 if thorough else 60):
                yield [ca, OPS_A, cb, OPS_B, [rnd.choice(OPS) for _ in range(rnd.choice((3, 4)))]]
    if thorough:
        for _ in range(300):
            ra, rb = random_set(rnd, rnd.randint(0, 4)), random_set(rnd, rnd.randint(0, 4))
            for _ in range(6):
                yield [rnd.choice(CLASSES), ra, rnd.choice(CLASSES), rb, [rnd.choice(OPS) for _ in range(rnd.choice((1, 2, 3)))]]


def op_kind(op):
    if op[0] == "update":
        return "update" + ("" if op[1] is None else "(seqids=str)" if isinstance(op[1], str) else "(seqids=list)")
    if op[0] == "subset":
        a, w = query_pattern(op[1])
        return f"subset({a}|{w})"
    return op[0]


IDENTITY = ("deepcopy", "pickle", "rich", "json", "write")


def tables(cls):
    return {"basic": {"user"}, "gff": {"gff", "user"}, "gb": {"gb", "user"}}[cls]


def run_ops(ca, ra, cb, rb, ops, tmp, trace=None):
    """None | ("stop", i) | (index of failing op, witness, message); trace receives the abstract state of A
    before the last operation tried (class, records, file-backed?)"""
    from cogent3.util.deserialise import deserialise_object
    try:
        A, sa = build(ca, ra, tmp)
        B, sb = build(cb, rb, tmp)
    except Exception as e:
        return (-1, f"build raises {type(e).__name__}", str(e))
    frozen = []            # (db, items, label): databases that no later operation may change
    opened = []
    try:
        for who, db, items in (("A", A, sa), ("B", B, sb)):
            r = check_view(db, items, f"initial {who}")
            if r:
                return (-1, r[0], r[1])
        for i, op in enumerate(ops):
            k = op[0]
            clsA = _cls_name(A)
            if trace is not None:
                trace.update(cls=clsA, recs=[it[1] for it in sa], fb=any(A is d for d in opened))
            may_raise = None
            try:
                if k == "add":
                    add_user(A, NEW)
                    sa = sa + [["user", NEW]]
                elif k == "update":
                    if not tables(clsA) >= tables(cb):
                        may_raise = TypeError
                    A.update(B, seqids=op[1])
                    sel = [op[1]] if isinstance(op[1], str) else op[1]
                    sa = sa + [it for it in sb if sel is None or it[1]["seqid"] in sel]
                elif k in ("union", "runion"):
                    if {clsA, cb} == {"gff", "gb"}:
                        may_raise = TypeError
                    new = A.union(B) if k == "union" else B.union(A)
                    frozen.append((A, list(sa), f"receiver of {k}"))
                    A, sa = new, (sa + sb if k == "union" else sb + sa)
                elif k == "subset":
                    q = op[1]
                    must, may = select(sa, q)
                    new = A.subset(**q)
                    frozen.append((A, list(sa), "receiver of subset"))
                    A = new
                    if may:                                    # the statement leaves the result open: check and stop
                        res = compare(view(A), must, may, proj_full)
                        if res:
                            return (i, describe(res), explain(res, proj_full))
                        return ("stop", i)
                    sa = must
                else:
                    before = raw_rows(A)
                    if k == "deepcopy":
                        new = copy.deepcopy(A)
                    elif k == "pickle":
                        new = pickle.loads(pickle.dumps(A))
                    elif k == "rich":
                        new = type(A).from_dict(A.to_rich_dict())
                    elif k == "json":
                        new = deserialise_object(A.to_json())
                    else:
                        path = os.path.join(tmp, f"out{i}.sqlitedb")
                        A.write(path)
                        new = type(A)(source=path)
                        opened.append(new)
                    if type(new) is not type(A):
                        return (i, "class", f"{k} of a {type(A).__name__} gives a {type(new).__name__}")
                    after = raw_rows(new)
                    if before != after:
                        cb_, ca_ = collections.Counter(before), collections.Counter(after)
                        diff = [(dict(x).get("name"), cb_[x], ca_[x]) for x in sorted(set(cb_) | set(ca_))
                                if cb_[x] != ca_[x]][:3]
                        return (i, "rows differ", f"{len(before)} rows before, {len(after)} after; (name, copies before, "
                                                  f"copies after) e.g. {diff}")
                    frozen.append((A, list(sa), f"source of {k}"))
                    A = new
            except Exception as e:
                if may_raise is not None and isinstance(e, may_raise):
                    return ("stop", i)
                return (i, f"raises {type(e).__name__}", f"{type(e).__name__}: {e}")
            r = check_view(A, sa, "result")
            if r:
                return (i, r[0], r[1])
            r = check_view(B, sb, "argument db afterwards")
            if r:
                return (i, r[0], r[1])
            for db, items, label in frozen:
                r = check_view(db, items, label + " afterwards")
                if r:
                    return (i, r[0], r[1])
        return None
    finally:
        for db in opened:
            try:
                db.close()
            except Exception:
                pass


_OPS_MEMO = {}


def base(w):
    """witness without the bracketed detail (which record kind was first missing / extra)"""
    import re
    return re.sub(r"\[[^\]]*\]", "", w)


def contract_ops(case):
    ca, ra, cb, rb, ops = case
    with _tmpdir() as tmp:
        trace = {}
        r = run_ops(ca, ra, cb, rb, ops, tmp, trace)
        if r is None:
            return ("ok", True)
        if r[0] == "stop":
            return ("ok", r[1] > 0) if r[1] > 0 else ("skip",)
        i, wit, msg = r
        if i < 0:
            return ("fail", f"ops/{ca}/{wit}", f"{case}: {msg}")
        op = ops[i]
        binary = op[0] in ("update", "union", "runion")
        arg = f"<-{cb}" if binary else ""

        def same(rr, n):
            return rr is not None and rr[0] == n - 1 and base(rr[1]) == base(wit)
        # (1) does the failure depend only on the abstract state before the failing operation?  Rebuild that
        #     state (class, record list, file-backed or not) and apply the operation alone.
        cls, recs, fb = trace["cls"], trace["recs"], trace["fb"]
        memo = (cls, fb, op_kind(op), base(wit), cb if binary else None)
        if memo in _OPS_MEMO:
            key, m = _OPS_MEMO[memo]
            return ("fail", key, m + f"  [also found with A = {ca} db of {len(ra)} records, operations {ops}]")
        seen, rebuilt = set(), []
        for rec in recs:              # a flat file cannot hold two features of one name: add repeats by hand
            if file_ok(cls, rec) and rec["name"] in seen:
                rec = dict(rec, src="user", attrs=gff_attr_text(rec))
            elif file_ok(cls, rec):
                seen.add(rec["name"])
            rebuilt.append(rec)
        recs = rebuilt
        rbb = rb if binary else []
        sops = [op]
        rr = run_ops(cls, recs, cb, rbb, sops, tmp)
        if fb and not same(rr, len(sops)):
            sops = [["write"], op]
            rr = run_ops(cls, recs, cb, rbb, sops, tmp)
        fb = len(sops) == 2
        if same(rr, len(sops)):
            for rec in list(recs):                       # drop records of A while the failure persists
                trial = [x for x in recs if x is not rec]
                r2 = run_ops(cls, trial, cb, rbb, sops, tmp)
                if same(r2, len(sops)):
                    recs, rr = trial, r2
            key = f"ops/{cls}{arg}/{'file-backed db/' if fb else ''}{op_kind(op)}/{base(wit)}"
            m = f"A = {cls} db of {recs}, B = {cb} db of {rbb}, operations {sops}: {rr[2]}"
            _OPS_MEMO[memo] = (key, m)
            return ("fail", key, m + f"  [found with A = {ca} db of {ra}, operations {ops}]")
        # (2) history dependent: the failing operation with one predecessor, else the whole prefix
        chain = ops[:i + 1]
        for c in [[ops[i]]] + [[ops[j], ops[i]] for j in range(i)]:
            if len(c) < len(chain):
                rr = run_ops(ca, ra, cb, rb, c, tmp)
                if same(rr, len(c)):
                    chain, msg = c, rr[2]
                    break
        arg = f"<-{cb}" if any(o[0] in ("update", "union", "runion") for o in chain) else ""
        return ("fail", f"ops/{ca}{arg}/history {'>'.join(op_kind(o) for o in chain)}/{base(wit)}",
                f"A = {ca} db of {ra}, B = {cb} db of {rb}, operations {chain}: {msg}  [found with {ops}]")


# ------------------------------------------------------------------------------------------------ load_gff
# features of the pool: [seqid, biotype, strand, id, extra attributes, [(start1, end1), ...]]
POOL = [["s1", "gene", "+", "g1", "note=kinase", [(3, 5)]],
        ["s1", "CDS", "-", "c1", "Parent=g1", [(2, 3), (7, 8)]],
        ["s2", "gene", ".", "g3", "", [(1, 12)]],
        ["s1", "exon", "+", None, "Name=x", [(9, 9)]],
        ["s1", "CDS", "+", "c2", "Parent=g1", [(1, 2), (4, 5), (10, 12)]],
        # nested / overlapping rows of one feature: the row with the greatest start does not have the greatest end
        # (added by the reviewer after seeded change C17-s2 took start/stop from the first/last row)
        ["s1", "CDS", "-", "n1", "", [(1, 12), (3, 4)]]]
USER = R("s1", "gene", "u1", [[1, 2]], "+", "user", attrs="by hand")


def rows_of(feats, order):
    per = [[[f[0], f[1], a, b, f[2], f[3], f[4]] for a, b in f[5]] for f in feats]
    if order == "consecutive":
        return [r for rows in per for r in rows]
    if order == "reversed":
        return [r for rows in per for r in reversed(rows)]
    out = []                                   # interleaved: round robin over the features
    for tup in itertools.zip_longest(*per):
        out.extend(r for r in tup if r is not None)
    return out


def gen_load_gff(tier, seed):
    thorough = tier == "thorough"
    rnd = random.Random(seed)
    top = 8
    for a in range(1, top + 1):
        for b in range(a, top + 1):
            for strand in "+-.":
                yield [[["s1", "gene", a, b, strand, "g", ""]], 500000, None, None]
    lpbs = [500000, None, 1, 2, 3, 4]
    for n in (1, 2, 3) + ((4, 5) if thorough else ()):
        for feats in itertools.combinations(POOL, n):
            for order in ("consecutive", "interleaved", "reversed"):
                rows = rows_of(feats, order)
                for lpb in lpbs:
                    for seqids in (None, "s1", ["s2"]):
                        for into in (None, "basic", "gff"):
                            yield [rows, lpb, seqids, into]
    for _ in range(3000 if thorough else 200):
        feats = []
        for i in range(rnd.randint(1, 4)):
            pts = sorted(rnd.sample(range(1, 31), 2 * rnd.randint(1, 3)))
            feats.append([rnd.choice(("s1", "s2")), rnd.choice(("gene", "CDS")), rnd.choice("+-."),
                          rnd.choice((f"id{i}", f"id{i}", None)), rnd.choice(("", "note=kinase")),
                          [(pts[2 * j], pts[2 * j + 1]) for j in range(len(pts) // 2)]])
        for f in feats:
            if f[3] is None:
                f[5] = f[5][:1]
        rows = rows_of(feats, rnd.choice(("consecutive", "interleaved", "reversed")))
        yield [rows, rnd.choice(lpbs + [5, 7]), rnd.choice((None, None, "s1", ["s1", "s2"])),
               rnd.choice((None, None, "basic", "gff"))]


def block_kind(rows, lpb):
    if lpb is None or lpb > len(rows) + 1:
        return "one block"
    lines = [None] + [r[5] for r in rows]            # the header line counts
    seen, split = {}, False
    for i, ident in enumerate(lines):
        if ident is None:
            continue
        b = i // lpb
        if ident in seen and seen[ident] != b:
            split = True
        seen.setdefault(ident, b)
    return "feature rows split across blocks" if split else "several blocks, no feature split"


def run_load_gff(rows, lpb, seqids, into, tmp):
    from cogent3.core.annotation_db import load_annotations
    path = os.path.join(tmp, f"f{len(os.listdir(tmp))}.gff")
    with open(path, "w") as f:
        f.write(gff_text(rows))
    items = [["gff", r] for r in gff_spec_records(rows, seqids)]
    kw = {}
    if into:
        pre = _cls(into)()
        add_user(pre, USER)
        kw["db"] = pre
        items = [["user", USER]] + items
    if seqids is not None:
        kw["seqids"] = seqids
    try:
        db = load_annotations(path=path, lines_per_block=lpb, **kw)
    except Exception as e:
        return f"raises {type(e).__name__}", f"{type(e).__name__}: {e}"
    if _cls_name(db) != "gff":
        return "class", f"load_annotations returns a {type(db).__name__}"
    return check_view(db, items, "loaded db")


def contract_load_gff(case):
    rows, lpb, seqids, into = case
    with _tmpdir() as tmp:
        r = run_load_gff(rows, lpb, seqids, into, tmp)
        if r is None:
            return ("ok", True)
        # minimise: drop the seqid filter, the pre-existing db
        if seqids is not None:
            rr = run_load_gff(rows, lpb, None, into, tmp)
            if rr is not None and base(rr[0]) == base(r[0]):
                seqids, r = None, rr
        if into is not None:
            rr = run_load_gff(rows, lpb, seqids, None, tmp)
            if rr is not None and base(rr[0]) == base(r[0]):
                into, r = None, rr
        multi = "multi-row feature" if len({x[5] for x in rows if x[5] is not None}) < len(
            [x for x in rows if x[5] is not None]) else "single-row features"
        pat = [block_kind(rows, lpb), multi] + (["seqids filter"] if seqids is not None else []) + (
            [f"into {into} db"] if into else [])
        return ("fail", f"load_gff/{'/'.join(pat)}/{base(r[0])}",
                f"GFF text {gff_text(rows)!r}, lines_per_block={lpb}, seqids={seqids}, db={into}: {r[1]}")


# ------------------------------------------------------------------------------------------------ load_genbank
def gen_load_genbank(tier, seed):
    thorough = tier == "thorough"
    rnd = random.Random(seed)
    top = 8
    # one feature: every span / pair of spans on the lattice x location form x strand
    for s in range(top):
        for e in range(s + 1, top + 1):
            for strand in "+-":
                for form in ("std", "single", "fuzzy", "inner"):
                    if form == "single" and e != s + 1:
                        continue
                    if form == "inner" and strand == "+":
                        continue
                    yield [[["s1", [["gene", [[s, e]], strand, form, [["gene", "g1"]]]]]]]
    pts = range(top + 1)
    for s1, e1, s2, e2 in itertools.combinations_with_replacement(pts, 4):
        if not (s1 < e1 <= s2 < e2):
            continue
        for strand in "+-":
            for form in ("std", "fuzzy", "inner"):
                if form == "inner" and strand == "+":
                    continue
                yield [[["s1", [["CDS", [[s1, e1], [s2, e2]], strand, form, [["gene", "g1"]]]]]]]
    # several features: shared names, unnamed features, extra qualifiers; two loci in one file
    F = [["gene", [[2, 5]], "+", "std", [["gene", "g1"], ["note", "kinase"]]],
         ["CDS", [[2, 3], [4, 5]], "+", "std", [["gene", "g1"], ["product", "a kinase"]]],
         ["gene", [[1, 8]], "-", "std", [["locus_tag", "t2"]]],
         ["misc_feature", [[6, 7]], "+", "single", []],
         ["exon", [[0, 12]], "-", "inner", [["gene", "g1"]]]]
    for n in (2, 3) + ((4, 5) if thorough else ()):
        for feats in itertools.permutations(F, n) if n < 4 else itertools.combinations(F, n):
            yield [[["s1", [list(f) for f in feats]]]]
    for f1 in F:
        for f2 in F:
            yield [[["s1", [f1]], ["s2", [f2]]]]                      # two loci in one file
            yield [[["s1", [f1]], ["s2", [f2]]], "file per locus"]    # two files loaded into one db (db=...)
    for _ in range(2000 if thorough else 100):
        feats = []
        for i in range(rnd.randint(1, 4)):
            n = rnd.randint(1, 3)
            p = sorted(rnd.sample(range(0, 40), 2 * n))
            strand = rnd.choice("+-")
            form = rnd.choice(("std", "fuzzy", "single") + (("inner",) if strand == "-" else ()))
            feats.append([rnd.choice(("gene", "CDS", "exon")), [[p[2 * j], p[2 * j + 1]] for j in range(n)], strand,
                          form, rnd.choice(([["gene", "g1"]], [["gene", f"g{i}"], ["note", "kinase"]], []))])
        yield [[["s1", feats]]]


def gb_spec_records(loci):
    recs = []
    for locus, feats in loci:
        for key, spans, strand, form, quals in feats:
            name = next((v for k, v in quals if k in ("gene", "locus_tag")), None)
            recs.append({"seqid": locus, "biotype": key, "name": name, "spans": [list(s) for s in spans],
                         "strand": strand, "attrs": None, "quals": [list(q) for q in quals], "on_aln": False,
                         "src": "gbtext"})
    return recs


def contract_load_genbank(case):
    from cogent3.core.annotation_db import load_annotations
    loci = case[0]
    text = gb_text([[locus, 40, [[key, gb_location(spans, strand, form), quals]
                                 for key, spans, strand, form, quals in feats]] for locus, feats in loci])
    items = [["gb", r] for r in gb_spec_records(loci)]
    forms = sorted({f[3] for _, feats in loci for f in feats})
    shape = ("multi-locus file" if len(loci) > 1 else "one feature" if len(loci[0][1]) == 1 else "several features")
    nsp = max(len(f[1]) for _, feats in loci for f in feats)
    per_locus = len(case) > 1 and case[1] == "file per locus"
    if per_locus:
        shape = "one file per locus into one db"
    with _tmpdir() as tmp:
        try:
            if per_locus:
                db = None
                for i, (locus, feats) in enumerate(loci):
                    path = os.path.join(tmp, f"in{i}.gb")
                    with open(path, "w") as f:
                        f.write(gb_text([[locus, 40, [[key, gb_location(spans, strand, form), quals]
                                                      for key, spans, strand, form, quals in feats]]]))
                    db = load_annotations(path=path, db=db)
            else:
                path = os.path.join(tmp, "in.gb")
                with open(path, "w") as f:
                    f.write(text)
                db = load_annotations(path=path)
        except Exception as e:
            return ("fail", f"load_genbank/{shape}/raises {type(e).__name__}",
                    f"GenBank text {text!r}: {type(e).__name__}: {e}")
        r = check_view(db, items, "loaded db")
        if r is None:
            return ("ok", True)
        if len(loci) > 1:
            key = f"load_genbank/{shape}/{r[0]}"
        else:
            strands = "".join(sorted({f[2] for _, feats in loci for f in feats}))
            key = f"load_genbank/{shape}/{'+'.join(forms)}/{'multi-span' if nsp > 1 else '1-span'}/strand {strands}/{r[0]}"
        return ("fail", key, f"GenBank text {text!r}: {r[1]}")


# ------------------------------------------------------------------------------------------------ gb_family
FAMILY = [
    R("s1", "gene", "g1", [[1, 10]], "+", "file"),
    R("s1", "mRNA", "g1", [[1, 4], [6, 10]], "+", "file"),
    R("s1", "CDS", "g1", [[2, 4], [6, 9]], "+", "file"),
    R("s1", "gene", "g2", [[3, 8]], "-", "file"),
    R("s1", "CDS", "g2", [[3, 5]], "-", "file"),
    R("s1", "exon", "g1", [[10, 12]], "+", "user"),
]


def gen_family(tier, seed):
    for name in ("g1", "g2", "zz"):
        for S in range(L + 1):
            for E in range(S + 1, L + 1):
                for biotype in (None, "CDS"):
                    for excl in (None, "gene"):
                        yield ["children", name, S, E, biotype, excl]
                for excl in (None, "CDS"):
                    yield ["parent", name, S, E, None, excl]


def contract_family(case):
    which, name, S, E, biotype, excl = case
    db, items = cached_db("gb", FAMILY)
    exp = []
    for it in items:
        r = it[1]
        rs, re_ = extent(r)
        if r["name"] != name or (excl is not None and r["biotype"] == excl):
            continue
        if which == "children":
            ok = (biotype is None or r["biotype"] == biotype) and S <= rs and re_ <= E      # lies within the window
        else:
            ok = rs <= S and E <= re_                                                        # contains the window
        if ok:
            exp.append(it)
    kw = dict(name=name, start=S, stop=E)
    if excl is not None:
        kw["exclude_biotype"] = excl
    if biotype is not None:
        kw["biotype"] = biotype
    try:
        f = db.get_feature_children if which == "children" else db.get_feature_parent
        got = [real_feature(r) for r in f(**kw)]
    except Exception as e:
        return ("fail", f"gb_family/{which}/raises {type(e).__name__}", f"{kw}: {type(e).__name__}: {e}")
    res = compare(got, exp, [], proj_feature)
    if res:
        pat = "+".join(k for k in ("biotype", "exclude_biotype") if k in kw) or "name+window"
        return ("fail", f"gb_family/{which}/{pat}/{describe(res)}",
                f"get_feature_{which}({kw}) on {[proj_feature(it) for it in items]}: {explain(res, proj_feature)}")
    return ("ok", bool(exp))


BOUNDED = {
    "on_alignment": {
        "gen": gen_on_alignment, "contract": contract_on_alignment,
        "functions": ["SqliteAnnotationDbMixin.get_features_matching (on_alignment argument; user table vs gff / gb tables)"],
        "bound": "Basic/Gff/Genbank db holding the two fixed record sets (the second with two more alignment-level user "
                 "records) and 3 (thorough 12) seeded random sets; on_alignment True / False x seqid (none, s1, s2) x biotype "
                 "(none, gene)",
        "rule": "a record matches on_alignment=v iff its on_alignment flag is v (file-derived records: False); compared "
                "with the linear scan as a multiset; non-trivial when the scan selects some but not all records",
    },
    "counts": {
        "gen": gen_counts, "contract": contract_counts,
        "functions": ["SqliteAnnotationDbMixin.count_distinct", "SqliteAnnotationDbMixin.biotype_counts",
                      "SqliteAnnotationDbMixin.describe"],
        "bound": "Basic/Gff/Genbank db holding the two fixed record sets and 4 (thorough 20) seeded random sets (file-loaded "
                 "and user-added rows, so both tables are populated); count_distinct with each of seqid / biotype / name "
                 "False, True or a value (all 5 x 4 x 3 combinations); biotype_counts(); describe",
        "rule": "counts summed per distinct value combination over the rows of the returned table == Counter over the "
                "record list restricted by the value constraints (linear scan); biotype_counts / describe == Counter over "
                "the record list",
    },
    "query": {
        "gen": gen_query, "contract": contract_query,
        "functions": ["SqliteAnnotationDbMixin.get_features_matching", "SqliteAnnotationDbMixin.get_records_matching",
                      "SqliteAnnotationDbMixin.num_matches", "annotation_db._matching_conditions",
                      "annotation_db._select_records_sql", "annotation_db._count_records_sql",
                      "SqliteAnnotationDbMixin.add_feature", "load_annotations (to fill the gff / gb tables)"],
        "bound": "Basic/Gff/Genbank db holding 2 fixed 8-record sets (1-2 spans, both strands, default and '.' strand, "
                 "shared names, duplicate records, empty spans, 2 seqids, file-loaded + user-added rows) on a length-12 "
                 "lattice; all 64 presence patterns of (seqid, biotype, name, strand, attributes, on_alignment) x every "
                 "window 0<=S<=E<=12, start-only, stop-only x allow_partial; all 432 value combinations x 11 windows "
                 "(thorough: every window); seeded random record sets of 1-5 records x random queries",
        "rule": "a case = (class, record list, one query); the three query methods are compared with the linear scan "
                "over whole result records; non-trivial when the scan selects a proper non-empty subset",
    },
    "subset": {
        "gen": gen_subset, "contract": contract_subset,
        "functions": ["SqliteAnnotationDbMixin.subset"],
        "bound": "the query record sets; all 32 presence patterns of (seqid, biotype, name, strand, attributes) x 11 "
                 "windows x allow_partial (thorough: every window of the lattice, and all value combinations x 11 "
                 "windows, both record sets) x 3 classes",
        "rule": "a case = (class, record list, one query); view(subset) == scan, same class, receiver unchanged",
    },
    "ops": {
        "gen": gen_ops, "contract": contract_ops,
        "functions": ["SqliteAnnotationDbMixin.update", "SqliteAnnotationDbMixin.union",
                      "SqliteAnnotationDbMixin.subset", "SqliteAnnotationDbMixin.add_feature",
                      "SqliteAnnotationDbMixin.__deepcopy__", "SqliteAnnotationDbMixin.__getstate__/__setstate__",
                      "SqliteAnnotationDbMixin.to_rich_dict/from_dict", "SqliteAnnotationDbMixin.to_json + "
                      "deserialise_object", "SqliteAnnotationDbMixin.write + reopening with source=path"],
        "bound": "A (4 records) and B (3 records, one equal to a record of A) in each of the 3x3 class pairs; every "
                 "operation and every ordered pair of the 15 operations (add, update with seqids None/str/list, union "
                 "both ways, 4 subset queries, deepcopy, pickle, rich dict, json, write+reopen); seeded chains of "
                 "length 3-4; thorough: random record sets 0-4 records x random chains",
        "rule": "a case = (class A, records A, class B, records B, operation chain); after every operation the whole "
                "view of the result equals the list operation, B and every earlier db are unchanged, identity "
                "operations keep every column; TypeError allowed for documented incompatible class pairs",
        "shards": 16,
    },
    "load_gff": {
        "gen": gen_load_gff, "contract": contract_load_gff,
        "functions": ["annotation_db.load_annotations", "annotation_db._db_from_gff", "gff.gff_parser",
                      "gff.merged_gff_records", "GffAnnotationDb.add_records", "GffAnnotationDb.update_record_spans"],
        "bound": "every 1-row feature 1<=a<=b<=8 x strand +-.; every 1-3 (thorough 1-5) subset of 5 features (1-3 rows, "
                 "2 seqids, one without ID) x 3 row orders x lines_per_block {default, None, 1, 2, 3, 4} x seqids "
                 "{None, str, list} x loaded into {nothing, Basic db, Gff db holding a user record}; seeded random files",
        "rule": "a case = (rows, lines_per_block, seqids, pre-existing db); view(db) == records read off the rows "
                "(rows sharing an ID are one feature; start-1, end)",
    },
    "load_genbank": {
        "gen": gen_load_genbank, "contract": contract_load_genbank,
        "functions": ["annotation_db.load_annotations", "annotation_db._db_from_genbank", "genbank.minimal_parser",
                      "genbank.parse_feature", "genbank.parse_location_line", "genbank.Location.start/stop",
                      "genbank.LocationList.get_coordinates/strand", "GenbankAnnotationDb.add_records"],
        "bound": "one feature: every span 0<=s<e<=8 and every ordered pair of spans on that lattice x strand x location "
                 "form (a..b, bare position, <a..>b, join, complement(join), join(complement,...)); 2-3 (thorough 2-5) "
                 "of 5 features with shared /gene names, locus_tag, unnamed features; 25 two-locus files and the same "
                 "loci as two files loaded into one db; seeded files",
        "rule": "a case = loci with features; view(db) == records read off the feature table (start-1, end; "
                "complement -> '-'; seqid = LOCUS; name = /gene or /locus_tag, unnamed features match any name)",
    },
    "gb_family": {
        "gen": gen_family, "contract": contract_family,
        "functions": ["GenbankAnnotationDb.get_feature_children", "GenbankAnnotationDb.get_feature_parent",
                      "SqliteAnnotationDbMixin._get_feature_by_id"],
        "bound": "6 records (2 gene families, file + user rows) x names {g1, g2, absent} x every window 0<=S<E<=12 x "
                 "biotype / exclude_biotype presence",
        "rule": "a case = one call; result == records of that name lying within (children) / containing (parent) the "
                "window; non-trivial when non-empty",
    },
}
