"""Bounded run-time contracts for C03 (never counted as proved).

Abstract view of an alignment / collection:  rows(x) = [(name, gapped string)] in display order, together with
len(x), the moltype label and the class.  Contract text, for every operation `op` of a history:

    rows(op(x)) == op_spec(rows(x))            (op_spec works on plain Python strings / lists only)
    class, moltype, names order, len, seqs, equal row lengths all agree with the spec state
    the receiver is unchanged
    ArrayAlignment and Alignment give the same rows for the same history (each case runs both classes)
    every read-only method answers on the result as on a new object built from rows(result)

Where the property statement leaves behaviour open the spec returns *several* acceptable states (e.g. whether `?`
counts as a gap; the two readings of the gap fraction for motif_length > 1) or the contract skips (documented
refusals: NotImplementedError for strides, IndexError for slice bounds outside [-L, L], rc of protein).
"""
from __future__ import annotations

import itertools
import random
from fractions import Fraction

import numpy

# ------------------------------------------------------------------------------------------------ plain-string spec
DNA_COMP = dict(zip("ACGTRYMKSWNBVDH-?", "TGCAYRKMSWNVBHD-?"))
RNA_COMP = dict(zip("ACGURYMKSWNBVDH-?", "UGCAYRKMSWNVBHD-?"))
NONDEGEN = {"dna": set("ACGT"), "rna": set("ACGU"), "protein": set("ACDEFGHIKLMNPQRSTVWY")}
FRACS = {"0": Fraction(0), "1/4": Fraction(1, 4), "1/2": Fraction(1, 2), "1-eps": Fraction(999999, 1000000),
         "1": Fraction(1)}
FRAC_FLOAT = {"0": 0, "1/4": 0.25, "1/2": 0.5, "1-eps": 1 - 1e-6, "1": 1}
FRESH = {"dna": ["A-C", "-GT", "RC-"], "rna": ["A-C", "-GU", "RC-"], "protein": ["M-K", "-LV", "BC-"]}


class SpecSkip(Exception):
    """the precondition of the operation does not hold / the statement leaves the behaviour open"""


def comp(s, mt):
    t = DNA_COMP if mt == "dna" else RNA_COMP
    return "".join(t[c] for c in s)


def _len(rows):
    return len(rows[0][1]) if rows else 0


def _cols(rows, keep):
    return [[n, "".join(s[i] for i in keep)] for n, s in rows]


def _motif_cols(rows, m):
    """list over complete motifs j of the list (over rows) of the motif strings; the incomplete tail is dropped"""
    L = _len(rows)
    return [[s[j * m:(j + 1) * m] for _, s in rows] for j in range(L // m)]


def _keep_motifs(rows, m, flags):
    keep = [i for j, f in enumerate(flags) if f for i in range(j * m, (j + 1) * m)]
    return _cols(rows, keep)


def sample_idx(recipe, pop):
    if recipe == "rev":
        return list(range(pop))[::-1]
    if recipe == "evod":
        return list(range(0, pop, 2)) + list(range(1, pop, 2))
    if recipe == "revhalf":
        return list(range(pop))[::-1][:max(1, pop // 2)]
    if recipe == "dup":
        return [0, 0, pop - 1]
    if recipe == "last2":
        return [pop - 1, pop - 1]
    raise ValueError(recipe)


def resolve(op, st):
    """make the op concrete for the current state (indices relative to the current length / names)"""
    rows = st["rows"]
    L, n = _len(rows), len(rows)
    k = op[0]
    if k == "tp":
        return ["tp", [c for c in op[1] if -L <= c < L], op[2]]
    if k == "ts":
        idx = [i for i in op[1] if i < n]
        return ["ts", [rows[i][0] for i in idx], op[2]]
    if k == "ts1":
        return ["ts1", rows[op[1] % n][0], op[2]]
    if k == "dr":
        return ["dr", rows[op[1] % n][0]]
    return op


def spec_apply(st, op):
    """-> list of acceptable successor states (rows, mt, arr); op must already be resolved"""
    rows, mt, arr = st["rows"], st["mt"], st["arr"]
    L, n = _len(rows), len(rows)
    k = op[0]

    def out(*alts, mt2=mt, arr2=arr):
        uniq = []
        for r in alts:
            if r not in uniq:
                uniq.append(r)
        return [{"rows": r, "mt": mt2, "arr": arr2} for r in uniq]

    if k == "sl":
        a, b, c = op[1:]
        return out([[nm, s[a:b:c]] for nm, s in rows])
    if k == "ix":
        i = op[1]
        if not -L <= i < L:
            raise SpecSkip("index out of range")
        return out([[nm, s[i]] for nm, s in rows])
    if k == "rc":
        if mt not in ("dna", "rna"):
            raise SpecSkip("rc of non-nucleic")
        return out([[nm, comp(s[::-1], mt)] for nm, s in rows])
    if k == "tp":
        cols, neg = op[1], op[2]
        if neg:
            if any(c < 0 for c in cols):
                raise SpecSkip("negated negative index")
            return out(_cols(rows, [i for i in range(L) if i not in cols]))
        return out(_cols(rows, cols))
    if k == "gsa":        # ArrayAlignment.get_sub_alignment: sequences and positions by index, kept or omitted
        sq, ps, nsq, nps = op[1:]
        if not arr:
            raise SpecSkip("index-based sub-alignment is an ArrayAlignment method")

        def pick(idx, size, neg):
            if idx is None:
                return list(range(size))
            if any(not -size <= i < size for i in idx):
                raise SpecSkip("index out of range")
            norm_ = [i % size for i in idx]
            return [i for i in range(size) if i not in norm_] if neg else norm_
        keep_rows, keep_cols = pick(sq, n, nsq), pick(ps, L, nps)
        if len(set(keep_rows)) != len(keep_rows):
            raise SpecSkip("duplicate sequences")
        return out([[rows[r][0], "".join(rows[r][1][c] for c in keep_cols)] for r in keep_rows])
    if k == "ts1":        # one sequence named by a plain str
        return spec_apply(st, ["ts", [op[1]], op[2]])
    if k == "ts":
        names, neg = op[1], op[2]
        d = dict(map(tuple, rows))
        if neg:
            return out([[nm, s] for nm, s in rows if nm not in names])
        if len(set(names)) != len(names):
            raise SpecSkip("duplicate names")
        return out([[nm, d[nm]] for nm in names])
    if k == "og":
        frac, m = FRACS[op[1]], op[2]
        mc = _motif_cols(rows, m)
        alts = []
        gapsets = ["-?"] if not any("?" in s for _, s in rows) else ["-?", "-"]
        for gaps in gapsets:
            # reading 1: fraction of gap characters in the motif column
            alts.append(_keep_motifs(rows, m, [Fraction(sum(ch in gaps for mo in col for ch in mo), n * m) <= frac
                                               for col in mc]))
            # reading 2 (docstring): a motif that includes a gap at any position counts as a gap
            alts.append(_keep_motifs(rows, m, [Fraction(sum(any(ch in gaps for ch in mo) for mo in col), n) <= frac
                                               for col in mc]))
        return out(*alts)
    if k == "nd":
        m, allow_gap = op[1], op[2]
        if mt not in NONDEGEN:
            raise SpecSkip("no degenerates for this moltype")
        ok = NONDEGEN[mt] | ({"-"} if allow_gap else set())
        return out(_keep_motifs(rows, m, [all(ch in ok for mo in col for ch in mo) for col in _motif_cols(rows, m)]))
    if k == "fl":
        pred, m = op[1], op[2]
        f = SPEC_PRED[pred]
        return out(_keep_motifs(rows, m, [f(col) for col in _motif_cols(rows, m)]))
    if k == "dr":
        ref = dict(map(tuple, rows))[op[1]]
        alts = [_cols(rows, [i for i in range(L) if ref[i] != "-"])]
        if "?" in ref:
            alts.append(_cols(rows, [i for i in range(L) if ref[i] not in "-?"]))
        return out(*alts)
    if k == "sa":
        recipe, m, repl = op[1], op[2], op[3]
        pop = L // m
        if pop == 0 and recipe in ("dup", "last2", "revhalf"):
            raise SpecSkip("empty population")
        idx = sample_idx(recipe, pop)
        return out([[nm, "".join(s[i * m:(i + 1) * m] for i in idx)] for nm, s in rows])
    if k == "add":
        other = dict(map(tuple, add_other_rows(st, op[1])))
        return out([[nm, s + other[nm]] for nm, s in rows])
    if k == "tt":
        return out(rows, arr2=bool(op[1]))
    if k == "rna":
        if mt not in ("dna", "rna"):
            raise SpecSkip("to_rna of non-nucleic")
        return out([[nm, s.replace("T", "U")] for nm, s in rows], mt2="rna")
    if k == "dna":
        if mt not in ("dna", "rna"):
            raise SpecSkip("to_dna of non-nucleic")
        return out([[nm, s.replace("U", "T")] for nm, s in rows], mt2="dna")
    raise ValueError(op)


SPEC_PRED = {
    "true": lambda col: True,
    "false": lambda col: False,
    "const": lambda col: len(set(col)) == 1,
    "varies": lambda col: len(set(col)) > 1,
    "hasA": lambda col: any("A" in mo for mo in col),
}


def add_other_rows(st, kind):
    """the right operand of `+`, as plain rows (names may come in another order)"""
    rows, mt = st["rows"], st["mt"]
    if kind == "self":
        return [list(r) for r in rows]
    if kind == "head":
        return [[nm, s[:2]] for nm, s in rows]
    if kind == "fresh":
        return [[nm, FRESH[mt][i % 3]] for i, (nm, _) in enumerate(rows)][::-1]
    raise ValueError(kind)


# ------------------------------------------------------------------------------------------------ real code
def build(rows, mt, arr):
    from cogent3 import make_aligned_seqs
    return make_aligned_seqs({n: s for n, s in rows}, moltype=mt, array_align=bool(arr))


def _decode(x, d):
    if isinstance(d, numpy.ndarray):
        return "".join(x.alphabet.from_indices(d))
    return str(d)


def real_pred(x, name):
    f = SPEC_PRED[name]
    return lambda data: bool(f([_decode(x, d) for d in data]))


def real_apply(x, op, st):
    from cogent3.core.alignment import ArrayAlignment
    k = op[0]
    L = _len(st["rows"])
    if k == "sl":
        return x[op[1]:op[2]:op[3]]
    if k == "ix":
        return x[op[1]]
    if k == "rc":
        return x.rc()
    if k == "tp":
        return x.take_positions(list(op[1]), negate=True) if op[2] else x.take_positions(list(op[1]))
    if k == "ts":
        return x.take_seqs(list(op[1]), negate=True) if op[2] else x.take_seqs(list(op[1]))
    if k == "ts1":
        return x.take_seqs(op[1], negate=True) if op[2] else x.take_seqs(op[1])
    if k == "gsa":
        return x.get_sub_alignment(seqs=op[1], pos=op[2], negate_seqs=op[3], negate_pos=op[4])
    if k == "og":
        return x.omit_gap_pos(allowed_gap_frac=FRAC_FLOAT[op[1]], motif_length=op[2])
    if k == "nd":
        return x.no_degenerates(motif_length=op[1], allow_gap=op[2])
    if k == "fl":
        return x.filtered(real_pred(x, op[1]), motif_length=op[2])
    if k == "dr":
        return x.get_degapped_relative_to(op[1])
    if k == "sa":
        recipe, m, repl = op[1], op[2], op[3]
        idx = numpy.array(sample_idx(recipe, L // m), dtype=int)
        if repl:
            return x.sample(n=len(idx), with_replacement=True, motif_length=m, randint=lambda lo, hi, n: idx.copy())
        full = numpy.array(sample_idx("rev" if recipe == "revhalf" else recipe, L // m), dtype=int)
        return x.sample(n=len(idx) if recipe == "revhalf" else None, motif_length=m,
                        permutation=lambda n: full.copy())
    if k == "add":
        if op[1] == "self":
            return x + x
        if op[1] == "head":
            return x + x[:2]
        other = build(add_other_rows(st, op[1]), st["mt"], isinstance(x, ArrayAlignment))
        return x + other
    if k == "tt":
        return x.to_type(array_align=bool(op[1]))
    if k == "rna":
        return x.to_rna()
    if k == "dna":
        return x.to_dna()
    raise ValueError(op)


def op_kind(op):
    k = op[0]
    if k == "sl":
        a, b, c = op[1:]
        if c is not None:
            return "sl(step)"
        if (a is not None and a < 0) or (b is not None and b < 0):
            return "sl(neg-bound)"
        return "sl"
    if k == "ix":
        return "ix(neg)" if op[1] < 0 else "ix"
    if k == "tp":
        if op[2]:
            return "tp(negate)"
        return "tp(negidx)" if any(c < 0 for c in op[1]) else "tp"
    if k == "ts":
        return "ts(negate)" if op[2] else "ts"
    if k == "ts1":
        return "ts(str,negate)" if op[2] else "ts(str)"
    if k == "gsa":
        neg = any(i < 0 for idx in op[1:3] if idx for i in idx)
        return "gsa" + ("(negate)" if op[3] or op[4] else "") + ("(negidx)" if neg else "")
    if k == "og":
        return "og" if op[2] == 1 else "og(motif)"
    if k == "nd":
        return "nd" + ("(motif)" if op[1] > 1 else "") + ("(allow_gap)" if op[2] else "")
    if k == "fl":
        return "fl" if op[2] == 1 else "fl(motif)"
    if k == "sa":
        return "sa" + ("(motif)" if op[2] > 1 else "") + ("(repl)" if op[3] else "")
    if k == "add":
        return f"add({op[1]})"
    if k == "tt":
        return "tt(array)" if op[1] else "tt(aln)"
    return k


def allowed_refusal(op, st, exc):
    """exceptions that are documented refusals, not results"""
    L = _len(st["rows"])
    if op[0] == "sl":
        if isinstance(exc, NotImplementedError) and op[3] is not None:
            return True
        if isinstance(exc, IndexError) and any(v is not None and not -L <= v <= L for v in op[1:3]):
            return True
    return False


def view_of(x, full=True):
    """every reading of the abstract view that the public API offers (full=False: to_dict only, for the receiver)"""
    d = x.to_dict()
    rows = [[n, s] for n, s in d.items()]
    return {"names": list(x.names), "rows": rows,
            "seqs": [str(s) for s in x.seqs] if full else [s for _, s in rows],
            "len": len(x), "num_seqs": x.num_seqs, "mt": x.moltype.label, "cls": type(x).__name__}


def compare(x, accept, full=True):
    """-> (state, None) when x shows one of the acceptable states, else (None, (what, message))"""
    v = view_of(x, full)
    first = None
    for st in accept:
        rows = st["rows"]
        exp_cls = "ArrayAlignment" if st["arr"] else "Alignment"
        L = _len(rows)
        bad = None
        if v["rows"] != rows:
            if [n for n, _ in v["rows"]] != [n for n, _ in rows]:
                bad = ("names", f"to_dict names {[n for n, _ in v['rows']]} expected {[n for n, _ in rows]}")
            elif [len(s) for _, s in v["rows"]] != [len(s) for _, s in rows]:
                bad = ("rows/length", f"rows {v['rows']} expected {rows}")
            else:
                bad = ("rows/content", f"rows {v['rows']} expected {rows}")
        elif v["names"] != [n for n, _ in rows]:
            bad = ("names", f".names {v['names']} expected {[n for n, _ in rows]}")
        elif v["seqs"] != [s for _, s in rows]:
            bad = ("seqs", f".seqs {v['seqs']} disagree with rows {rows}")
        elif v["len"] != L:
            bad = ("len", f"len() {v['len']} expected {L}")
        elif v["num_seqs"] != len(rows):
            bad = ("num_seqs", f"num_seqs {v['num_seqs']} expected {len(rows)}")
        elif v["mt"] != st["mt"]:
            bad = ("moltype", f"moltype {v['mt']} expected {st['mt']}")
        elif v["cls"] != exp_cls:
            bad = ("class", f"class {v['cls']} expected {exp_cls}")
        if bad is None:
            return st, None
        first = first or bad
    if len({len(s) for _, s in v["rows"]}) > 1:
        first = ("ragged", first[1])
    return None, first


def run_history(cname, arr, mt, rows, ops, case, probe=True):
    """-> ("ok", final object, final state, ambiguous) | ("end",) | ("skip",) | ("fail", key, msg)

    A failure at step k > 1 is re-tried on a *new* object built from the spec rows before that step: when the same
    failure shows there the history is irrelevant and the key carries no history; otherwise the key names it."""
    cls = "ArrayAlignment" if arr else "Alignment"
    st = {"rows": [list(r) for r in rows], "mt": mt, "arr": bool(arr)}
    try:
        x = build(rows, mt, arr)
    except Exception as e:
        return ("fail", f"{cname}/{cls}/construct/raises {type(e).__name__}", f"{case}: {type(e).__name__}: {e}")
    _, bad = compare(x, [st], full=False)
    if bad:
        return ("fail", f"{cname}/{cls}/construct/{bad[0]}", f"{case}: {bad[1]}")
    prev = []
    ambiguous = False

    def fail(core, msg):
        key = f"{cname}/{cls}/{core}"
        if prev and probe:
            r = run_history(cname, st["arr"], st["mt"], st["rows"], [raw], case, probe=False)
            if r[0] == "fail" and r[1] == key:
                return ("fail", key, msg)                       # fails on a new object too: history irrelevant
            for p in ops[:len(prev)] if len(prev) > 1 else []:  # one earlier op that is enough to reproduce it
                r = run_history(cname, arr, mt, rows, [p, raw], case, probe=False)
                if r[0] == "fail" and r[1].startswith(key + " after "):
                    return ("fail", r[1], msg)
        return ("fail", key + (f" after {prev}" if prev else ""), msg)

    for raw in ops:
        cls = "ArrayAlignment" if st["arr"] else "Alignment"
        op = resolve(raw, st)
        kind = op_kind(op)
        try:
            accept = spec_apply(st, op)
        except SpecSkip:
            return ("skip",)
        try:
            y = real_apply(x, op, st)
        except Exception as e:
            if allowed_refusal(op, st, e):
                return ("skip",)
            return fail(f"{kind}/raises {type(e).__name__}", f"{case} (op {op}): {type(e).__name__}: {str(e)[:200]}")
        # the receiver is unchanged
        _, bad = compare(x, [st], full=False)
        if bad:
            return fail(f"{kind}/receiver-changed/{bad[0]}", f"{case} (op {op}): {bad[1]}")
        if y is None or (isinstance(y, dict) and not y):
            # "can't construct empty alignment": acceptable only when the spec result has no rows or no columns
            if any(not a["rows"] or _len(a["rows"]) == 0 for a in accept):
                return ("end",)
            return fail(f"{kind}/returns-nothing",
                        f"{case} (op {op}): returned {y!r}, expected rows {accept[0]['rows']}")
        if any(not a["rows"] for a in accept):
            return fail(f"{kind}/rows-from-nothing", f"{case} (op {op}): got {y!r}")
        try:
            st2, bad = compare(y, accept)
        except Exception as e:
            return fail(f"{kind}/result-unreadable {type(e).__name__}",
                        f"{case} (op {op}): reading the result raises {type(e).__name__}: {str(e)[:200]}")
        if bad:
            return fail(f"{kind}/{bad[0]}", f"{case} (op {op}): {bad[1]}")
        ambiguous = ambiguous or len(accept) > 1
        x, st = y, st2
        prev.append(kind)
    return ("ok", x, st, ambiguous)


def contract_history(cname):
    def contract(case):
        arr, mt, rows, ops = case
        r = run_history(cname, arr, mt, rows, ops, case)
        if r[0] in ("fail", "skip"):
            return r
        if r[0] == "end":
            return ("ok", False)
        _, x, st, ambiguous = r
        if ambiguous:
            # ArrayAlignment == Alignment: where the spec accepts several readings both classes must pick the same
            o = run_history(cname, not arr, mt, rows, ops, case)
            if o[0] == "ok" and (o[2]["rows"] != st["rows"] or o[2]["mt"] != st["mt"]):
                a, b = (o[2], st) if arr else (st, o[2])
                return ("fail", f"{cname}/classes-differ/{[op_kind(q) for q in ops]}",
                        f"{case}: Alignment gives {a['rows']}, ArrayAlignment gives {b['rows']}")
        return ("ok", _len(st["rows"]) > 0)
    return contract


# ------------------------------------------------------------------------------------------------ generators
NAMES = ["seq_b", "a", "sq_c", "d"]     # display order differs from sorted order on purpose; one- and many-letter names that
                                        # share letters (a name given as a plain str must not be read as a set of letters)
FILLS = {
    "dna": [["ACGTNA", "GRTYAC", "TAYGCA"], ["NTAGCY", "CATGGA", "RCGATT"]],
    "rna": [["ACGUNA", "GRUYAC", "UAYGCA"]],
    "protein": [["MKBLAX", "AZKLVM", "KMLXAV"]],
}


def layouts(nrows, L, fill):
    for mask in itertools.product((0, 1), repeat=nrows * L):
        yield [[NAMES[r], "".join("-" if mask[r * L + j] else fill[r][j] for j in range(L))] for r in range(nrows)]


def slice_ops(L, level):
    if level == "full":          # every a, b in [-L-1, L+1] + None, and the strides
        ab = [None] + list(range(-L - 1, L + 2))
        ops = [["sl", a, b, None] for a in ab for b in ab]
        return ops + [["sl", None, None, 1], ["sl", None, None, 2], ["sl", 1, None, 2], ["sl", 0, L, 1]]
    if level == "mid":           # every non-negative pair incl. one past the end, each negative bound alone
        ops = [["sl", a, b, None] for a in [None] + list(range(0, L + 1)) for b in [None] + list(range(0, L + 2))]
        ops += [["sl", a, None, None] for a in range(-L - 1, 0)] + [["sl", None, b, None] for b in range(-L - 1, 0)]
        return ops + [["sl", -2, -1, None], ["sl", 1, -1, None], ["sl", -3, 3, None]]
    return [["sl", a, b, None] for a in (None, 1, -2) for b in (None, L - 1, -1)]


def depth1_ops(L, nrows, mt, level):
    ops = slice_ops(L, level)
    ops += [["ix", i] for i in range(-L, L)]
    ops += [["rc"]]
    ops += [["tp", [], False], ["tp", [0], False], ["tp", [L - 1], False], ["tp", list(range(L))[::-1], False],
            ["tp", [0, 0, L - 1], False], ["tp", list(range(0, L, 2)), False], ["tp", [-1], False],
            ["tp", [], True], ["tp", [0], True], ["tp", [L - 1], True], ["tp", list(range(0, L, 2)), True],
            ["tp", list(range(L)), True]]
    ops += [["ts", list(range(nrows))[::-1], False], ["ts", [0], False], ["ts", [nrows - 1], False],
            ["ts", [0], True], ["ts", [nrows - 1], True], ["ts", [], False], ["ts", list(range(nrows)), True],
            ["ts1", 0, False], ["ts1", 0, True], ["ts1", nrows - 1, True], ["ts1", 1, True]]
    ops += [["gsa", None, [0, L - 1], False, False], ["gsa", None, [L - 1], False, True], ["gsa", None, [-1], False, True],
            ["gsa", None, [-1, 0], False, False], ["gsa", [nrows - 1], None, True, False], ["gsa", [-1], None, True, False],
            ["gsa", [-1], None, False, False], ["gsa", [0], [-2, 0], True, True], ["gsa", [-nrows], [-L], True, True],
            ["gsa", list(range(nrows))[::-1], list(range(L))[::-1], False, False], ["gsa", None, [], False, True]]
    ops += [["og", f, m] for f in ("0", "1/2", "1-eps", "1") for m in (1, 2)] + [["og", "1/4", 2], ["og", "1/2", 3]]
    ops += [["nd", m, g] for m in (1, 2, 3) for g in (False, True)]
    ops += [["fl", p, m] for p in ("true", "false", "const", "varies", "hasA") for m in (1, 2)]
    ops += [["dr", r] for r in range(nrows)]
    ops += [["sa", "rev", 1, False], ["sa", "evod", 1, False], ["sa", "revhalf", 1, False], ["sa", "rev", 2, False],
            ["sa", "revhalf", 2, False], ["sa", "dup", 1, True], ["sa", "last2", 2, True], ["sa", "dup", 3, True]]
    ops += [["add", "self"], ["add", "head"], ["add", "fresh"]]
    ops += [["tt", True], ["tt", False], ["rna"], ["dna"]]
    uniq = []
    for o in ops:
        if o not in uniq:
            uniq.append(o)
    return uniq


ALPHA = {"dna": "ACGT-NRY-", "rna": "ACGU-NRY-", "protein": "MKLAV-BXZ-"}


def random_rows(rnd, mt, nrows, L, qmark=False):
    alpha = ALPHA[mt] + ("?" if qmark else "")
    return [[NAMES[r], "".join(rnd.choice(alpha) for _ in range(L))] for r in range(nrows)]


def gen_ops(tier, seed):
    rnd = random.Random(seed)
    thorough = tier == "thorough"
    # (moltype, fill, rows, lengths, slice level); every gap layout of every listed shape is enumerated
    if thorough:
        plan = [("dna", 0, 2, (0, 1, 2, 3), "full"), ("dna", 0, 2, (4,), "mid"), ("dna", 1, 2, (1, 2, 3), "full"),
                ("rna", 0, 2, (1, 2, 3), "few"), ("protein", 0, 2, (1, 2, 3), "few"), ("dna", 0, 3, (1,), "full"),
                ("dna", 0, 3, (2,), "few")]
    else:
        plan = [("dna", 0, 2, (0, 1, 2), "full"), ("dna", 0, 2, (3,), "few"), ("rna", 0, 2, (2,), "few"),
                ("protein", 0, 2, (2,), "few"), ("dna", 0, 3, (1,), "few")]
    for mt, fi, nrows, Ls, level in plan:
        fill = FILLS[mt][fi]
        for L in Ls:
            ops = depth1_ops(L, nrows, mt, level)
            for rows in layouts(nrows, L, fill):
                for op in ops:
                    for arr in (False, True):
                        yield [arr, mt, rows, [op]]
    # beyond the frontier: seeded random alignments (incl. '?'), every non-slice op + a reduced slice set
    for i in range(120 if thorough else 8):
        mt = rnd.choice(["dna", "dna", "rna", "protein"])
        nrows, L = rnd.choice((2, 3, 4)), rnd.choice((5, 6, 7, 8))
        rows = random_rows(rnd, mt, nrows, L, qmark=(i % 3 == 0))
        for op in depth1_ops(L, nrows, mt, "few"):
            for arr in (False, True):
                yield [arr, mt, rows, [op]]


CHAIN_BASES = [
    ["dna", [["b", "AC-GTN"], ["a", "-CRGT-"], ["c", "ACGG-Y"]]],
    ["rna", [["b", "AU-GN-"], ["a", "-UYGCA"]]],
    ["dna", [["b", "--ACGT"], ["a", "AC--G-"]]],
    ["protein", [["b", "MK-BXL"], ["a", "-KVZLL"]]],
    ["dna", [["b", "A-C-G-"], ["a", "-T-Y-A"], ["c", "AT-YGA"]]],
    ["dna", [["b", "ACGTAC"], ["a", "ACGTAC"]]],
    ["dna", [["b", "------"], ["a", "ACGTRY"]]],
    ["dna", [["b", "A--GT"], ["a", "AC-?T"]]],
]

CHAIN_OPS = [
    ["sl", 1, None, None], ["sl", None, -1, None], ["sl", 1, 4, None], ["sl", 2, 5, None], ["sl", 0, 2, None],
    ["sl", -3, None, None], ["ix", 1], ["rc"],
    ["tp", [0, 2], False], ["tp", [3, 1, 1, 0], False], ["tp", [1], True],
    ["ts", [1, 0], False], ["ts", [0], True],
    ["og", "0", 1], ["og", "1-eps", 1], ["og", "1/2", 2],
    ["nd", 1, False], ["nd", 1, True], ["nd", 2, True],
    ["fl", "const", 1], ["fl", "varies", 2],
    ["dr", 0], ["dr", 1],
    ["sa", "rev", 1, False], ["sa", "evod", 2, False], ["sa", "dup", 1, True],
    ["add", "self"], ["add", "head"], ["add", "fresh"],
    ["tt", True], ["tt", False], ["rna"], ["dna"],
]


def gen_chain(tier, seed):
    rnd = random.Random(seed)
    thorough = tier == "thorough"
    bases = CHAIN_BASES if thorough else CHAIN_BASES[:2]
    for mt, rows in bases:
        for op1 in CHAIN_OPS:
            for op2 in CHAIN_OPS:
                for arr in (False, True):
                    yield [arr, mt, rows, [op1, op2]]
    # depth 3 (thorough 3-4): seeded sample over all bases
    for _ in range(6000 if thorough else 250):
        mt, rows = rnd.choice(CHAIN_BASES)
        ops = [rnd.choice(CHAIN_OPS) for _ in range(rnd.choice((3, 4)) if thorough else 3)]
        for arr in (False, True):
            yield [arr, mt, rows, ops]
    # beyond the frontier: longer random alignments, depth 2-3
    for i in range(1500 if thorough else 50):
        mt = rnd.choice(["dna", "dna", "rna", "protein"])
        rows = random_rows(rnd, mt, rnd.choice((2, 3, 4)), rnd.choice((7, 8, 9)), qmark=(i % 4 == 0))
        ops = [rnd.choice(CHAIN_OPS) for _ in range(rnd.choice((2, 3)))]
        for arr in (False, True):
            yield [arr, mt, rows, ops]


# ------------------------------------------------------------------------------------------------ read-only methods
EXCLUDE = {
    # mutators, IO / plotting / apps, random by default, annotation machinery (C04), serialisation (C10),
    # tree building (C15), class constants, methods that need callables/objects supplied below explicitly
    "add_feature", "annotate_from_gff", "annotation_db", "copy_annotations", "get_features", "make_feature",
    "get_projected_feature", "get_projected_features", "get_drawable", "get_drawables", "with_masked_annotations",
    "write", "to_html", "set_repr_policy", "dotplot", "seqlogo", "information_plot", "coevolution", "quick_tree",
    "alignment_quality", "apply_pssm", "to_json", "to_rich_dict", "info", "name", "moltype", "alphabet",
    "default_gap", "gap_chars", "is_array", "sample", "gapped_by_map", "add_from_ref_aln", "replace_seqs",
    "get_similar", "with_gaps_from", "to_protein", "to_moltype", "get_sub_alignment", "filtered",
    "take_positions_if", "take_seqs_if", "get_seq_indices", "get_position_indices", "iter_selected",
}

ARGS = {
    "add_seqs": ["@other"],
    "count_gaps_per_pos": [(), (False,)],
    "count_gaps_per_seq": [(), (True,), (False, True), (False, False, False)],
    "counts": [(), (2,), (1, True, True)],
    "counts_per_pos": [(), (2,), (1, True, True)],
    "counts_per_seq": [(), (2,), (1, True, True)],
    "entropy_per_pos": [(), (1, True, True)],
    "entropy_per_seq": [(), (1, True, True)],
    "probs_per_pos": [(), (1, True, True)],
    "probs_per_seq": [(), (1, True, True)],
    "get_motif_probs": [(), (None, True, False, True)],
    "get_gap_array": [(), (False,)],
    "get_gapped_seq": ["@name0", "@name0+recode"],
    "get_seq": ["@name0", "@name1"],
    "get_degapped_relative_to": ["@name0", "@name1"],
    "get_identical_sets": [(), (True,)],
    "get_lengths": [(), (True, True)],
    "get_translation": [(None, True)],
    "has_terminal_stop": [(1,)],
    "trim_stop_codons": [(1,)],
    "iter_positions": [(), ([1, 0],)],
    "iter_seqs": [(), "@names-rev"],
    "iupac_consensus": [(), (None, False)],
    "matching_ref": ["@name0+0.5+1"],
    "no_degenerates": [(), (1, True), (2, False)],
    "omit_bad_seqs": [(), (0.5,)],
    "omit_gap_pos": [(), (0,), (0.5, 2)],
    "omit_gap_runs": [(), (0,)],
    "omit_gap_seqs": [(), (0.5,)],
    "pad_seqs": [(), (9,)],
    "rename_seqs": ["@upper"],
    "sliding_windows": [(2, 1), (3, 2, 1)],
    "strand_symmetry": [()],
    "take_positions": [([0, 2],), ([1], True)],
    # (the plain call refuses most bases here -- gaps inside codons, stops --; the second form returns a value for all of them)
    "get_translation": [(), (None, True, True)],
    "take_seqs": ["@name1-first", "@name0-negate"],
    "to_fasta": [(), (3,)],
    "to_nexus": [("dna",)],
    "to_pretty": [(), (None, 3)],
    "to_type": [(True,), (False,)],
    "variable_positions": [(), (False,)],
    "distance_matrix": [(), ("percent",)],
    "deepcopy": [(), (False,)],
    "__getitem__": ["@slice-1-3", "@int-1"],
    "__add__": ["@other-aln"],
    "__eq__": ["@rebuilt"],
}
DUNDER = ["__str__", "__repr__", "__len__", "__getitem__", "__add__", "__eq__", "__iter__"]

# methods whose answer must not depend on the class (compared class-blind between Alignment and ArrayAlignment).
# Left out on purpose (the statement does not fix them): pad_seqs (Alignment pads the *ungapped* sequences),
# with_modified_termini, get_gapped_seq(recode_gaps=True) (the recoding character differs).
CROSS_SKIP_VARIANT = {("get_gapped_seq", 1)}
CROSS = {
    "to_dict", "to_fasta", "to_phylip", "to_pretty", "to_nexus", "__len__", "__repr__", "__str__", "num_seqs",
    "counts", "counts_per_pos", "counts_per_seq", "entropy_per_pos", "entropy_per_seq", "probs_per_pos",
    "probs_per_seq", "get_motif_probs", "iupac_consensus", "majority_consensus", "variable_positions",
    "get_gap_array", "count_gaps_per_pos", "count_gaps_per_seq", "get_lengths", "get_identical_sets", "is_ragged",
    "get_ambiguous_positions", "positions", "iter_positions", "has_terminal_stop", "distance_matrix",
    "strand_symmetry", "degap", "get_translation", "trim_stop_codons", "omit_bad_seqs", "omit_gap_runs",
    "omit_gap_seqs", "omit_gap_pos", "no_degenerates", "matching_ref",
    "sliding_windows", "rename_seqs", "copy", "deepcopy", "rc", "reverse_complement", "to_dna", "to_rna",
    "take_positions", "take_seqs", "get_degapped_relative_to", "get_gapped_seq", "__getitem__", "__add__",
}


def norm(v, blind=False, depth=0):
    """value -> plain comparable data; blind=True drops the alignment class name"""
    from cogent3.core.alignment import Aligned, _SequenceCollectionBase
    if v is None or isinstance(v, (bool, int, str, bytes)):
        return v
    if isinstance(v, float):
        return "nan" if v != v else round(v, 9)
    if isinstance(v, numpy.generic):
        return norm(v.item(), blind, depth)
    if isinstance(v, numpy.ndarray):
        return ("array", norm(v.tolist(), blind, depth + 1))
    if isinstance(v, _SequenceCollectionBase):
        return ("aln", None if blind else type(v).__name__, [[n, s] for n, s in v.to_dict().items()], v.moltype.label)
    if isinstance(v, Aligned):
        return str(v) if blind else ("seq", str(v), v.moltype.label)
    if hasattr(v, "moltype") and hasattr(v, "__len__") and not isinstance(v, (list, tuple, dict)):
        return str(v) if blind else ("seq", str(v), getattr(v.moltype, "label", None))
    if isinstance(v, dict):
        return ("dict", sorted((repr(norm(k, blind)), norm(x, blind, depth + 1)) for k, x in v.items()))
    if isinstance(v, (set, frozenset)):
        return ("set", sorted(repr(norm(x, blind)) for x in v))
    if isinstance(v, (list, tuple)):
        return [norm(x, blind, depth + 1) for x in v]
    if hasattr(v, "to_dict") and depth < 4:
        try:
            return ("to_dict", norm(v.to_dict(), blind, depth + 1))
        except Exception:
            pass
    if hasattr(v, "__iter__") and depth < 4:
        return [norm(x, blind, depth + 1) for x in v]
    return ("obj", type(v).__name__)


def method_entries(cls):
    out = []
    for n in sorted(dir(cls)) + DUNDER:
        if (n.startswith("_") and n not in DUNDER) or n in EXCLUDE:
            continue
        attr = getattr(cls, n, None)
        if attr is None:
            continue
        if isinstance(attr, property) or not callable(attr):
            out.append([n, "prop", None])
        else:
            for i, a in enumerate(ARGS.get(n, [()])):
                out.append([n, "call", i])
    return out


class NotApplicable(Exception):
    pass


def _args_for(x, n, i, mt):
    from cogent3.core.alignment import ArrayAlignment
    a = ARGS.get(n, [()])[i]
    names = list(x.names)
    # arguments are positions of the object they are used on: a variant whose positions do not exist there is not a call
    # the statement speaks about (the two classes are known to refuse / tolerate bad positions differently: C03-K2)
    need = {("take_positions", 0): 3, ("take_positions", 1): 2, ("__getitem__", 1): 2}.get((n, i), 0)
    if len(x) < need:
        raise NotApplicable()
    if not isinstance(a, str):
        return tuple(a), {}
    if a == "@name0":
        return (names[0],), {}
    if a == "@name1":
        return (names[-1],), {}
    if a == "@name0+recode":
        return (names[0], True), {}
    if a == "@names-rev":
        return (names[::-1],), {}
    if a == "@name0+0.5+1":
        return (names[0], 0.5, 1), {}
    if a == "@upper":
        return (lambda s: s.upper() + "_",), {}
    if a == "@name1-first":
        return ([names[-1], names[0]] if len(names) > 1 else [names[0]],), {}
    if a == "@name0-negate":
        return ([names[0]],), {"negate": True}
    if a == "@slice-1-3":
        return (slice(1, 3),), {}
    if a == "@int-1":
        return (1,), {}
    if a in ("@other", "@other-aln"):
        arr = isinstance(x, ArrayAlignment)
        L = len(x)
        if a == "@other":
            rows = [["zz", (FRESH[mt][0] * (L // 3 + 1))[:L]]]
        else:
            rows = [[nm, FRESH[mt][j % 3]] for j, nm in enumerate(names)]
        return (build(rows, mt, arr),), {}
    if a == "@rebuilt":
        return (build([[k, s] for k, s in x.to_dict().items()], mt, isinstance(x, ArrayAlignment)),), {}
    raise ValueError(a)


METHOD_BASES = [
    ["dna", [["b", "AC-GTNTAA"], ["a", "-CRGT-TGA"], ["c", "ACGG-YTAA"]]],
    ["dna", [["b", "ATGAAA---TAG"], ["a", "ATG---CCCTAG"]]],
    ["rna", [["b", "AU-GN-"], ["a", "-UYGCA"]]],
    ["protein", [["b", "MK-BXL"], ["a", "-KVZLL"]]],
]
METHOD_VIEWS = [
    [], [["sl", 1, None, None]], [["sl", 1, -2, None]], [["rc"]], [["sl", 2, None, None], ["rc"]],
    [["rc"], ["sl", 1, 5, None]], [["tp", [3, 1, 0, 4], False]], [["og", "0", 1]], [["add", "head"]],
    [["rna"]], [["sa", "rev", 1, False]], [["ts", [1, 0], False]], [["dr", 1]], [["nd", 1, True]],
    [["sl", 3, None, None], ["add", "fresh"], ["sl", 1, None, None]],
]


# views that retain no column (explicit stop 0, reversed bounds, start at the end): the result must answer like a new
# object built from its (empty) rows -- nothing of the parent may show through any method
EMPTY_VIEWS = [[["sl", 3, 0, None]], [["sl", None, 0, None]], [["sl", 0, 0, None]], [["sl", 5, 2, None]], [["sl", -1, 0, None]],
               [["rc"], ["sl", 2, 0, None]], [["sl", 1, None, None], ["sl", 2, 0, None]]]


def gen_methods(tier, seed):
    from cogent3.core.alignment import Alignment, ArrayAlignment
    thorough = tier == "thorough"
    ents = {}
    for cls in (Alignment, ArrayAlignment):
        for e in method_entries(cls):
            ents.setdefault((e[0], e[1], e[2]), []).append(cls.__name__)
    bases = METHOD_BASES if thorough else METHOD_BASES[:1] + METHOD_BASES[3:]
    views = (METHOD_VIEWS + EMPTY_VIEWS) if thorough else METHOD_VIEWS[:7] + EMPTY_VIEWS[:2]
    for mt, rows in bases:
        for ops in views:
            for (n, kind, i), classes in sorted(ents.items(), key=lambda kv: (kv[0][0], str(kv[0][2]))):
                yield [mt, rows, ops, n, kind, i, classes]


def _invoke(obj, n, kind, i, mt):
    if kind == "prop":
        return getattr(obj, n)
    args, kw = _args_for(obj, n, i, mt)
    return getattr(obj, n)(*args, **kw)


def contract_methods(case):
    mt, rows, ops, n, kind, i, classes = case
    viewkind = "+".join(op_kind(o) for o in ops) or "fresh"
    answers = {}
    for cls in classes:
        arr = cls == "ArrayAlignment"
        r = run_history("methods-view", arr, mt, rows, ops, case, probe=False)
        if r[0] != "ok":
            continue                      # histories that fail or end are reported by the ops / chain contracts
        x, st = r[1], r[2]
        try:
            y = build(st["rows"], st["mt"], st["arr"])       # a new object built from the rows of the result
        except Exception:
            continue

        def run(obj, blind):
            try:
                return ("ret", norm(_invoke(obj, n, kind, i, st["mt"]), blind))
            except NotApplicable:
                return ("n/a",)
            except Exception as e:
                return ("exc", type(e).__name__)
        a, b = run(x, False), run(y, False)
        if a == ("n/a",):
            continue
        if a != b:
            return ("fail", f"method/{cls}/{n}#{i if i is not None else 'p'}/{viewkind}",
                    f"{case}: on the result of the history (rows {st['rows']}) -> {str(a)[:300]}; "
                    f"on a new {cls} built from those rows -> {str(b)[:300]}")
        answers[cls] = (run(x, True), st, run(y, True))
    if not answers:
        return ("skip",)
    if len(answers) == 2 and n in CROSS and (n, i) not in CROSS_SKIP_VARIANT:
        (a, sa, ya), (b, sb, yb) = answers["Alignment"], answers["ArrayAlignment"]
        if sa["rows"] == sb["rows"] and a != b:
            # the classes also differ on new objects built from the rows: the history is irrelevant for the key
            where = "" if ya != yb else f"/{viewkind}"
            if not any(srow for _, srow in sa["rows"]):
                where += "/zero-columns"
            return ("fail", f"cross/{n}#{i if i is not None else 'p'}{where}",
                    f"{case}: rows {sa['rows']}: Alignment -> {str(a)[:300]}; ArrayAlignment -> {str(b)[:300]}")
    return ("ok", any(a[0][0] == "ret" for a in answers.values()))


# ------------------------------------------------------------------------------------------------ collections
def build_coll(rows, mt, new):
    from cogent3 import make_unaligned_seqs
    return make_unaligned_seqs({n: s for n, s in rows}, moltype=mt, **({"new_type": True} if new else {}))


COLL_BASES = [
    ["dna", [["b", "AC-GTN"], ["a", "CR"], ["c", "ACGGY"]]],
    ["dna", [["b", "A"], ["a", "TTGCA"]]],
    ["rna", [["b", "AU-GN"], ["a", "UYGCAAA"]]],
    ["protein", [["b", "MK-BXL"], ["a", "KV"]]],
]
COLL_OPS = [["rc"], ["rna"], ["dna"], ["ts", [1, 0], False], ["ts", [0], True], ["ts", [0], False],
            ["add", "self"], ["add", "fresh"], ["degap"]]


def coll_spec(rows, mt, op):
    k = op[0]
    if k == "rc":
        if mt not in ("dna", "rna"):
            raise SpecSkip()
        return [[n, comp(s[::-1], mt)] for n, s in rows], mt
    if k in ("rna", "dna"):
        if mt not in ("dna", "rna"):
            raise SpecSkip()
        return [[n, s.replace(*(("T", "U") if k == "rna" else ("U", "T")))] for n, s in rows], k
    if k == "ts":
        idx = [i for i in op[1] if i < len(rows)]
        names = [rows[i][0] for i in idx]
        if op[2]:
            return [[n, s] for n, s in rows if n not in names], mt
        return [list(rows[i]) for i in idx], mt
    if k == "add":
        other = dict(map(tuple, add_other_rows({"rows": rows, "mt": mt}, op[1])))
        return [[n, s + other[n]] for n, s in rows], mt
    if k == "degap":
        return [[n, s.replace("-", "")] for n, s in rows], mt
    raise ValueError(op)


def coll_real(x, rows, mt, new, op):
    k = op[0]
    if k == "rc":
        return x.rc()
    if k == "rna":
        return x.to_rna()
    if k == "dna":
        return x.to_dna()
    if k == "ts":
        names = [rows[i][0] for i in op[1] if i < len(rows)]
        return x.take_seqs(names, negate=True) if op[2] else x.take_seqs(names)
    if k == "add":
        other = x if op[1] == "self" else build_coll(add_other_rows({"rows": rows, "mt": mt}, op[1]), mt, new)
        return x + other
    if k == "degap":
        return x.degap()
    raise ValueError(op)


def gen_coll(tier, seed):
    rnd = random.Random(seed)
    for new in (False, True):
        for mt, rows in COLL_BASES:
            for op in COLL_OPS:
                yield [new, mt, rows, [op]]
            for op1 in COLL_OPS:
                for op2 in COLL_OPS:
                    yield [new, mt, rows, [op1, op2]]
        for _ in range(1500 if tier == "thorough" else 60):
            mt = rnd.choice(["dna", "rna", "protein"])
            rows = [[NAMES[r], "".join(rnd.choice(ALPHA[mt]) for _ in range(rnd.randint(0, 7)))]
                    for r in range(rnd.choice((1, 2, 3, 4)))]
            yield [new, mt, rows, [rnd.choice(COLL_OPS) for _ in range(3)]]


def run_coll(case, new, mt, rows, ops, probe=True):
    tag = "new" if new else "old"
    try:
        x = build_coll(rows, mt, new)
    except Exception as e:
        if any(len(s) == 0 for _, s in rows):
            return ("skip",)
        return ("fail", f"coll/{tag}/construct/raises {type(e).__name__}", f"{case}: {e}")
    cur, cur_mt, prev = [list(r) for r in rows], mt, []

    def fail(core, msg):
        key = f"coll/{tag}/{core}"
        if prev and probe:
            r = run_coll(case, new, cur_mt, cur, [op], probe=False)
            if r[0] == "fail" and r[1] == key:
                return ("fail", key, msg)
            for p in ops[:len(prev)] if len(prev) > 1 else []:
                r = run_coll(case, new, mt, rows, [p, op], probe=False)
                if r[0] == "fail" and r[1].startswith(key + " after "):
                    return ("fail", r[1], msg)
        return ("fail", key + (f" after {prev}" if prev else ""), msg)

    for op in ops:
        kind = op_kind(op) if op[0] != "degap" else "degap"
        try:
            exp, exp_mt = coll_spec(cur, cur_mt, op)
        except SpecSkip:
            return ("skip",)
        if op[0] == "add" and not hasattr(x, "__add__"):
            return ("skip",)          # the new-style collection does not offer `+`
        try:
            y = coll_real(x, cur, cur_mt, new, op)
        except Exception as e:
            if not exp or any(len(s) == 0 for _, s in exp):
                return ("skip",)      # an empty collection / empty sequence may be refused
            return fail(f"{kind}/raises {type(e).__name__}", f"{case} (op {op}): {type(e).__name__}: {str(e)[:200]}")
        if not exp:
            if y is None or (hasattr(y, "__len__") and not isinstance(y, str) and not getattr(y, "names", None)):
                return ("ok", False)
            return fail(f"{kind}/rows-from-nothing", f"{case}: {y!r}")
        if y is None or isinstance(y, dict):
            return fail(f"{kind}/returns-nothing", f"{case} (op {op}): {y!r}, expected {exp}")
        got = [[n, s] for n, s in y.to_dict().items()]
        got_mt = getattr(y.moltype, "label", None) or getattr(y.moltype, "name", None)
        if got != exp or list(y.names) != [n for n, _ in exp]:
            return fail(f"{kind}/rows", f"{case} (op {op}): rows {got} names {list(y.names)} expected {exp}")
        if got_mt != exp_mt:
            return fail(f"{kind}/moltype", f"{case} (op {op}): moltype {got_mt} expected {exp_mt}")
        if [[n, s] for n, s in x.to_dict().items()] != cur:
            return fail(f"{kind}/receiver-changed", f"{case} (op {op}): {x.to_dict()} was {cur}")
        x, cur, cur_mt = y, exp, exp_mt
        prev.append(kind)
    return ("ok", any(len(s) for _, s in cur))


def contract_coll(case):
    new, mt, rows, ops = case
    return run_coll(case, new, mt, rows, ops)


# ------------------------------------------------------------------------------------------------ registry
_OPS_FUNCS = ["Alignment.__getitem__", "ArrayAlignment.__getitem__", "Aligned.__getitem__", "Aligned.rc",
              "_SequenceCollectionBase.rc", "AlignmentI.take_positions", "_SequenceCollectionBase.take_seqs",
              "AlignmentI.omit_gap_pos", "ArrayAlignment.omit_gap_pos", "AlignmentI.no_degenerates",
              "ArrayAlignment.no_degenerates", "Alignment.filtered", "ArrayAlignment.filtered",
              "Alignment.get_degapped_relative_to", "ArrayAlignment.get_degapped_relative_to", "AlignmentI.sample",
              "ArrayAlignment.sample", "_SequenceCollectionBase.__add__", "Aligned.__add__", "AlignmentI.to_type",
              "_SequenceCollectionBase.to_rna", "_SequenceCollectionBase.to_dna", "_SequenceCollectionBase.to_dict",
              "make_aligned_seqs"]

BOUNDED = {
    "ops": {
        "gen": gen_ops, "contract": contract_history("ops"), "functions": _OPS_FUNCS,
        "bound": "depth 1, both classes: 2 rows x ALL gap layouts over a fixed residue fill with degenerates, dna "
                 "length 0..2 with every slice a,b in [-L-1,L+1]+None and strides, length 3 with 9 slices (thorough: "
                 "length 0..3 every slice, length 4 every non-negative slice pair + each negative bound, a second dna "
                 "fill length 1..3, rna and protein length 1..3, 3 rows length 1..2; quick: rna/protein length 2, 3 rows "
                 "length 1); per input every int index, rc, 12 take_positions, 7 take_seqs, omit_gap_pos (5 fractions "
                 "x motif 1-3), no_degenerates (motif 1-3 x allow_gap), filtered (5 predicates x motif 1-2), "
                 "get_degapped_relative_to each row, sample with given indices (8 recipes), + (self, slice of self, "
                 "new alignment with reordered names), to_type, to_rna, to_dna; plus 8 (thorough 120) seeded random "
                 "alignments 2-4 rows x length 5-8 over ACGT-NRY(?) / protein symbols",
        "rule": "a case = (class, moltype, rows, [op]); both classes are enumerated for every input; non-trivial when a result has "
                "length > 0; distinct by hash of the case",
    },
    "chain": {
        "gen": gen_chain, "contract": contract_history("chain"), "functions": _OPS_FUNCS,
        "bound": "histories of depth 2 exhaustive over 33 x 33 operations on 2 (thorough 8) fixed alignments of 2-3 "
                 "rows x length 5-6 (dna/rna/protein, incl. all-gap row, no-gap, '?'); depth 3 (thorough 3-4) seeded "
                 "sample; seeded random alignments 2-4 rows x length 7-9, depth 2-3",
        "rule": "a case = (start class, moltype, rows, op history), both start classes enumerated, checked after every "
                "step; where the spec accepts several readings the other class is run too and must agree; "
                "non-trivial when the final result has length > 0; distinct by hash of the case",
    },
    "methods": {
        "gen": gen_methods, "contract": contract_methods,
        "functions": ["every public attribute of Alignment / ArrayAlignment from dir() plus __str__, __repr__, "
                      "__len__, __getitem__, __add__, __eq__, __iter__, minus bounded/C03.py:EXCLUDE"],
        "bound": "2 (thorough 4) alignments x 7 (thorough 15) histories of depth 0-3 x every listed method with a "
                 "fixed argument table; result-of-history vs new object built from its rows, and (for value-returning "
                 "methods in CROSS) Alignment vs ArrayAlignment",
        "rule": "a case = (moltype, rows, history, method, argument variant, classes); non-trivial when the method "
                "returns (not raises) on the result; distinct by hash of the case",
    },
    "collection": {
        "gen": gen_coll, "contract": contract_coll,
        "functions": ["SequenceCollection.take_seqs", "SequenceCollection.rc", "SequenceCollection.to_rna",
                      "SequenceCollection.to_dna", "SequenceCollection.__add__", "SequenceCollection.degap",
                      "new_alignment.SequenceCollection (same methods, no +)"],
        "bound": "old and new-style SequenceCollection: 4 fixed ragged collections x histories of depth 1-2 over 9 "
                 "operations; seeded random collections of 1-4 sequences of length 0-7, depth 3",
        "rule": "a case = (style, moltype, rows, history); non-trivial when the final rows are not all empty; "
                "distinct by hash of the case",
    },
}
