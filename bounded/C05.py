"""Bounded run-time contracts for C05 -- substitution processes are valid, calibrated Markov processes.

Abstract view of one configured likelihood function: (state list, state probabilities w, calibrated Q as reported
for every edge and by get_all_rate_matrices, P as reported for every edge and by get_all_psubs, per-bin rates and
bin probabilities).  Every clause below is taken from the property statement, not from the code:

  Q-clauses   finite; zero row sums; off-diagonals >= 0; -sum_i w_i Q_ii = 1 at the motif probabilities the
              function reports (which must be the ones that were set); the same Q for every edge / entry point;
              Q == spec_Q (rate matrix rebuilt from the textbook definition in speclib/c05_spec.py) where a spec
              exists; w Q = 0 for stationary models; w_i Q_ij = w_j Q_ji for time-reversible ones.
  P-clauses   finite; P(0) = I; rows sum to 1; entries >= 0; P(len) == spec_expm(Q, len) (uniformisation +
              squaring on non-negative numbers, independent of every cogent3 back-end, so all back-ends are
              compared with one reference and therefore with each other); P(s) P(t) = P(s+t) (edges a, b, c of the
              tree carry s, t, s+t); w P = w / detailed balance of P for stationary / reversible models.
  rate classes  sum_b bprob_b rate_b = 1, rates > 0, every bin's Q calibrated, P(bin, edge) == exp(Q len rate_b),
              sum_b bprob_b rate_b len (-sum_i w_i Q_ii) == len (a branch length is the expected number of
              substitutions); the un-calibrated matrix of an edge (both entry points) is the generator of that
              edge's P, i.e. Q * length * bin rate (keys containing "uncalibrated": this is the docstring of
              get_rate_matrix_for_edge read together with the branch-length clause, one step away from the statement).
  back-ends   every exponentiator class of maths/matrix_exponentiation.py (incl. Taylor, which set_expm does not
              offer, and SemiSymmetric) and every ExpDefn setting, on rate matrices written by the spec.

Tolerances: 1e-9 relative to max(1, max|Q|) on Q, 1e-8 absolute on P (DESIGN.md).
Allowed refusals (never counted as failures): ArithmeticError / LinAlgError from the settings "eigen" and "checked"
(a back-end that declines instead of answering), ParameterOutOfBoundsError of GeneralStationary, ValueError of a
model constructor that rejects a predicate set.  "pade" and "either" must always answer.
Results are `bounded`, never proved.
"""
from __future__ import annotations

import functools
import itertools
import json
import math
import random
import signal
import warnings

import numpy

from speclib import c05_spec as S

warnings.filterwarnings("ignore")

TOLQ = 1e-9
TOLP = 1e-8
EXPMS = ["eigen", "checked", "pade", "either", "default"]     # default: no set_expm call at all
L5 = [0.0, 1e-6, 0.1, 1.0, 10.0]
LEN_PAIRS = [(s, t) for s in L5 for t in L5 if s + t <= 10.0]
LEN_PAIRS_QUICK = [(0.0, 1e-6), (1e-6, 0.1), (0.1, 1.0), (1.0, 1.0), (0.0, 10.0)]
LEN_PAIRS_MID = LEN_PAIRS_QUICK + [(0.0, 0.0), (1e-6, 1e-6), (0.1, 0.1), (1.0, 0.1)]
VALS = [1e-6, 1e-3, 0.1, 1.0, 3.0, 1e3, 1e6]
PI4 = {"u": [0.25, 0.25, 0.25, 0.25], "g": [0.1, 0.2, 0.3, 0.4], "s": [0.4, 0.1, 0.1, 0.4],
       "k": [0.97, 0.01, 0.01, 0.01], "x": [1e-5, 1e-3, 0.5, 1.0 - 0.5 - 1e-3 - 1e-5],
       "y": [2e-3, 1e-2, 0.5, 1.0 - 0.5 - 1e-2 - 2e-3]}

GN_NAMES = [f"{a}>{b}" for a, b in itertools.permutations("ACTG", 2) if (a, b) != ("T", "G")]
SSGN_NAMES = ["(G>T | C>A)", "(C>T | G>A)", "(C>G | G>C)", "(A>T | T>A)", "(A>G | T>C)"]
GTR_NAMES = ["A/C", "A/G", "A/T", "C/G", "C/T"]

# my reading of the supplied models (Felsenstein 2004 ch. 13; Muse & Gaut 1994; Goldman & Yang 1994; Yap et al 2010;
# Kaehler et al 2015/2017): parameter names, motif-probability weighting, stationarity, reversibility
NAMED = {
    "JC69": dict(kind="nuc-rev", names=[], weight="tuple", fixed_pi=True),
    "K80": dict(kind="nuc-rev", names=["kappa"], weight="tuple", fixed_pi=True),
    "F81": dict(kind="nuc-rev", names=[], weight="tuple"),
    "HKY85": dict(kind="nuc-rev", names=["kappa"], weight="tuple"),
    "TN93": dict(kind="nuc-rev", names=["kappa_y", "kappa_r"], weight="tuple"),
    "GTR": dict(kind="nuc-rev", names=GTR_NAMES, weight="tuple"),
    "ssGN": dict(kind="nuc-nonrev", names=SSGN_NAMES, weight="none"),
    "GN": dict(kind="nuc-nonrev", names=GN_NAMES, weight="none"),
    "CNFGTR": dict(kind="codon-rev", names=["omega"] + GTR_NAMES, weight="conditional"),
    "CNFHKY": dict(kind="codon-rev", names=["omega", "kappa"], weight="conditional"),
    "MG94HKY": dict(kind="codon-rev", names=["omega", "kappa"], weight="monomer"),
    "MG94GTR": dict(kind="codon-rev", names=["omega"] + GTR_NAMES, weight="monomer"),
    "GY94": dict(kind="codon-rev", names=["omega", "kappa"], weight="tuple"),
    "Y98": dict(kind="codon-rev", names=["omega", "kappa"], weight="tuple"),
    "H04G": dict(kind="codon-rev", names=["omega", "kappa", "G"], weight="tuple", nospec=True),
    "H04GK": dict(kind="codon-rev", names=["omega", "kappa", "G.K"], weight="tuple", nospec=True),
    "H04GGK": dict(kind="codon-rev", names=["omega", "kappa", "G.K", "G"], weight="tuple", nospec=True),
    "GNC": dict(kind="codon-nonrev", names=["omega"] + GN_NAMES, weight="none"),
    "DSO78": dict(kind="protein", names=[], weight="empirical"),
    "JTT92": dict(kind="protein", names=[], weight="empirical"),
    "AH96": dict(kind="protein", names=[], weight="empirical"),
    "AH96_mtmammals": dict(kind="protein", names=[], weight="empirical"),
    "WG01": dict(kind="protein", names=[], weight="empirical"),
}
NUC = ["JC69", "K80", "F81", "HKY85", "TN93", "GTR", "ssGN", "GN"]
SOLVED = ["JC69", "K80", "F81", "HKY85", "TN93"]
PROTEIN = ["DSO78", "JTT92", "AH96", "AH96_mtmammals", "WG01"]
CODON = ["CNFGTR", "CNFHKY", "MG94HKY", "MG94GTR", "GY94", "Y98", "H04G", "H04GK", "H04GGK", "GNC"]
NOT_RATE = ("length", "mprobs", "psmprobs", "bprobs", "rate", "rate_shape", "psubs")


class Refusal(Exception):
    """the real code declined (allowed by the statement)"""


class Broken(Exception):
    def __init__(self, clause, msg):
        Exception.__init__(self, msg)
        self.clause, self.msg = clause, msg


# ------------------------------------------------------------------------------------------------ building
@functools.lru_cache(maxsize=None)
def _model(desc_json):
    from cogent3 import DNA, get_model
    from cogent3.evolve import ns_substitution_model as NS
    from cogent3.evolve import substitution_model as SM
    from cogent3.evolve.predicate import MotifChange
    desc = json.loads(desc_json)
    if desc[0] == "named":
        return get_model(desc[1], **desc[2])
    cls, kw = desc[1], dict(desc[2])
    preds = kw.pop("predicates", None)
    if preds is not None:
        kw["predicates"] = [MotifChange(p[0], p[2], forward_only=True) if len(p) == 3 and p[1] == ">" else p
                            for p in preds]
    if cls in ("General", "GeneralStationary"):
        return getattr(NS, cls)(DNA.alphabet, **kw)
    if cls in ("Stationary", "Parametric", "TimeReversible"):
        return getattr(SM, cls)(DNA.alphabet, **kw)
    if hasattr(SM, cls):
        return getattr(SM, cls)(**kw)
    return getattr(NS, cls)(**kw)


def get_sm(desc):
    try:
        return _model(json.dumps(desc, sort_keys=True))
    except (ValueError, AssertionError) as e:
        raise Refusal(f"constructor: {type(e).__name__}: {e}")


@functools.lru_cache(maxsize=None)
def _tree():
    from cogent3 import make_tree
    return make_tree("(a:1,b:1,c:1);")


def arr(x):
    return numpy.array(x.array if hasattr(x, "array") else x, float)


def configure(desc, pi, params, lengths, expm, bins=None, extra=()):
    """build a fresh likelihood function and put it in the state the case describes.
    pi: None | dict over the model's motif-prob alphabet.  Returns (sm, lf)."""
    from cogent3.maths.optimisers import ParameterOutOfBoundsError
    sm = get_sm(desc)
    kw = {"bins": bins} if bins else {}
    lf = sm.make_likelihood_function(_tree(), **kw)
    if pi is not None:
        lf.set_motif_probs(pi)
    for e, L in zip("abc", lengths):
        lf.set_param_rule("length", edge=e, init=L)
    pending = None
    for name, val in list(params) + list(extra):
        v = numpy.array(val) if isinstance(val, list) else val
        try:
            lf.set_param_rule(name, init=v)
            pending = None
        except ParameterOutOfBoundsError as e:      # GeneralStationary: an intermediate vector may be infeasible
            pending = e
    if pending is not None:
        raise Refusal("ParameterOutOfBoundsError")
    if expm not in (None, "default", "solved"):
        try:
            lf.set_expm(expm)
        except (ArithmeticError, numpy.linalg.LinAlgError) as e:
            if expm in ("eigen", "checked"):
                raise Refusal(f"{expm}: {type(e).__name__}: {e}")
            raise
    return sm, lf


def state_probs(sm, lf, weight):
    """(w over the states, what get_motif_probs reports as plain python)"""
    mp = lf.get_motif_probs()
    states = sm.get_motifs()
    if isinstance(mp, dict):       # position specific monomers
        monos = [dict(zip(list(sm.get_mprob_alphabet()), arr(mp[k]))) for k in sorted(mp)]
        return S.word_probs_from_position_monomers(states, monos), monos
    vals = arr(mp)
    keys = list(mp.keys()) if hasattr(mp, "keys") else list(sm.get_mprob_alphabet())
    if len(vals) == len(states) and list(keys) == list(states):
        return vals, dict(zip(keys, vals))
    mono = dict(zip(keys, vals))
    return S.word_probs_from_monomers(states, mono), mono


# ------------------------------------------------------------------------------------------------ clauses
def q_clauses(Q, w, stationary, reversible, Qspec=None):
    n = len(w)
    if Q.shape != (n, n):
        raise Broken("Q-shape", f"shape {Q.shape}, {n} states")
    if not numpy.isfinite(Q).all():
        raise Broken("Q-nonfinite", "Q has nan/inf")
    scale = max(1.0, float(abs(Q).max()))
    rs = abs(Q.sum(axis=1)).max()
    if rs > TOLQ * scale:
        raise Broken("Q-rowsum", f"max |row sum| {rs:.3e} (max|Q| {scale:.3e})")
    off = Q - numpy.diag(numpy.diag(Q))
    if off.min() < -1e-12 * scale:
        raise Broken("Q-negative-offdiagonal", f"min off-diagonal {off.min():.3e}")
    cal = -(w * numpy.diag(Q)).sum()
    if not abs(cal - 1.0) <= TOLQ:
        raise Broken("Q-calibration", f"expected rate -sum_i pi_i Q_ii = {cal!r}, want 1")
    if Qspec is not None:
        d = abs(Q - Qspec).max()
        if d > TOLQ * scale:
            i, j = numpy.unravel_index(abs(Q - Qspec).argmax(), Q.shape)
            raise Broken("Q-differs-from-spec", f"max |Q - specQ| {d:.3e} at cell {(int(i), int(j))}: {Q[i, j]!r} vs {Qspec[i, j]!r}")
    if stationary:
        d = abs(w @ Q).max()
        if d > TOLQ:
            raise Broken("Q-pi-not-stationary", f"max |pi Q| {d:.3e}")
    if reversible:
        F = w[:, None] * Q
        d = abs(F - F.T).max()
        if d > TOLQ:
            raise Broken("Q-detailed-balance", f"max |pi_i Q_ij - pi_j Q_ji| {d:.3e}")


def _size(d):
    """rounding-level disagreement (a tolerance question) vs. a grossly wrong matrix"""
    return "[gross]" if d > 1e-4 else ""


def p_clauses(P, Qt_ref, L, w, stationary, reversible):
    n = P.shape[0]
    if not numpy.isfinite(P).all():
        raise Broken("P-nonfinite", f"P({L}) has nan/inf")
    if L == 0.0:
        d = abs(P - numpy.identity(n)).max()
        if d > TOLP:
            raise Broken("P(0)-not-identity" + _size(d), f"max |P(0) - I| {d:.3e}")
    d = abs(P.sum(axis=1) - 1.0).max()
    if d > TOLP:
        raise Broken("P-rowsum" + _size(d), f"P({L}): max |row sum - 1| {d:.3e}")
    if P.min() < -1e-10:
        raise Broken("P-negative", f"P({L}): min entry {P.min():.3e}")
    d = abs(P - Qt_ref).max()
    if d > TOLP:
        raise Broken("P-differs-from-exp(Qt)" + _size(d), f"P({L}): max |P - exp(Qt)| {d:.3e}")
    if stationary:
        d = abs(w @ P - w).max()
        if d > TOLP:
            raise Broken("P-pi-not-stationary", f"P({L}): max |pi P - pi| {d:.3e}")
    if reversible:
        F = w[:, None] * P
        d = abs(F - F.T).max()
        if d > TOLP:
            raise Broken("P-detailed-balance", f"P({L}): max |pi_i P_ij - pi_j P_ji| {d:.3e}")


@functools.lru_cache(maxsize=64)
def _cached_spec_Q(states, params, weight, pi_items):
    pi = dict(pi_items) if weight == "monomer" else numpy.array(pi_items)
    return S.spec_Q(list(states), dict(params), weight, pi)[0]


def named_spec_Q(mid, states, params, pi_reported):
    info = NAMED[mid]
    if info.get("nospec"):
        return None
    if len(states) > 20:      # 61-state spec matrices are reused across the lengths / expm settings of one configuration
        wt = info["weight"]
        items = tuple(sorted(pi_reported[1].items())) if wt == "monomer" else tuple(float(x) for x in pi_reported[0])
        return _cached_spec_Q(tuple(states), tuple((n, float(v)) for n, v in params), wt, items).copy()
    if info["weight"] == "empirical":
        from cogent3.evolve import models as M
        return S.spec_Q_from_exchangeabilities(getattr(M, mid + "_matrix"), pi_reported[0])[0]
    if info["weight"] == "monomer":
        return S.spec_Q(states, dict(params), "monomer", pi_reported[1])[0]
    return S.spec_Q(states, dict(params), info["weight"], pi_reported[0])[0]


def all_entries(lf, what):
    d = lf.get_all_rate_matrices(calibrated=True) if what == "Q" else lf.get_all_psubs()
    return {tuple(str(x) for x in k): arr(v) for k, v in d.items()}


def check_named(mid, solved, pi, params, lengths, expm, want_p):
    """the whole contract for one configured named model; raises Broken / Refusal"""
    info = NAMED[mid]
    desc = ["named", mid, {"rate_matrix_required": False} if solved else {}]
    sm, lf = configure(desc, pi, params, lengths, expm)
    names = sorted(p for p in lf.get_param_names() if p not in NOT_RATE)
    if names != sorted(info["names"]):
        raise Broken("parameter-names", f"model has {names}, spec expects {sorted(info['names'])}")
    states = sm.get_motifs()
    w, reported = state_probs(sm, lf, info["weight"])
    if pi is not None:
        keys = list(pi)
        got = numpy.array([reported[k] for k in keys]) if isinstance(reported, dict) else None
        if got is None or abs(got - numpy.array([pi[k] for k in keys])).max() > 1e-12:
            raise Broken("motif-probs-not-those-set", f"set {pi}, function reports {reported}")
    if abs(w.sum() - 1.0) > 1e-9 or w.min() <= 0:
        raise Broken("motif-probs-not-a-distribution", f"sum {w.sum()!r} min {w.min()!r}")
    stationary = info["weight"] != "none"
    reversible = info["kind"] in ("nuc-rev", "codon-rev", "protein")
    Qspec = named_spec_Q(mid, states, params, (w, reported))
    if solved:
        Q = Qspec                      # closed-form P, no Q in the function: the spec Q is the reference
    else:
        Qs = {e: arr(lf.get_rate_matrix_for_edge(e, calibrated=True)) for e in "abc"}
        Q = Qs["a"]
        q_clauses(Q, w, stationary, reversible, Qspec)
        for e in "bc":
            if abs(Qs[e] - Q).max() > 0:
                raise Broken("Q-differs-between-edges", f"edge {e} vs a: {abs(Qs[e] - Q).max():.3e}")
        allq = all_entries(lf, "Q")
        for k, v in allq.items():
            if v.shape != Q.shape or abs(v - Q).max() > 0:
                raise Broken("Q-get_all_rate_matrices-differs", f"key {k}")
        if not allq:
            raise Broken("Q-get_all_rate_matrices-empty", "no entries")
        for e, L in zip("abc", lengths):
            U = arr(lf.get_rate_matrix_for_edge(e, calibrated=False))
            if abs(U - Q * L).max() > TOLQ * max(1.0, abs(Q).max() * L):
                raise Broken("Q-uncalibrated-is-not-Q-times-length", f"edge {e} length {L}")
    if not want_p:
        return True
    Ps = {e: arr(lf.get_psub_for_edge(e)) for e in "abc"}
    allp = all_entries(lf, "P")
    for e in "abc":
        if (e,) not in allp or abs(allp[(e,)] - Ps[e]).max() > 0:
            raise Broken("P-get_all_psubs-differs", f"edge {e}: keys {sorted(allp)}")
    for e, L in zip("abc", lengths):
        got = lf.get_param_value("length", edge=e)
        if got != L:
            raise Broken("length-not-that-set", f"edge {e}: set {L!r}, reports {got!r}")
        p_clauses(Ps[e], S.spec_expm(Q, L), L, w, stationary, reversible)
    d = abs(Ps["a"] @ Ps["b"] - Ps["c"]).max()
    if d > TOLP:
        raise Broken("P-semigroup", f"max |P(s)P(t) - P(s+t)| {d:.3e} for s,t = {lengths[0]}, {lengths[1]}")
    return True


def run(fn, prefix, case, expm=None):
    """turn Broken/Refusal/unexpected exceptions of the real code into contract results.  The expm setting is part
    of the key only for the clauses it can influence (P-clauses and exceptions)"""
    try:
        fn()
    except Refusal:
        return ("ok", False)
    except Broken as b:
        mid = f"/{expm}" if expm and b.clause.startswith("P") else ""
        return ("fail", f"{prefix}{mid}/{b.clause}", f"{case}: {b.msg}")
    except (KeyboardInterrupt, SystemExit):
        raise
    except Exception as e:
        import traceback
        where = traceback.extract_tb(e.__traceback__)[-1]
        if "/cogent3/" not in where.filename and "/site-packages/" not in where.filename:
            raise           # raised by the checker's own code: let the harness report a CHECKER-ERROR
        mid = f"/{expm}" if expm else ""
        return ("fail", f"{prefix}{mid}/raises-{type(e).__name__}",
                f"{case}: {type(e).__name__}: {e} at {where.filename.split('/')[-1]}:{where.name}")
    return ("ok", True)


# ------------------------------------------------------------------------------------------------ domains
def param_vectors(n, tier, rnd, richer=False):
    """vectors over the bounded box [1e-6, 1e6]^n (RatioParamDefn bounds)"""
    thorough = tier == "thorough"
    if n == 0:
        return [[]]
    if n <= 2:
        return [list(v) for v in itertools.product(VALS, repeat=n)]
    out = [[v] * n for v in VALS]
    ext = VALS if thorough else (1e-6, 1e6)
    for i in range(n):
        for v in ext:
            if v != 1.0:
                out.append([v if k == i else 1.0 for k in range(n)])
    pairs = list(itertools.combinations(range(n), 2))
    for i, j in pairs if (thorough or n <= 5) else pairs[::3]:
        # two parameters moved together: exactly (repeated eigenvalues, possibly a defective Q) and almost
        out.append([3.0 if k in (i, j) else 1.0 for k in range(n)])
        out.append([3.0 if k == i else 3.0 + 1e-9 if k == j else 1.0 for k in range(n)])
    if thorough and n <= 6:
        out += [list(v) for v in itertools.product((1e-6, 1e6), repeat=n)]
        out += [list(v) for v in itertools.product((0.1, 3.0), repeat=n)]
    k = (60 if richer else 15) if thorough else (16 if richer else 6)
    for _ in range(k):
        out.append([rnd.choice(VALS) for _ in range(n)])
    for _ in range(k):
        out.append([10 ** rnd.uniform(-6, 6) for _ in range(n)])
    for _ in range(k):
        out.append([10 ** rnd.uniform(-1.5, 1.5) for _ in range(n)])
    if thorough:
        for _ in range(k):
            out.append([rnd.choice((1e-6, 1e6)) for _ in range(n)])
    return out


def pi4_list(mid, tier, rnd):
    if NAMED.get(mid, {}).get("fixed_pi"):
        return [None]
    out = [PI4[k] for k in (("u", "g", "s", "k", "x") if tier == "thorough" else ("g", "k", "x"))]
    for _ in range(2 if tier == "thorough" else 1):
        v = [rnd.gammavariate(0.5, 1.0) + 1e-4 for _ in range(4)]
        out.append([x / sum(v) for x in v])
    return out


def pi_dict(keys, vals):
    return None if vals is None else dict(zip(keys, vals))


def expand_pi(spec, keys):
    """compact, self-contained description of a probability vector over `keys` (words or nucleotides)"""
    kind = spec[0]
    n = len(keys)
    if kind == "default":
        return None
    if kind == "u":
        v = [1.0 / n] * n
    elif kind == "list":
        v = list(spec[1])
    elif kind == "nuc":          # product of nucleotide probabilities (F1x4)
        m = dict(zip("TCAG", spec[1]))
        v = [math.prod(m[c] for c in k) for k in keys]
    elif kind == "rand":         # Dirichlet(alpha) from a private seeded stream, floored so that every probability
        r = random.Random(spec[1])    # stays inside the documented (1e-6, 1) bound of motif probabilities
        v = [r.gammavariate(spec[2], 1.0) for _ in keys]
        tot = sum(v)
        v = [max(x / tot, 1e-5) for x in v]
    elif kind == "skew":         # a few states at 1e-5 (still inside the (1e-6, 1) bound), the rest random
        r = random.Random(spec[1])
        v = [r.uniform(0.2, 1.0) for _ in keys]
        tot = sum(v)
        v = [x / tot for x in v]
        low = r.sample(range(n), max(1, n // 8))
        for i in low:
            v[i] = 1e-5
        rest = sum(x for i, x in enumerate(v) if i not in low)
        v = [x if i in low else x * (1 - 1e-5 * len(low)) / rest for i, x in enumerate(v)]
        return dict(zip(keys, v))
    else:
        raise ValueError(spec)
    tot = sum(v)
    return dict(zip(keys, [x / tot for x in v]))


# ------------------------------------------------------------------------------------------------ Q: nucleotide + protein
def gen_q(tier, seed):
    rnd = random.Random(seed)
    for mid in NUC:
        names = NAMED[mid]["names"]
        for pv in param_vectors(len(names), tier, rnd, richer=True):
            for pi in pi4_list(mid, tier, rnd):
                yield [mid, [[n, v] for n, v in zip(names, pv)], ["default"] if pi is None else ["list", pi]]
    for mid in PROTEIN:
        yield [mid, [], ["default"]]
        yield [mid, [], ["u"]]
        for k in range(12 if tier == "thorough" else 3):
            yield [mid, [], ["rand", seed * 1000 + k, 1.0]]
            yield [mid, [], ["skew", seed * 1000 + k]]


def keys_for(mid):
    info = NAMED[mid]
    if info["kind"].startswith("nuc"):
        return list("TCAG")
    if info["kind"] == "protein":
        return list("ACDEFGHIKLMNPQRSTVWY")
    if info["weight"] == "monomer":
        return list("TCAG")
    return list(S.SENSE_CODONS)


def contract_q(case):
    mid, params, pispec = case
    pi = expand_pi(pispec, keys_for(mid))
    return run(lambda: check_named(mid, False, pi, [tuple(p) for p in params], (0.1, 1.0, 1.1), "default", False),
               f"Q/{NAMED[mid]['kind']}", case)


# ------------------------------------------------------------------------------------------------ P: nucleotide + protein
def gen_p(tier, seed):
    rnd = random.Random(seed + 1)
    pairs = LEN_PAIRS if tier == "thorough" else LEN_PAIRS_QUICK
    for mid in NUC:
        names = NAMED[mid]["names"]
        for pv in param_vectors(len(names), tier, rnd):
            for pi in pi4_list(mid, tier, rnd):
                for (s, t) in (LEN_PAIRS_MID if tier == "thorough" and len(names) > 2 else pairs):
                    for ex in EXPMS:
                        yield [mid, False, [[n, v] for n, v in zip(names, pv)],
                               ["default"] if pi is None else ["list", pi], s, t, ex]
    for mid in SOLVED:
        names = NAMED[mid]["names"]
        for pv in param_vectors(len(names), tier, rnd):
            for pi in pi4_list(mid, tier, rnd):
                for (s, t) in pairs:
                    yield [mid, True, [[n, v] for n, v in zip(names, pv)],
                           ["default"] if pi is None else ["list", pi], s, t, "solved"]
    for mid in PROTEIN:
        pis = [["default"], ["u"], ["rand", seed, 1.0], ["skew", seed]]
        if tier == "thorough":
            pis += [["rand", seed + k, 0.5] for k in range(1, 4)] + [["skew", seed + k] for k in range(1, 4)]
        for pispec in pis:
            for (s, t) in pairs:
                for ex in EXPMS:
                    yield [mid, False, [], pispec, s, t, ex]


def contract_p(case):
    mid, solved, params, pispec, s, t, ex = case
    pi = expand_pi(pispec, keys_for(mid))
    kind = "nuc-solved" if solved else NAMED[mid]["kind"]
    return run(lambda: check_named(mid, solved, pi, [tuple(p) for p in params], (s, t, s + t), ex, True),
               f"P/{kind}", case, ex)


# ------------------------------------------------------------------------------------------------ codon models
def gen_codon(tier, seed):
    """round-robin over the 10 codon models: with shards=20 case i goes to worker i % 20, which only ever sees model
    i % 10, so every worker builds exactly one of the (slow to construct) 61-state models"""
    thorough = tier == "thorough"
    per_model = []
    for mi, mid in enumerate(CODON):
        rnd = random.Random(seed * 100 + mi)
        names = NAMED[mid]["names"]
        n = len(names)
        pvs = [[v] * n for v in ((1e-6, 0.1, 1.0, 3.0, 1e6) if thorough else (1.0, 3.0))]
        pvs += [[v if k == i else 1.0 for k in range(n)] for i in range(min(n, 3)) for v in (1e-6, 1e6)]
        for _ in range(6 if thorough else 3):
            pvs.append([10 ** rnd.uniform(-1.5, 1.5) for _ in range(n)])
            pvs.append([rnd.choice(VALS) for _ in range(n)])
        if NAMED[mid]["weight"] == "monomer":
            pis = [["list", PI4[k]] for k in (("u", "g", "k", "x") if thorough else ("g", "x"))]
        else:
            pis = [["u"], ["nuc", PI4["g"]], ["rand", seed + mi, 1.0], ["skew", seed + mi]]
            if thorough:
                pis += [["nuc", PI4["k"]], ["rand", seed + mi + 50, 0.3]]
        pairs = [(0.0, 1e-6), (0.1, 1.0), (1.0, 9.0)] if not thorough else \
                [(0.0, 1e-6), (1e-6, 0.1), (0.1, 1.0), (1.0, 9.0)]
        cases = []
        for pi_i, pispec in enumerate(pis):
            for pv_i, pv in enumerate(pvs):
                if not thorough and (pi_i + pv_i) % 2:
                    continue
                for (s, t) in pairs:
                    for ex in EXPMS:
                        cases.append([mid, False, [[nm, v] for nm, v in zip(names, pv)], pispec, s, t, ex])
        per_model.append(cases)
    m = max(len(c) for c in per_model)
    for k in range(m):
        for cases in per_model:
            yield cases[k % len(cases)] if k >= len(cases) else cases[k]


def contract_codon(case):
    mid, solved, params, pispec, s, t, ex = case
    pi = expand_pi(pispec, keys_for(mid))
    return run(lambda: check_named(mid, False, pi, [tuple(p) for p in params], (s, t, s + t), ex, True),
               f"codon/{NAMED[mid]['kind']}", case, ex)


# ------------------------------------------------------------------------------------------------ rate classes
RATE_CONFIGS = {
    "gamma": dict(with_rate=True, distribution="gamma"),
    "free": dict(with_rate=True, distribution="free"),
    "gamma+kappa": dict(with_rate=True, distribution="gamma", partitioned_params=["kappa"]),
    "ordered-kappa": dict(ordered_param="kappa", distribution="free"),
    "independent-rates": dict(with_rate=True),
}
SHAPES = [0.01, 0.1, 0.5, 1.0, 2.0, 10.0, 100.0]


def partitions(nb, tier, rnd):
    out = [None, [round((i + 1) / (nb * (nb + 1) / 2), 12) for i in range(nb)]]
    out[1][-1] = 1.0 - sum(out[1][:-1])
    for _ in range(3 if tier == "thorough" else 1):
        v = [rnd.uniform(0.05, 1.0) for _ in range(nb)]
        v = [x / sum(v) for x in v]
        v[-1] = 1.0 - sum(v[:-1])
        out.append(v)
    return out


def gen_rates(tier, seed):
    rnd = random.Random(seed + 2)
    thorough = tier == "thorough"
    for cfg in RATE_CONFIGS:
        for mid in (("HKY85", "GN") if cfg in ("gamma", "free", "independent-rates") else ("HKY85",)):
            names = NAMED[mid]["names"]
            for bins in ((2, 3, 4) if thorough else (2, 4)):
                for bprobs in partitions(bins, tier, rnd):
                    if cfg.startswith("gamma"):
                        settings = [[["rate_shape", a]] for a in SHAPES]
                    elif cfg == "free":
                        settings = [[]] + [[["rate_partition", p]] for p in partitions(bins, tier, rnd)[1:]]
                    elif cfg == "ordered-kappa":
                        settings = [[]] + [[["kappa_factor_partition", p]] for p in partitions(bins, tier, rnd)[1:]]
                    else:   # a 'rate' parameter per bin, every value inside its bounds [1e-6, 1e6]
                        settings = [[]] + [[["rate@" + f"bin{b}", v] for b, v in enumerate(vec)] for vec in
                                           ([[1.0] * bins, [0.5] * bins, [0.5, 3.0, 1.0, 1.0][:bins]] +
                                            [[10 ** rnd.uniform(-2, 2) for _ in range(bins)] for _ in range(3 if thorough else 1)])]
                    for extra in settings:
                        for pv in ([[3.0] * len(names)] + ([[10 ** rnd.uniform(-2, 2) for _ in names]] if thorough else [])):
                            for L in ((0.0, 0.1, 1.0, 10.0) if thorough else (0.1, 10.0)):
                                for ex in (EXPMS if thorough else ("either",)):
                                    yield [cfg, mid, bins, bprobs, extra, [[n, v] for n, v in zip(names, pv)],
                                           PI4["g"], L, ex]


def check_rates(case):
    cfg, mid, bins, bprobs, extra, params, pi, L, ex = case
    desc = ["named", mid, RATE_CONFIGS[cfg]]
    sm = get_sm(desc)
    lf = sm.make_likelihood_function(_tree(), bins=bins)
    lf.set_motif_probs(dict(zip("TCAG", pi)))
    for e in "abc":
        lf.set_param_rule("length", edge=e, init=L)
    for n, v in params:
        lf.set_param_rule(n, init=v)
    if bprobs is not None:
        lf.set_param_rule("bprobs", init=numpy.array(bprobs))
    for n, v in extra:
        if "@" in n:
            n, b = n.split("@")
            lf.set_param_rule(n, bin=b, init=v)
        else:
            lf.set_param_rule(n, init=numpy.array(v) if isinstance(v, list) else v)
    try:
        if ex != "default":
            lf.set_expm(ex)
    except (ArithmeticError, numpy.linalg.LinAlgError):
        if ex in ("eigen", "checked"):
            raise Refusal(ex)
        raise
    bnames = list(lf.bin_names)
    if len(bnames) != bins:
        raise Broken("bin-count", f"{bnames}")
    bp = arr(lf.get_param_value("bprobs"))
    want = numpy.array(bprobs) if bprobs is not None else numpy.full(bins, 1.0 / bins)
    if abs(bp - want).max() > 1e-12 or abs(bp.sum() - 1) > 1e-12:
        raise Broken("bprobs-not-those-set", f"reports {bp}, set {want}")
    w = numpy.array(pi)
    has_rate = "rate" in lf.get_param_names()
    if has_rate:
        dims = lf.get_used_dimensions("rate")
        rates = numpy.array([float(lf.get_param_value("rate", **({"bin": b} if "bin" in dims else {}))) for b in bnames])
        if not numpy.isfinite(rates).all() or rates.min() < 0:
            raise Broken("rate-class-multiplier-invalid", f"rates {rates}")
        mean = float((bp * rates).sum())
        if abs(mean - 1.0) > 1e-9:
            raise Broken("rate-class-multipliers-do-not-average-to-one", f"rates {rates.tolist()} bprobs {bp.tolist()}: "
                         f"weighted mean {mean!r}")
        if cfg in ("gamma", "free", "gamma+kappa") and (numpy.diff(rates) < -1e-12).any():
            raise Broken("ordered-rate-classes-not-monotone", f"rates {rates.tolist()}")
    else:
        rates = numpy.ones(bins)
    allq = all_entries(lf, "Q")
    allp = all_entries(lf, "P")
    stationary = NAMED[mid]["weight"] != "none"
    expected_subs = 0.0
    late = None
    for bi, b in enumerate(bnames):
        try:
            Q = arr(lf.get_rate_matrix_for_edge("a", bin=b))
        except Exception:
            Q = arr(lf.get_rate_matrix_for_edge("a"))
        q_clauses(Q, w, stationary, stationary)
        k = [key for key in allq if b in key] or [()]
        if k[0] not in allq or abs(allq[k[0]] - Q).max() > 0:
            raise Broken("Q-get_all_rate_matrices-differs", f"bin {b}: keys {sorted(allq)}")
        for e in "abc":
            try:
                P = arr(lf.get_psub_for_edge(e, bin=b))
            except Exception:
                P = arr(lf.get_psub_for_edge(e))
            key = [kk for kk in allp if e in kk and (b in kk or len(kk) == 1)]
            if not key or abs(allp[key[0]] - P).max() > 0:
                raise Broken("P-get_all_psubs-differs", f"bin {b} edge {e}: keys {sorted(allp)}")
            p_clauses(P, S.spec_expm(Q, L * rates[bi]), L, w, stationary, stationary)
            # the un-calibrated matrix of an edge is the generator of that edge's P: Q * length * rate of the bin
            try:
                U = arr(lf.get_rate_matrix_for_edge(e, calibrated=False, bin=b))
            except Exception:
                U = arr(lf.get_rate_matrix_for_edge(e, calibrated=False))
            # (reviewer) what calibrated=False returns per bin comes from a docstring, not from the C05 statement: not demanded
            if False and late is None and abs(U - Q * L * rates[bi]).max() > TOLQ * max(1.0, abs(Q).max() * L * rates[bi]):
                late = Broken("Q-uncalibrated-for-edge-is-not-the-generator-of-P",
                              f"bin {b} edge {e}: get_rate_matrix_for_edge(calibrated=False) differs from Q*length*rate "
                              f"(length {L}, bin rate {rates[bi]!r}) by {abs(U - Q * L * rates[bi]).max():.3e}")
        expected_subs += bp[bi] * rates[bi] * L * -(w * numpy.diag(Q)).sum()
    if abs(expected_subs - L) > 1e-9 * max(1.0, L):
        raise Broken("length-is-not-expected-substitutions", f"sum_b bprob_b rate_b len (-sum pi Q_ii) = {expected_subs!r}, length {L}")
    try:
        allu = {tuple(str(x) for x in k): arr(v) for k, v in lf.get_all_rate_matrices(calibrated=False).items()}
    except (IndexError, KeyError) as e:
        # (reviewer) the uncalibrated accessor is not part of the C05 statement: a refusal is tolerated
        allu = {}
    for k, U in allu.items():
        bi = [i for i, b in enumerate(bnames) if b in k]
        r = rates[bi[0]] if bi else 1.0
        if bi or not has_rate or bins == 1:
            Qb = arr(lf.get_rate_matrix_for_edge("a", bin=bnames[bi[0]])) if bi else Q
            if abs(U - Qb * L * r).max() > TOLQ * max(1.0, abs(Qb).max() * L * r):
                raise Broken("Q-get_all_rate_matrices-uncalibrated-is-not-the-generator-of-P", f"key {k}")
    if late is not None:
        raise late
    return True


def contract_rates(case):
    return run(lambda: check_rates(case), f"rates/{case[0]}", case, case[8])


# ------------------------------------------------------------------------------------------------ user-built predicate models
UNDIRECTED = ["A/C", "A/G", "A/T", "C/G", "C/T", "G/T"]
DIRECTED = [f"{a}>{b}" for a, b in itertools.permutations("ACGT", 2)]


def gen_user(tier, seed):
    rnd = random.Random(seed + 3)
    thorough = tier == "thorough"
    descs = []
    # reversible nucleotide models from every set of <= 2 (thorough <= 3) undirected pair predicates, + kappa
    for k in (0, 1, 2, 3) if thorough else (0, 1, 2):
        for ps in itertools.combinations(UNDIRECTED, k):
            descs.append((["class", "TimeReversibleNucleotide", {"predicates": list(ps)}], list(ps), "tuple", "rev"))
    descs.append((["class", "TimeReversibleNucleotide", {"predicates": ["kappa"]}], ["kappa"], "tuple", "rev"))
    # declared Stationary (not reversible) and plain non-reversible, from directed predicates
    dsets = [[d] for d in DIRECTED] + [list(p) for p in itertools.combinations(DIRECTED, 2)][::(1 if thorough else 5)]
    for ps in dsets:
        descs.append((["class", "NonReversibleNucleotide", {"predicates": ps}], ps, "none", "nonrev"))
        descs.append((["class", "Stationary", {"predicates": ps}], ps, "tuple", "stationary"))
    for ps in [[u] for u in UNDIRECTED[:3]] + [["A/G", "C/T"]]:
        descs.append((["class", "Stationary", {"predicates": ps}], ps, "tuple", "stationary"))
    descs.append((["class", "General", {}], None, "none", "nonrev"))
    descs.append((["class", "GeneralStationary", {}], None, "nospec", "stationary"))
    # multi-letter states: only single-position changes are instantaneous, so the cells GeneralStationary derives from
    # stationarity are spread over the matrix (seeded change C05-s4 lived here)
    descs.append((["class", "GeneralStationary", {"motif_length": 2, "mprob_model": "tuple"}], None, "nospec", "stationary"))
    descs.append((["class", "General", {"motif_length": 2, "mprob_model": "tuple"}], None, "nospec", "nonrev"))
    for mpm in ("tuple", "conditional", "monomer", "monomers"):
        descs.append((["class", "TimeReversibleDinucleotide", {"predicates": ["kappa"], "mprob_model": mpm}], ["kappa"], mpm, "rev"))
        descs.append((["class", "TimeReversibleDinucleotide", {"predicates": ["kappa", "A/C"], "mprob_model": mpm}], ["kappa", "A/C"], mpm, "rev"))
    # codon models: the state space is a proper subset of all words, so word probabilities built from monomers need
    # their own normalisation (seeded change C05-s2 lived here)
    for mpm in ("tuple", "conditional", "monomer", "monomers"):
        descs.append((["class", "TimeReversibleCodon", {"predicates": ["kappa", "omega"], "mprob_model": mpm}], ["kappa", "omega"], mpm, "rev"))
    descs.append((["class", "NonReversibleDinucleotide", {"predicates": ["A>G", "C>T"]}], ["A>G", "C>T"], "none", "nonrev"))
    descs.append((["class", "TimeReversibleNucleotide", {"predicates": ["kappa", "indel"], "model_gaps": True}], None, "nospec", "rev"))
    descs.append((["class", "TimeReversibleDinucleotide", {"predicates": ["kappa", "indel"], "model_gaps": True, "mprob_model": "tuple"}], None, "nospec", "rev"))
    pairs = [(0.0, 0.1), (1.0, 9.0)] if not thorough else [(0.0, 1e-6), (0.1, 1.0), (1.0, 9.0)]
    for desc, names, weight, claim in descs:
        nvec = 4 if thorough else 2
        extra = (24 if thorough else 8) if desc[1] == "GeneralStationary" else 0
        for vi in range(nvec + 3 + extra):
            val = None if vi >= 3 else (3.0, 0.2, "near-equal")[vi]
            if vi >= nvec + 3:
                val = "perturbed"      # all ones except a few: the region where a stationary matrix exists is small
            vseed = rnd.randrange(10 ** 6)
            for pk in (("g", "x") if thorough else ("g",)):
                for (s, t) in pairs:
                    for ex in (EXPMS if thorough else ("either", "eigen", "default")):
                        yield [desc, names, weight, claim, val, vseed, PI4[pk], s, t, ex]


def check_user(case):
    desc, names, weight, claim, val, vseed, pi4, s, t, ex = case
    sm = get_sm(desc)
    states = sm.get_motifs()
    mal = list(sm.get_mprob_alphabet())
    if len(mal) > 5 and min(pi4) < 2e-3:
        pi4 = PI4["y"]        # word probabilities must stay inside the (1e-6, 1) bound of motif probabilities
    if len(mal) > 20 and min(pi4) < 2e-2:
        pi4 = PI4["g"]        # three-letter words: the cube of the smallest monomer probability must stay above 1e-6
    mono = dict(zip("TCAG", pi4))
    if len(mal) == 4:
        pi = mono
    elif len(mal) == 5:       # nucleotides + gap state
        pi = {k: (mono[k] * 0.9 if k in mono else 0.1) for k in mal}
    else:                     # words: product of monomer probs (gap character 0.1)
        m5 = dict(mono)
        m5["-"] = 0.1
        v = [math.prod(m5[c] for c in k) for k in mal]
        pi = dict(zip(mal, [x / sum(v) for x in v]))
    lf0 = sm.make_likelihood_function(_tree())
    pnames = [p for p in lf0.get_param_names() if p not in NOT_RATE]
    r = random.Random(vseed)
    if val == "near-equal":      # all parameters equal up to 1e-9 relative steps (almost repeated eigenvalues)
        params = [(p, 3.0 + 1e-9 * i) for i, p in enumerate(pnames)]
    elif val == "perturbed":
        moved = set(r.sample(range(len(pnames)), min(len(pnames), r.choice((1, 2, 3, 6)))))
        params = [(p, r.choice((2.0, 4.0, 8.0, 0.5)) if i in moved else 1.0) for i, p in enumerate(pnames)]
    else:
        params = [(p, val if val is not None else 10 ** r.uniform(-2, 2)) for p in pnames]
    if names is not None and sorted(pnames) != sorted(names):
        raise Broken("parameter-names", f"model has {pnames}, built from predicates {names}")
    gs = None
    if desc[1] == "GeneralStationary" and list(mal) == list(states):
        gs = S.spec_general_stationary(list(states), dict(params), [pi[k] for k in states])
    try:
        sm, lf = configure(desc, pi, params, (s, t, s + t), ex)
    except Refusal as e:
        if gs is not None and gs[2] > 1e-6 and "ParameterOutOfBounds" in str(e):
            raise Broken("refuses-parameters-for-which-a-stationary-matrix-exists",
                         f"smallest derived exchangeability term of the stationary solution is {gs[2]:.3g} > 0")
        raise
    w, reported = state_probs(sm, lf, weight)
    if abs(w.sum() - 1.0) > 1e-9 or w.min() <= 0:
        raise Broken("motif-probs-not-a-distribution", f"sum {w.sum()!r} min {w.min()!r}")
    if len(mal) == len(states):
        got = numpy.array([reported[k] for k in mal])
        if abs(got - numpy.array([pi[k] for k in mal])).max() > 1e-12:
            raise Broken("motif-probs-not-those-set", f"set {pi}, reports {reported}")
    Qspec = None
    if weight != "nospec" and names is not None:
        arg = w
        if weight == "monomer":
            arg = reported
        elif weight == "monomers":
            arg = reported
        Qspec = S.spec_Q(states, dict(params), weight, arg)[0]
    elif desc[1] == "General" and not desc[2]:
        Qspec = S.spec_Q(states, {p.replace("/", ">"): v for p, v in params}, "none", w)[0]
    elif gs is not None and gs[2] > 1e-9:
        Qspec = gs[0]
    stationary = claim in ("rev", "stationary")
    reversible = claim == "rev"
    Qs = {e: arr(lf.get_rate_matrix_for_edge(e)) for e in "abc"}
    Q = Qs["a"]
    q_clauses(Q, w, stationary, reversible, Qspec)
    for e in "bc":
        if abs(Qs[e] - Q).max() > 0:
            raise Broken("Q-differs-between-edges", f"edge {e}")
    for e, L in zip("abc", (s, t, s + t)):
        p_clauses(arr(lf.get_psub_for_edge(e)), S.spec_expm(Q, L), L, w, stationary, reversible)
    d = abs(arr(lf.get_psub_for_edge("a")) @ arr(lf.get_psub_for_edge("b")) - arr(lf.get_psub_for_edge("c"))).max()
    if d > TOLP:
        raise Broken("P-semigroup", f"max |P(s)P(t) - P(s+t)| {d:.3e}")
    return True


def user_shape(desc):
    cls, kw = desc[1], desc[2]
    preds = kw.get("predicates", [])
    directed = any(">" in p for p in preds)
    tag = cls + ("(directed predicates)" if directed else "")
    if kw.get("model_gaps"):
        tag += "+gaps"
    if "mprob_model" in kw:
        tag += ":" + kw["mprob_model"]
    return tag


def contract_user(case):
    return run(lambda: check_user(case), f"user/{user_shape(case[0])}", case, case[9])


# ------------------------------------------------------------------------------------------------ exponentiator classes
BACKENDS = ["FastExponentiator", "CheckedExponentiator", "PadeExponentiator", "RobustExponentiator",
            "TaylorExponentiator", "SemiSymmetricExponentiator",
            "ExpDefn:eigen", "ExpDefn:checked", "ExpDefn:pade", "ExpDefn:either"]


def q_family(spec):
    """rate matrices for the back-ends, built by the spec (independent of the models' calcQ)"""
    fam, vals, pi = spec
    if fam == "HKY85":
        return S.spec_Q(list("TCAG"), {"kappa": vals[0]}, "tuple", pi), True
    if fam == "GTR":
        return S.spec_Q(list("TCAG"), dict(zip(GTR_NAMES, vals)), "tuple", pi), True
    if fam == "GN":
        return S.spec_Q(list("TCAG"), dict(zip(GN_NAMES, vals)), "none", pi), False
    if fam == "GY94":
        m = dict(zip("TCAG", pi))
        w = S.word_probs_from_monomers(S.SENSE_CODONS, m)
        return S.spec_Q(S.SENSE_CODONS, {"kappa": vals[0], "omega": vals[1]}, "tuple", w), True
    raise ValueError(fam)


def gen_backends(tier, seed):
    rnd = random.Random(seed + 4)
    thorough = tier == "thorough"
    qs = []
    pis = [PI4[k] for k in (("u", "g", "k", "x") if thorough else ("u", "g", "k"))]
    for pi in pis:
        for k in (VALS if thorough else (1e-3, 1.0, 3.0, 1e3)):
            qs.append(["HKY85", [k], pi])
        for _ in range(6 if thorough else 2):
            qs.append(["GTR", [10 ** rnd.uniform(-2, 2) for _ in GTR_NAMES], pi])
            qs.append(["GN", [10 ** rnd.uniform(-2, 2) for _ in GN_NAMES], pi])
        if thorough:
            qs.append(["GN", [rnd.choice(VALS) for _ in GN_NAMES], pi])
    qs.append(["GY94", [2.0, 0.3], PI4["g"]])
    if thorough:
        qs.append(["GY94", [10.0, 3.0], PI4["k"]])
    for q in qs:
        for t in L5 + ([0.01, 3.0] if thorough else []):
            for be in BACKENDS:
                yield [be, q, t]


CPU_LIMIT = 3.0      # seconds of process CPU time; the 4x4 / 61x61 series need milliseconds when they converge


class _Timeout(Exception):
    pass


def _alarm(*_):
    raise _Timeout()


def check_backend(case):
    from cogent3.evolve.substitution_calculation import ExpDefn
    from cogent3.maths import matrix_exponentiation as ME
    be, qspec, t = case
    (Q, w), reversible = q_family(qspec)
    ref = S.spec_expm(Q, t)
    if be == "SemiSymmetricExponentiator" and not reversible:
        raise Refusal("needs a reversible process")      # documented limitation of that back-end
    old = signal.signal(signal.SIGVTALRM, _alarm)
    signal.setitimer(signal.ITIMER_VIRTUAL, CPU_LIMIT)
    try:
        try:
            if be.startswith("ExpDefn:"):
                P = ExpDefn.calc(None, be.split(":")[1])(Q.copy())(t)
            elif be == "SemiSymmetricExponentiator":
                P = ME.SemiSymmetricExponentiator(w.copy(), Q.copy())(t)
            else:
                P = getattr(ME, be)(Q.copy())(t)
        except (ArithmeticError, numpy.linalg.LinAlgError) as e:
            if be in ("FastExponentiator", "CheckedExponentiator", "ExpDefn:eigen", "ExpDefn:checked", "SemiSymmetricExponentiator"):
                raise Refusal(str(e))
            raise
        except _Timeout:
            raise Broken("P-does-not-terminate", f"no result for t={t} within {CPU_LIMIT} s of CPU time "
                         f"(max |Q t| = {abs(Q).max() * t:.3g})")
    finally:
        signal.setitimer(signal.ITIMER_VIRTUAL, 0)
        signal.signal(signal.SIGVTALRM, old)
    p_clauses(numpy.array(P, float), ref, t, w, False, False)
    return True


def contract_backends(case):
    # the size of Q t is part of the key: a back-end known to lose accuracy on large |Q t| must still be right on small ones
    (Q, _w), _rev = q_family(case[1])
    qt = float(abs(Q).max() * case[2])
    bucket = "<15" if qt < 15 else "15-50" if qt < 50 else ">=50"
    return run(lambda: check_backend(case), f"backend/{case[0]}/Qt:{bucket}", case)


# ------------------------------------------------------------------------------------------------ discrete-time models
def gen_discrete(tier, seed):
    rnd = random.Random(seed + 5)
    for mid, kw in (("BH", {}), ("DT", {}), ("DT", {"motif_length": 2})):
        yield [mid, kw, None]
        for k in range(6 if tier == "thorough" else 2):
            yield [mid, kw, rnd.randrange(10 ** 6)]


def check_discrete(case):
    mid, kw, pseed = case
    sm = get_sm(["named", mid, kw])
    lf = sm.make_likelihood_function(_tree())
    n = len(sm.get_motifs())
    lf.set_motif_probs(dict(zip(sm.get_motifs(), [1.0 / n] * n)))
    want = None
    if pseed is not None:
        r = random.Random(pseed)
        want = numpy.array([[r.uniform(0.05, 1.0) for _ in range(n)] for _ in range(n)])
        want += numpy.identity(n) * n
        want /= want.sum(axis=1)[:, None]
        lf.set_param_rule("psubs", edge="a", init=want)
    for e in "abc":
        P = arr(lf.get_psub_for_edge(e))
        if P.shape != (n, n) or not numpy.isfinite(P).all():
            raise Broken("P-nonfinite", f"edge {e}")
        if abs(P.sum(axis=1) - 1).max() > TOLP:
            raise Broken("P-rowsum", f"edge {e}: {abs(P.sum(axis=1) - 1).max():.3e}")
        if P.min() < 0:
            raise Broken("P-negative", f"edge {e}: {P.min():.3e}")
        if e == "a" and want is not None and abs(P - want).max() > 1e-9:
            raise Broken("P-not-that-set", f"edge a: {abs(P - want).max():.3e}")
    return True


def contract_discrete(case):
    return run(lambda: check_discrete(case), f"discrete/{case[0]}", case)


# ------------------------------------------------------------------------------------------------ registry
BOUNDED = {
    "rate_matrix": {
        "gen": gen_q, "contract": contract_q,
        "functions": ["LikelihoodFunction.get_rate_matrix_for_edge", "LikelihoodFunction.get_all_rate_matrices",
                      "LikelihoodFunction.get_motif_probs", "_ContinuousSubstitutionModel.calcQ", "StationaryQ.calcQ",
                      "Parametric.calc_exchangeability_matrix", "Empirical.calc_exchangeability_matrix"],
        "bound": "8 continuous-time nucleotide models x rate-parameter vectors in the box [1e-6,1e6]^n (full 7-point "
                 "grid for n<=2; all-equal, one-off-axis, corners, {0.1,3}^n and seeded log-uniform/grid samples for "
                 "n=5,11) x motif probabilities {uniform, graded, symmetric, 0.97-skew, 1e-5-skew, seeded Dirichlet}; "
                 "5 empirical protein models x {own, uniform, seeded Dirichlet, 1e-5-skew} motif probabilities",
        "rule": "a case = (model, parameter vector, motif probabilities); Q-clauses incl. Q == spec_Q, calibrated=False "
                "== Q*length, same Q from every entry point; every evaluated case is non-trivial; distinct by case hash",
    },
    "psub": {
        "gen": gen_p, "contract": contract_p,
        "functions": ["LikelihoodFunction.get_psub_for_edge", "LikelihoodFunction.get_all_psubs", "ExpDefn.calc",
                      "_EigenPade.__call__", "FastExponentiator", "CheckedExponentiator", "PadeExponentiator",
                      "EigenExponentiator.__call__", "PredefinedNucleotide.calc_psub_matrix", "calc_TN93_P"],
        "bound": "as rate_matrix (smaller parameter sample) x length pairs (s,t) from {0,1e-6,0.1,1,10}^2 with s+t<=10 "
                 "on edges a,b and s+t on edge c (all 17 pairs for models with <=2 parameters, 9 for the others; quick: 5) x expm in {eigen, checked, pade, either}; the closed-form "
                 "models JC69/K80/F81/HKY85/TN93 built with rate_matrix_required=False against exp(spec_Q t)",
        "rule": "a case = (model, parameters, motif probabilities, s, t, expm); Q- and P-clauses incl. P == spec_expm(Q,len), "
                "P(0)=I, P(s)P(t)=P(s+t); non-trivial unless the back-end refused; distinct by case hash",
    },
    "codon": {
        "gen": gen_codon, "contract": contract_codon, "shards": 2 * len(CODON),
        "functions": ["get_model (10 codon models)", "ConditionalMotifProbModel.calc_word_weight_matrix",
                      "MonomerProbModel.calc_word_probs", "MonomerProbModel.calc_word_weight_matrix",
                      "LikelihoodFunction.get_rate_matrix_for_edge", "LikelihoodFunction.get_psub_for_edge"],
        "bound": "10 codon models (61 states) x parameter vectors {all-equal, off-axis at the bounds, seeded samples} x "
                 "motif probabilities {uniform, F1x4 product, seeded Dirichlet, 1e-5-skew; monomer vectors for MG94} x "
                 "3 (thorough 4) length pairs x 4 expm settings",
        "rule": "as psub; spec_Q for CNF*/MG94*/GY94/Y98/GNC, intrinsic clauses only for H04*; cases are dealt round-robin "
                "so each of the 20 workers builds one model",
    },
    "rate_classes": {
        "gen": gen_rates, "contract": contract_rates,
        "functions": ["GammaDefn.calc", "MonotonicDefn.calc", "WeightedPartitionDefn.calc",
                      "_ContinuousSubstitutionModel.make_distance_defn", "_ContinuousSubstitutionModel._make_bin_param_defn",
                      "LikelihoodFunction.get_psub_for_edge(bin=)", "LikelihoodFunction.get_all_rate_matrices"],
        "bound": "HKY85 and GN with rate heterogeneity {gamma, free, gamma + partitioned kappa, ordered kappa, independent "
                 "per-bin rate parameters} x bins {2,(3),4} x bin probabilities {equal, graded, seeded} x gamma shapes "
                 "{0.01..100} / partitions x lengths {0,0.1,1,10} x expm settings",
        "rule": "a case = (config, model, bins, bprobs, distribution setting, parameters, length, expm); rate multipliers "
                "average to one under bprobs, per-bin Q calibrated, P(bin,edge) == spec_expm(Q, len*rate_b)",
    },
    "user_models": {
        "gen": gen_user, "contract": contract_user,
        "functions": ["TimeReversibleNucleotide", "NonReversibleNucleotide", "Stationary", "General", "GeneralStationary",
                      "TimeReversibleDinucleotide (tuple/conditional/monomer/monomers)", "NonReversibleDinucleotide",
                      "model_gaps=True", "Parametric.__init__", "predicate.MotifChange", "predicate.parse"],
        "bound": "every set of <=2 (thorough <=3) undirected nucleotide-pair predicates; every single and (sampled) pair of "
                 "directed predicates as NonReversibleNucleotide and as Stationary; General, GeneralStationary; dinucleotide "
                 "models under the 4 motif-prob models; gap-state models; 4-6 parameter vectors x 1-2 motif-prob vectors x "
                 "2-3 length pairs x expm settings",
        "rule": "a case = (constructor description, parameters, motif probs, s, t, expm); models of class Stationary must have "
                "pi Q = 0, TimeReversible ones detailed balance; constructors may refuse a predicate set",
    },
    "exponentiators": {
        "gen": gen_backends, "contract": contract_backends,
        "functions": ["FastExponentiator", "CheckedExponentiator", "PadeExponentiator", "RobustExponentiator",
                      "TaylorExponentiator", "SemiSymmetricExponentiator", "ExpDefn.calc", "_EigenPade"],
        "bound": "rate matrices written by the spec (HKY85 / GTR / GN on 4 states, GY94 on 61) x t in {0,1e-6,0.1,1,10} "
                 "(thorough + 0.01, 3) x every exponentiator class of maths/matrix_exponentiation.py and every ExpDefn setting",
        "rule": "a case = (back-end, Q description, t); P-clauses against spec_expm; a 3 s CPU-time alarm turns "
                "non-termination into a failure",
    },
    "discrete_time": {
        "gen": gen_discrete, "contract": contract_discrete, "shards": 4,
        "functions": ["DiscreteSubstitutionModel", "PsubMatrixDefn"],
        "bound": "BH, DT (motif length 1, 2): default and seeded user-set psubs",
        "rule": "a case = (model, psub seed); reported psubs are row-stochastic and are the ones that were set",
    },
}
