#!/bin/bash
# Builds /verif/.venv offline: python 3.12 venv overlaying /venv (cogent3 + numpy/numba/scipy) with the
# solver wheels from the offline wheelhouse.  Idempotent.
set -e
cd "$(dirname "$0")"
export PIP_NO_INDEX=1 PIP_DISABLE_PIP_VERSION_CHECK=1
if [ ! -x .venv/bin/python ] || ! .venv/bin/python -c "import z3, jsonschema, cogent3, sympy" 2>/dev/null; then
  rm -rf .venv
  /venv/bin/python -m venv .venv
  .venv/bin/pip install -q --no-index --find-links /opt/veriftools/wheels z3-solver jsonschema sympy >/dev/null
  .venv/bin/pip install -q --no-index --find-links /opt/veriftools/wheels crosshair-tool icontract deal >/dev/null 2>&1 || true
  SP=$(.venv/bin/python -c "import site; print(site.getsitepackages()[0])")
  echo "import site; site.addsitedir('/venv/lib/python3.12/site-packages')" > "$SP/zz_repo_overlay.pth"
fi
.venv/bin/python -c "import z3, jsonschema, cogent3, numpy, sympy; print('setup ok: z3', z3.get_version_string(), 'cogent3', cogent3.__file__)"
mkdir -p .work evidence replays
