"""C11 -- likelihood is invariant under relabelling, reordering and re-rooting.

Proof tier: the same kernels as C02 (their contracts are what the invariances rest on):
``get_log_sum_across_sites`` depends on (lh, counts) only through  sum_u counts[u] * log(lh[u])  and
``sum_input_likelihoods`` is the product over children -- so, over the reals, column permutation / k-fold
repetition change lnL by the factor k and child order does not matter (commutativity; float re-association is
excluded by assumption).  Root placement and edge splitting are theorems about expm and reversibility: bounded
tier only (bounded/C11.py, relational contracts lnL(T(problem)) == factor * lnL(problem))."""
import os

from contracts import C02


def run(chk):
    for q in ("sum_input_likelihoods", "inner_product", "get_log_sum_across_sites"):
        chk.function(C02.FILE, q, "P")
    only = getattr(chk, "only", None)
    if not only or "proof" in only:
        chk.guard(C02.kernel_obligations)
        from contracts import indexed
        chk.guard(indexed.obligations, chk.prop, fallback=[indexed._replay])
        chk.discharge()
    chk.assume("@njit kernels verified as their undecorated Python bodies; float64 treated as the reals (re-association exact)")
    chk.assume("lemma (not machine-checked): with the kernel contracts, lnL is a sum over unique columns of multiplicity * log "
               "column-likelihood and each column likelihood a product over children, hence invariant under column "
               "permutation/merging and child order; likelihood_tree._indexed (unique columns, multiplicities, index) is proved by a quantified loop invariant")
    chk.assume("pulley principle (re-rooting, reversible models) and edge splitting (P(s+t)=P(s)P(t)) are not decided by proof")
    if (not only or "bounded" in only) and os.path.exists(os.path.join(os.path.dirname(__file__), "..", "bounded", "C11.py")):
        chk.bounded("bounded.C11")
    chk.level = "other"
    chk.explanation = ("sum-product kernels proved by loop invariants (smt, shared with C02); the invariances themselves are "
                       "relational bounded run-time contracts over models x trees x alignments x transformations")
