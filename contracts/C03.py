"""C03 -- alignment operations equal the same operations on the gapped strings.

The deductive glue named in DESIGN.md (Aligned.__getitem__/rc against the contracts of IndelMap and Sequence) rests
on the scalar span/slice arithmetic proved under C08 and the view algebra proved under C01; no further obligation
is discharged here.  The property itself is decided by bounded run-time contracts (bounded/C03.py) over the
abstract view rows(aln) = [(name, gapped string)]; level = exploration, proved = 0 for this property id."""


def run(chk):
    chk.bounded("bounded.C03")
    chk.level = "exploration"
    chk.explanation = "bounded run-time contracts only; the integer cores it relies on are proved under C01 and C08"
    chk.assume("no deductive obligation under this id: numpy-backed alignment storage is outside the VC generator's subset")
