"""Mechanical translation of the numpy bodies of ``calcQ`` into Lean 4 + Mathlib terms, and the Lean run.

Translation table (anything else => the lemma is UNDECIDED, never failed):
    X = self.calc_exchangeability_matrix(word_probs, *params)   ->  X := R
    X *= mprobs_matrix                                          ->  X := fun i j => X i j * M i j
    v = X.sum(axis=1)                                           ->  v := fun i => sum_j X i j
    X -= numpy.diag(v)  /  X += numpy.diag(v)                   ->  X := X -/+ Matrix.diagonal v
    X *= c / (word_probs * v).sum()  /  X *= c / v.sum()        ->  X := (c / sum_i w i * v i) . X  /  (c / sum_i v i) . X
    return X
"""
from __future__ import annotations

import ast
import os
import re
import shutil
import subprocess
import time

from pyvc import extract

ROOT = os.path.dirname(os.path.dirname(os.path.abspath(__file__)))
MATHLIB = "/opt/veriftools/mathlib4"
FILE = "cogent3/evolve/substitution_model.py"


class Untranslatable(Exception):
    pass


def _lit(txt):
    """numeric literal as a Lean real: integral floats as integers (1.0 -> 1), others as a ratio"""
    from fractions import Fraction
    fr = Fraction(txt)
    return str(fr.numerator) if fr.denominator == 1 else f"({fr.numerator} / {fr.denominator})"


def translate(node, name, with_m):
    lines = []
    cur = {}      # python name -> current lean name
    k = 0

    def fresh(prefix):
        nonlocal k
        k += 1
        return f"{prefix}{k}"
    for st in node.body:
        if isinstance(st, ast.Expr) and isinstance(st.value, ast.Constant):
            continue
        src = ast.unparse(st)
        if isinstance(st, ast.Assign) and len(st.targets) == 1 and isinstance(st.targets[0], ast.Name):
            t = st.targets[0].id
            if re.fullmatch(r"self\.calc_exchangeability_matrix\(word_probs, \*params\)", ast.unparse(st.value)):
                ln = fresh("Q")
                lines.append(f"  let {ln} : Matrix n n ℝ := R")
                cur[t] = ln
                continue
            m = re.fullmatch(r"(\w+)\.sum\(axis=1\)", ast.unparse(st.value))
            if m and m.group(1) in cur:
                ln = fresh("v")
                lines.append(f"  let {ln} : n → ℝ := fun i => ∑ j, {cur[m.group(1)]} i j")
                cur[t] = ln
                continue
            raise Untranslatable(src)
        if isinstance(st, ast.AugAssign) and isinstance(st.target, ast.Name) and st.target.id in cur:
            t = st.target.id
            rhs = ast.unparse(st.value)
            if isinstance(st.op, ast.Mult) and rhs == "mprobs_matrix" and with_m:
                ln = fresh("Q")
                lines.append(f"  let {ln} : Matrix n n ℝ := Matrix.of (fun i j => {cur[t]} i j * M i j)")
                cur[t] = ln
                continue
            m = re.fullmatch(r"numpy\.diag\((\w+)\)", rhs)
            if isinstance(st.op, (ast.Sub, ast.Add)) and m and m.group(1) in cur:
                ln = fresh("Q")
                sign = "-" if isinstance(st.op, ast.Sub) else "+"
                lines.append(f"  let {ln} : Matrix n n ℝ := {cur[t]} {sign} Matrix.diagonal {cur[m.group(1)]}")
                cur[t] = ln
                continue
            m = re.fullmatch(r"(\d+(?:\.\d+)?) / \(word_probs \* (\w+)\)\.sum\(\)", rhs)
            if isinstance(st.op, ast.Mult) and m and m.group(2) in cur:
                ln = fresh("Q")
                lines.append(f"  let {ln} : Matrix n n ℝ := (({_lit(m.group(1))} : ℝ) / ∑ i, w i * {cur[m.group(2)]} i) • {cur[t]}")
                cur[t] = ln
                continue
            m = re.fullmatch(r"(\d+(?:\.\d+)?) / (\w+)\.sum\(\)", rhs)
            if isinstance(st.op, ast.Mult) and m and m.group(2) in cur:
                ln = fresh("Q")
                lines.append(f"  let {ln} : Matrix n n ℝ := (({_lit(m.group(1))} : ℝ) / ∑ i, {cur[m.group(2)]} i) • {cur[t]}")
                cur[t] = ln
                continue
            raise Untranslatable(src)
        if isinstance(st, ast.Return) and isinstance(st.value, ast.Name) and st.value.id in cur:
            lines.append(f"  {cur[st.value.id]}")
            break
        raise Untranslatable(src)
    else:
        raise Untranslatable("no return")
    sig = "(R M : Matrix n n ℝ) (w : n → ℝ)" if with_m else "(R : Matrix n n ℝ) (w : n → ℝ)"
    return f"noncomputable def {name} {sig} : Matrix n n ℝ :=\n" + "\n".join(lines) + "\n"


THEOREMS = ["calcQ_row_sum_zero", "calcQ_offdiag", "calcQ_offdiag_nonneg", "calcQ_calibrated",
            "calcQS_row_sum_zero", "calcQS_offdiag", "calcQS_detailed_balance", "calcQS_stationary"]


def run_lean(chk):
    fn = "evolve.substitution_model.calcQ"
    chk.function(FILE, "_ContinuousSubstitutionModel.calcQ", "L")
    chk.function(FILE, "StationaryQ.calcQ", "L")
    try:
        d1 = translate(extract.get(FILE, "_ContinuousSubstitutionModel.calcQ"), "calcQ", False)
        d2 = translate(extract.get(FILE, "StationaryQ.calcQ"), "calcQS", True)
    except Untranslatable as u:
        chk.undecided.append(f"{fn}: body left the translatable table at `{u}` (Lean lemmas not attempted)")
        return
    tmpl = open(os.path.join(ROOT, "lean", "C05_lemmas.lean.tmpl")).read()
    text = tmpl.replace("-- GENERATED-DEFS\n", d1 + "\n" + d2 + "\n")
    work = os.path.join(ROOT, ".work")
    os.makedirs(work, exist_ok=True)
    path = os.path.join(work, "C05_calcQ_generated.lean")
    with open(path, "w") as f:
        f.write(text)
    if not (shutil.which("lake") and os.path.isdir(MATHLIB)):
        chk.undecided.append(f"{fn}: lean/lake or Mathlib not available")
        return
    t0 = time.time()
    try:
        p = subprocess.run(["lake", "env", "lean", path], cwd=MATHLIB, capture_output=True, text=True, timeout=1500)
        out = p.stdout + p.stderr
        rc = p.returncode
    except subprocess.TimeoutExpired:
        chk.undecided.append(f"{fn}: Lean timed out")
        return
    secs = time.time() - t0
    errors = [l for l in out.splitlines() if ": error" in l]
    for th in THEOREMS:
        # an error is attributed to the theorem whose text span contains its line number
        bad = [e for e in errors if _owner(text, e) == th]
        status = "proved" if rc == 0 and not errors else ("refuted" if bad else ("unknown" if errors else "proved"))

        def thunk(status=status, bad=bad, secs=secs):
            return (status, "lean 4.33.0 + Mathlib", secs / len(THEOREMS), None,
                    "accepted by Lean" if status == "proved" else "; ".join(bad)[:500] or "file did not compile")
        chk.obligation(f"{fn}/lemma.{th}", "lemma", thunk, function=fn, key=f"C05/{fn}/lemma.{th}",
                       replayer=_numeric_witness)
    chk.discharge(workers=1)
    chk.assume("Lean lemmas are over the reals and over the term translated by the fixed table in contracts/C05_lean.py; "
               "calc_exchangeability_matrix is an arbitrary matrix R (zero diagonal assumed only for the calibration lemma)")
    chk.trust("Lean 4 kernel + Mathlib")


def _numeric_witness(model):
    """a failed algebraic lemma is replayed numerically on real models: row sums, sign, calibration, stationarity"""
    import numpy
    from cogent3 import get_model, make_tree
    tree = make_tree("(a:0.3,b:0.2,c:0.1);")
    pi = dict(T=.1, C=.2, A=.3, G=.4)
    for name, rules in (("HKY85", {"kappa": 3.0}), ("GTR", {"A/C": 2.0, "A/G": 0.5}), ("GN", {"A>C": 2.0, "T>A": 0.4})):
        lf = get_model(name).make_likelihood_function(tree)
        lf.set_motif_probs(pi)
        for k, v in rules.items():
            lf.set_param_rule(k, init=v)
        Q = numpy.array(lf.get_rate_matrix_for_edge("a").array)
        w = numpy.array(lf.get_motif_probs().array)
        rows = abs(Q.sum(axis=1)).max()
        off = (Q - numpy.diag(numpy.diag(Q))).min()
        cal = -(w * numpy.diag(Q)).sum()
        stat = abs(w @ Q).max() if name != "GN" else 0.0
        if rows > 1e-9 or off < -1e-12 or abs(cal - 1) > 1e-9 or stat > 1e-9:
            return {"failed": True, "witness": {"model": name, "rules": rules, "motif_probs": pi},
                    "description": f"{name} {rules} motif probs {pi}: max |row sum| {rows:.3g}, min off-diagonal {off:.3g}, "
                                   f"expected rate at motif probs {cal:.6g} (want 1), max |pi Q| {stat:.3g}"}
    return {"failed": False, "description": "HKY85/GTR/GN rate matrices satisfy the clauses numerically"}


def _owner(text, errline):
    m = re.search(r":(\d+):\d+: error", errline)
    if not m:
        return None
    ln = int(m.group(1))
    owner = None
    for i, l in enumerate(text.splitlines(), 1):
        mm = re.match(r"theorem (\w+)", l)
        if mm:
            if i <= ln:
                owner = mm.group(1)
    return owner
