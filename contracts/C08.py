"""C08 -- gapped-coordinate maps agree with the gapped string they describe.

Proof tier (scalar core, linear integer arithmetic, all integers): ``_norm_index``, ``_norm_slice`` (int and
slice variants), ``span_and_span``, ``Span.__getitem__`` (forward and reverse), ``Span.__mul__``,
``Span.__truediv__``, ``Span.reversed_relative_to``, ``Span.__contains__``/``overlaps``.
Bounded tier: bounded/C08.py (IndelMap / FeatureMap operations against the gapped-string model).
"""
from __future__ import annotations

import itertools
import os

import z3

from pyvc import extract
from pyvc.dsl import And, Defs, Iff, Implies, Not, Or, imax, imin, ite
from pyvc.harness import cover_thunk, smt_thunk
from pyvc.objects import ClassHooks
from pyvc.symex import Engine, Opaque, Raise, Rec, SliceV, Unsupported, fresh_int, is_sym
from speclib import slices as S

FILE = "cogent3/core/location.py"


class SpanHooks(ClassHooks):
    def call_name(self, eng, name, args, kw, env):
        if name == "locals":
            return {}
        if name == "_norm_slice":
            idx = args[0]
            if isinstance(idx, SliceV):
                return eng.call("_norm_slice[slice]", dict(index=idx, length=args[1]))
            if isinstance(idx, Rec):
                return eng.call("_norm_slice[Span]", dict(index=idx, length=args[1]))
            return eng.call("_norm_slice[int]", dict(index=idx, length=args[1]))
        if name == "Span":
            return self.construct(eng, Rec("Span"), [], self._ctor_kw(eng, args, kw))
        if name == "type" and len(args) == 1 and isinstance(args[0], Rec):
            return ("ctor", args[0])
        if name == "isinstance":
            v, t = args
            if isinstance(t, tuple) and t and t[0] == "func" and t[1] == "Span" or t == ("func", "Span"):
                return isinstance(v, Rec) and v.cls == "Span"
        return super().call_name(eng, name, args, kw, env)

    def _ctor_kw(self, eng, args, kw):
        names = ["start", "end", "tidy_start", "tidy_end", "value", "reverse"]
        out = dict(zip(names, args))
        out.update(kw)
        return out

    def construct(self, eng, proto, args, kw):
        if args:
            kw = self._ctor_kw(eng, args, kw)
        new = Rec("Span")
        eng.call("__init__", eng.call_positional("__init__", [], kw, self_obj=new))
        return new

    def call_value(self, eng, fn, args, kw, env):
        if isinstance(fn, tuple) and fn and fn[0] == "ctor":
            return self.construct(eng, fn[1], args, kw)
        return super().call_value(eng, fn, args, kw, env)

    def global_name(self, eng, name):
        if name == "Span":
            return ("func", "Span")
        if name == "_empty":
            return (None, None)
        return super().global_name(eng, name)

    def get_attr(self, eng, obj, attr):
        if isinstance(obj, Opaque) and obj.tag == "other-span" and attr in obj.attrs:
            return obj.attrs[attr]
        return super().get_attr(eng, obj, attr)


def load():
    funcs, props = extract.class_functions(FILE, "Span")
    for n in ("_norm_index", "span_and_span"):
        funcs[n] = extract.get(FILE, n)
    funcs["_norm_slice[int]"] = extract.get(FILE, "_norm_slice")
    funcs["_norm_slice[slice]"] = extract.get_dispatch(FILE, "_norm_slice", "slice")
    funcs["_norm_slice[Span]"] = extract.get_dispatch(FILE, "_norm_slice", "Span")
    return funcs, props


def sym_span(prefix="s", reverse=None):
    st, en = z3.Int(f"{prefix}start"), z3.Int(f"{prefix}end")
    rev = z3.Bool(f"{prefix}rev") if reverse is None else reverse
    sp = Rec("Span", start=st, end=en, reverse=rev, tidy_start=z3.Bool(f"{prefix}ts"), tidy_end=z3.Bool(f"{prefix}te"),
             value=None, length=en - st)
    return sp, [0 <= st, st <= en]


def clamp(i, L):
    """python slice normalisation of one bound for step 1"""
    return S.py_slice_indices(i, i, 1, L)[0]


def span_fields(r):
    return r.fields["start"], r.fields["end"], r.fields["reverse"]


def add(chk, base, fn, paths, pre, post_of, replayer=None, timeout=20):
    """one obligation per path: pc -> post_of(path); plus cover"""
    chk.obligation(f"{base}/cover", "cover", cover_thunk(pre), function=fn)
    n = 0
    for k, p in enumerate(paths):
        if p.outcome == "abort":
            continue
        n += 1
        Defs.push()
        goal = post_of(p)
        defs, nz = Defs.pop()
        goal = goal if is_sym(goal) else z3.BoolVal(bool(goal))
        g = z3.Implies(z3.And(defs), goal) if defs else goal
        if nz:
            g = z3.And(*nz, g)
        chk.obligation(f"{base}/post/path={k}", "post", smt_thunk(p.pc, g, timeout=timeout), function=fn,
                       replayer=replayer, key=f"C08/{fn}/post")
        for nm, pc, cond in p.obligations:
            chk.obligation(f"{base}/{nm}/path={k}", "pre@callsite", smt_thunk(pc, cond, timeout=timeout), function=fn)
    if n == 0:
        chk.error(f"{base}: no paths")


def run_proof(chk):
    funcs, props = load()
    hooks = SpanHooks(funcs, props)

    def engine():
        return Engine(funcs, hooks)

    # ---- _norm_index(i, length, default)
    fn = "core.location._norm_index"
    L, i, dflt = z3.Ints("L i dflt")
    for inone in (True, False):
        pre = [L >= 0, 0 <= dflt, dflt <= L]
        iv = None if inone else i
        paths = engine().run(lambda e: e.call("_norm_index", dict(i=iv, length=L, default=dflt)), pre)

        def post(p, iv=iv):
            if p.outcome != "return":
                return False
            want = dflt if iv is None else clamp(iv, L)
            return And(p.value == want, 0 <= p.value, p.value <= L)
        add(chk, f"{fn}/cfg=(i={'None' if inone else 'int'})", fn, paths, pre, post, _rep_norm_index(inone))

    # ---- _norm_slice (int): IndexError iff outside [-L, L); else (k, k+1, 1)
    fn = "core.location._norm_slice[int]"
    pre = [L >= 0]
    paths = engine().run(lambda e: e.call("_norm_slice[int]", dict(index=i, length=L)), pre)

    def post_int(p):
        inside = And(-L <= i, i < L)
        if p.outcome == "raise":
            # the property does not demand an error for i < -L (python would); the contract pins the real behaviour
            # that matters: no *result* outside the parent
            return And(p.value == "IndexError", Not(And(0 <= i, i < L)), Not(And(-L <= i, i < 0)))
        k = ite(i < 0, i + L, i)
        return And(p.value[0] == k, p.value[1] == k + 1, p.value[2] == 1, Or(inside, i < -L))
    add(chk, fn, fn, paths, pre, post_int)
    # result inside the parent whenever it returns (no coordinates outside the parent)
    paths2 = engine().run(lambda e: e.call("_norm_slice[int]", dict(index=i, length=L)), pre + [i >= -L])

    def post_int_inside(p):
        if p.outcome == "raise":
            return True
        return And(0 <= p.value[0], p.value[1] <= L)
    add(chk, fn + "/inside-parent(i>=-L)", fn, paths2, pre + [i >= -L], post_int_inside)

    # ---- _norm_slice (slice): == python's clamping for step 1, in [0, L]
    fn = "core.location._norm_slice[slice]"
    a, b = z3.Ints("a b")
    for an, bn in itertools.product((True, False), repeat=2):
        av, bv = (None if an else a), (None if bn else b)
        pre = [L >= 0]
        paths = engine().run(lambda e: e.call("_norm_slice[slice]", dict(index=SliceV(av, bv, None), length=L)), pre)

        def post_sl(p, av=av, bv=bv):
            if p.outcome != "return":
                return False
            sa, sb = S.py_slice_indices(av, bv, 1, L)
            return And(p.value[0] == sa, p.value[1] == sb, p.value[2] is None)
        add(chk, f"{fn}/cfg=({'·' if an else 'a'},{'·' if bn else 'b'})", fn, paths, pre, post_sl, _rep_norm_slice(an, bn))

    # ---- span_and_span
    fn = "core.location.span_and_span"
    a1, a2, b1, b2 = z3.Ints("a1 a2 b1 b2")
    pre = []
    paths = engine().run(lambda e: e.call("span_and_span", dict(spans1=(a1, a2), spans2=(b1, b2))), pre)

    def post_sas(p):
        bad = Or(a1 >= a2, b1 >= b2)
        if p.outcome == "raise":
            return And(p.value == "ValueError", bad)
        lo, hi = imax(a1, b1), imin(a2, b2)
        if p.value[0] is None:
            return And(Not(bad), p.value[1] is None, lo >= hi)
        return And(Not(bad), lo < hi, p.value[0] == lo, p.value[1] == hi)
    add(chk, fn, fn, paths, [a1 < a2, b1 < b2], post_sas, _rep_sas)

    # ---- Span.__getitem__(slice)
    fn = "core.location.Span.__getitem__"
    for rev in (False, True):
        for an, bn in itertools.product((True, False), repeat=2):
            sp, pre = sym_span(reverse=rev)
            av, bv = (None if an else a), (None if bn else b)
            Ls = sp.fields["length"]
            lo, hi = S.py_slice_indices(av, bv, 1, Ls)
            pre = pre + [lo <= hi]   # requires: normalised slice not inverted (as_map maps an inverted slice to no span)
            paths = engine().run(lambda e: hooks.call_method(e, sp, "__getitem__", [SliceV(av, bv, None)], {}, None), pre)

            def post_gi(p, sp=sp, lo=lo, hi=hi, rev=rev):
                if p.outcome != "return" or not isinstance(p.value, Rec):
                    return False
                s0, e0 = sp.fields["start"], sp.fields["end"]
                rs, re_, rr = span_fields(p.value)
                want = (e0 - hi, e0 - lo) if rev else (s0 + lo, s0 + hi)
                return And(rs == want[0], re_ == want[1], rr is rev or rr == rev, s0 <= rs, re_ <= e0,
                           p.value.fields["length"] == hi - lo,
                           p.value.fields["tidy_start"] == And(sp.fields["tidy_start"], lo == 0),
                           p.value.fields["tidy_end"] == And(sp.fields["tidy_end"], hi == Ls))
            add(chk, f"{fn}/cfg=({'rev' if rev else 'fwd'},{'·' if an else 'a'},{'·' if bn else 'b'})", fn, paths, pre,
                post_gi, _rep_span_getitem(rev, an, bn))

    # ---- Span.__mul__, __truediv__ (inverse on multiples), reversed_relative_to (involution, inside parent)
    fn = "core.location.Span.__mul__"
    k = z3.Int("k")
    sp, pre = sym_span()
    pre = pre + [k > 0]
    paths = engine().run(lambda e: hooks.call_method(e, sp, "__mul__", [k], {}, None), pre)

    def post_mul(p, sp=sp):
        if p.outcome != "return":
            return False
        rs, re_, rr = span_fields(p.value)
        return And(rs == sp.fields["start"] * k, re_ == sp.fields["end"] * k, rr == sp.fields["reverse"], rs <= re_)
    add(chk, fn, fn, paths, pre, post_mul)

    fn = "core.location.Span.__truediv__"
    sp, pre = sym_span()
    q1, q2 = z3.Ints("q1 q2")
    pre = pre + [k > 0, sp.fields["start"] == q1 * k, sp.fields["end"] == q2 * k]
    paths = engine().run(lambda e: hooks.call_method(e, sp, "__truediv__", [k], {}, None), pre)

    def post_div(p, sp=sp):
        if p.outcome != "return":
            return False
        rs, re_, rr = span_fields(p.value)
        return And(rs == q1, re_ == q2, rr == sp.fields["reverse"])
    add(chk, fn + "/inverse-of-mul", fn, paths, pre, post_div, timeout=30)

    fn = "core.location.Span.reversed_relative_to"
    sp, pre = sym_span()
    pre = pre + [sp.fields["end"] <= L]
    paths = engine().run(lambda e: hooks.call_method(e, sp, "reversed_relative_to", [L], {}, None), pre)

    def post_rrt(p, sp=sp):
        if p.outcome != "return":
            return False
        rs, re_, rr = span_fields(p.value)
        s0, e0 = sp.fields["start"], sp.fields["end"]
        return And(rs == L - e0, re_ == L - s0, rr == Not(sp.fields["reverse"]), 0 <= rs, re_ <= L,
                   L - re_ == s0, L - rs == e0)   # applying it twice restores start/end (involution)
    add(chk, fn, fn, paths, pre, post_rrt, _rep_rrt)

    # ---- Span.__contains__ / overlaps against the set-theoretic meaning (non-empty spans)
    fn = "core.location.Span.overlaps"
    sp, pre = sym_span()
    o1, o2 = z3.Ints("ostart oend")
    other = Rec("Span", start=o1, end=o2, reverse=False, tidy_start=False, tidy_end=False, value=None, length=o2 - o1)
    pre = pre + [0 <= o1, o1 < o2, sp.fields["start"] < sp.fields["end"]]
    paths = engine().run(lambda e: hooks.call_method(e, sp, "overlaps", [other], {}, None), pre)

    def post_ov(p, sp=sp):
        if p.outcome != "return":
            return False
        meaning = imax(sp.fields["start"], o1) < imin(sp.fields["end"], o2)
        v = p.value
        v = v if is_sym(v) else z3.BoolVal(bool(v))
        return v == meaning
    add(chk, fn, fn, paths, pre, post_ov)

    fn = "core.location.Span.__contains__"
    paths = engine().run(lambda e: hooks.call_method(e, sp, "__contains__", [other], {}, None), pre)

    def post_ct(p, sp=sp):
        if p.outcome != "return":
            return False
        v = p.value
        v = v if is_sym(v) else z3.BoolVal(bool(v))
        return v == And(sp.fields["start"] <= o1, o2 <= sp.fields["end"])
    add(chk, fn, fn, paths, pre, post_ct)


# ------------------------------------------------------------------------------------------------ replayers
def _rep_norm_index(inone):
    def rep(m):
        from cogent3.core.location import _norm_index
        L, i, d = m.get("L", 0), (None if inone else m.get("i", 0)), m.get("dflt", 0)
        got = _norm_index(i, L, d)
        want = d if i is None else list(range(L))[i:] and (slice(i, None).indices(L)[0]) or slice(i, None).indices(L)[0]
        return {"failed": got != want, "description": f"_norm_index({i},{L},{d}) -> {got}, python slice normalisation gives {want}"}
    return rep


def _rep_norm_slice(an, bn):
    def rep(m):
        from cogent3.core.location import _norm_slice
        L = m.get("L", 0)
        a = None if an else m.get("a", 0)
        b = None if bn else m.get("b", 0)
        got = _norm_slice(slice(a, b), L)
        want = slice(a, b).indices(L)[:2]
        return {"failed": tuple(got[:2]) != tuple(want), "description": f"_norm_slice(slice({a},{b}),{L}) -> {got}; python gives {want}"}
    return rep


def _rep_sas(m):
    from cogent3.core.location import span_and_span
    a1, a2, b1, b2 = (m.get(k, 0) for k in ("a1", "a2", "b1", "b2"))
    try:
        got = tuple(span_and_span((a1, a2), (b1, b2)))
    except ValueError:
        got = "ValueError"
    lo, hi = max(a1, b1), min(a2, b2)
    want = "ValueError" if (a1 >= a2 or b1 >= b2) else ((lo, hi) if lo < hi else (None, None))
    return {"failed": got != want, "description": f"span_and_span(({a1},{a2}),({b1},{b2})) -> {got}; intersection is {want}"}


def _rep_span_getitem(rev, an, bn):
    def rep(m):
        from cogent3.core.location import Span
        s, e = m.get("sstart", 0), m.get("send", 0)
        a = None if an else m.get("a", 0)
        b = None if bn else m.get("b", 0)
        sp = Span(s, e, reverse=rev)
        idx = list(range(s, e))
        if rev:
            idx = idx[::-1]
        want = idx[a:b]
        try:
            r = sp[a:b]
            got = list(r)
        except Exception as ex:
            return {"failed": True, "description": f"Span({s},{e},reverse={rev})[{a}:{b}] raised {type(ex).__name__}"}
        return {"failed": got != want, "description": f"Span({s},{e},reverse={rev})[{a}:{b}] covers {got}; positions {want} expected"}
    return rep


def _rep_rrt(m):
    from cogent3.core.location import Span
    s, e, L = m.get("sstart", 0), m.get("send", 0), m.get("L", 0)
    r = Span(s, e).reversed_relative_to(L)
    ok = (r.start, r.end) == (L - e, L - s) and 0 <= r.start and r.end <= L
    return {"failed": not ok, "description": f"Span({s},{e}).reversed_relative_to({L}) -> ({r.start},{r.end})"}


def run(chk):
    for q in ("_norm_index", "span_and_span", "_norm_slice", "Span.__getitem__", "Span.__mul__", "Span.__truediv__",
              "Span.reversed_relative_to", "Span.__contains__", "Span.overlaps", "Span.__init__", "Span._new_init"):
        chk.function(FILE, q, "P")
    chk.functions.append(extract.describe_node(FILE, extract.get_dispatch(FILE, "_norm_slice", "slice"),
                                               "_norm_slice.register(slice)", "P"))
    only = getattr(chk, "only", None)
    if not only or "proof" in only:
        chk.guard(run_proof)
        chk.discharge()
    chk.assume("numpy int32 gap coordinates (IndelMap) are below 2**31; Python ints are mathematical")
    if (not only or "bounded" in only) and os.path.exists(os.path.join(os.path.dirname(__file__), "..", "bounded", "C08.py")):
        chk.bounded("bounded.C08")
    chk.level = "other"
    chk.explanation = ("scalar span/slice arithmetic proved for all integers (smt); IndelMap/FeatureMap array operations "
                       "checked by bounded run-time contracts against the gapped-string model")
