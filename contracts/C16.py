"""C16 -- nested-model initialisation and optimisation never lose likelihood.

Proof tier (ghost history, reals): ``maths.optimisers.limited_use`` -- for an arbitrary state satisfying the
invariant  best_fval = max({-inf} U values seen), evals = number of evaluations, one more call of the wrapped
function re-establishes it (induction over any call sequence an optimiser may make); ``get_best`` returns that
pair; ``bounded_function`` calls f only inside the bounds; ``bounds_exception_catching_function`` maps
out-of-bounds / arithmetic errors to -inf; ``maximise`` returns get_best()'s x on every path (incl. exceptions
from the optimisers) and its value is >= f(xinit); ``ParameterController.optimise`` updates from the
calculator on every path.  Floats are modelled as extended reals (NaN excluded by precondition).
Bounded tier: bounded/C16.py (nested initialisation equality, monotone optimise on real models).
"""
from __future__ import annotations

import os

import z3

from pyvc import extract
from pyvc.harness import cover_thunk, smt_thunk
from pyvc.objects import ClassHooks
from pyvc.symex import Engine, Opaque, Raise, Rec, Unsupported, fresh_bool, fresh_real, is_sym

OPT = "cogent3/maths/optimisers.py"
SCOPE = "cogent3/recalculation/scope.py"
INF = z3.Real("INF")
BASE = [INF > 0]


class OptHooks(ClassHooks):
    """f is an opaque function: each call returns a fresh extended real (or raises, when scripted)"""

    def __init__(self, funcs, f_raises=()):
        super().__init__(funcs, set(), globals_={"numpy": Opaque("module", modname="numpy"),
                                                 "warnings": Opaque("module", modname="warnings")})
        self.f_raises = tuple(f_raises)

    def get_attr(self, eng, obj, attr):
        if isinstance(obj, Opaque) and obj.tag == "module" and obj.attrs.get("modname") == "numpy":
            if attr == "inf":
                return INF
            return ("npfunc", attr)
        if isinstance(obj, Raise) and attr == "args":
            return (Opaque("detail"),)
        return super().get_attr(eng, obj, attr)

    def call_value(self, eng, fn, args, kw, env):
        if isinstance(fn, Opaque) and fn.tag == "fn":
            return self.call_f(eng, fn, args)
        if isinstance(fn, tuple) and fn and fn[0] == "npfunc":
            return self.numpy(eng, fn[1], args, kw)
        return super().call_value(eng, fn, args, kw, env)

    def call_f(self, eng, fn, args):
        x = args[0]
        outs = ["value"] + list(self.f_raises)
        i = eng.choose(len(outs), "f") if len(outs) > 1 else 0
        if outs[i] != "value":
            eng.state.setdefault("H", []).append((x, outs[i]))
            raise Raise(outs[i])
        v = fresh_real("fval")
        eng.assume(z3.And(-INF <= v, v <= INF))
        eng.state.setdefault("H", []).append((x, v))
        return v

    def call_method(self, eng, obj, meth, args, kw, env):
        if isinstance(obj, Opaque) and obj.tag == "vec" and meth == "copy":
            return Opaque("vec", copy_of=obj.attrs.get("copy_of", obj))
        if isinstance(obj, Opaque) and obj.tag == "module" and obj.attrs.get("modname") == "numpy":
            return self.numpy(eng, meth, args, kw)
        if isinstance(obj, Opaque) and obj.tag == "module" and obj.attrs.get("modname") == "warnings":
            return None
        return super().call_method(eng, obj, meth, args, kw, env)

    def numpy(self, eng, name, args, kw):
        if name == "isfinite":
            v = args[0]
            return z3.And(-INF < v, v < INF)
        if name == "isneginf":
            return args[0] == -INF
        if name in ("logical_and", "logical_or"):
            return ("npbool", name, args)
        if name == "all":
            # numpy.all(logical_and(lower <= x, x <= upper)): "x within bounds", an uninterpreted fact about x
            a = args[0]
            x = eng.state.get("current_x")
            b = eng.state.setdefault("inb", {})
            k = id(x)
            if k not in b:
                b[k] = fresh_bool("within_bounds")
            return b[k]
        if name == "array":
            return args[0]
        raise Unsupported(f"numpy.{name}")

    def cmp_vec(self):
        return Opaque("npcmp")


def _patch_cmp(eng):
    """lower <= x on opaque vectors yields an opaque elementwise result"""
    orig = eng.cmp

    def cmp(op, l, r):
        if isinstance(l, Opaque) and l.tag in ("vec", "bound") or isinstance(r, Opaque) and r.tag in ("vec", "bound"):
            return Opaque("npcmp")
        return orig(op, l, r)
    eng.cmp = cmp


def load():
    return {n: extract.get(OPT, n) for n in ("limited_use", "bounded_function", "bounds_exception_catching_function")}


def closure_env(fn):
    return fn[2]


def cell_get(env, name):
    """the closure's counter: a one-element list (current code) or a ``nonlocal`` scalar -- both are the same state"""
    v = env[name]
    return v[0] if isinstance(v, list) else v


def cell_set(env, name, val):
    if isinstance(env[name], list):
        env[name][0] = val
    else:
        env[name] = val


# ------------------------------------------------------------------------------------------------ limited_use
def run_limited_use(chk):
    funcs = load()
    fn = "maths.optimisers.limited_use"
    e0 = z3.Int("evals0")
    b0 = z3.Real("best0")
    for maxev_kind in ("None", "int"):
        for raises in ((), ("ArithmeticError",)):
            hooks = OptHooks(funcs, f_raises=raises)
            eng = Engine(funcs, hooks)
            mx = None if maxev_kind == "None" else z3.Int("maxev")
            # numpy.inf exceeds every finite count: evals0 < INF
            pre = BASE + [e0 >= 0, e0 < INF, -INF <= b0, b0 <= INF] + ([mx >= 0] if mx is not None else [])
            f = Opaque("fn")
            x = Opaque("vec")
            bx0 = Opaque("vec", name="best_x0")

            def entry(e):
                get_best, wrapped = e.call("limited_use", dict(f=f, max_evaluations=mx))
                env = closure_env(wrapped)
                # arbitrary state satisfying the invariant (ghost: best0 = max of the values seen so far)
                cell_set(env, "evals", e0)
                cell_set(env, "best_fval", b0)
                cell_set(env, "best_x", bx0)
                e.state["env"] = env
                try:
                    r = e.call_value(wrapped, [x], {}, {})
                    e.state["step"] = ("return", r)
                except Raise as ex:
                    e.state["step"] = ("raise", ex.kind)
                e.state["after"] = (cell_get(env, "evals"), cell_get(env, "best_fval"), cell_get(env, "best_x"))
                e.state["H1"] = list(e.state.get("H", []))
                # then get_best()
                gb = e.call_value(get_best, [], {}, {})
                return gb
            try:
                paths = eng.run(entry, pre)
            except Unsupported as u:
                chk.undecided.append(f"{fn}: UNSUPPORTED {u}")
                continue
            base = f"{fn}/cfg=(max_evaluations={maxev_kind},f_raises={list(raises)})"
            chk.obligation(f"{base}/cover", "cover", cover_thunk(pre), function=fn)
            for k, p in enumerate(paths):
                if p.outcome == "abort":
                    continue
                st = p.state
                kind, val = st["step"]
                ev1, b1, bx1 = st["after"]
                H1 = st["H1"]
                limit = (e0 >= mx) if mx is not None else z3.BoolVal(False)
                if kind == "raise" and val == "MaximumEvaluationsReached":
                    goal = z3.And(limit, ev1 == e0, b1 == b0, z3.BoolVal(bx1 is bx0), z3.BoolVal(len(H1) == 0))
                elif kind == "raise":
                    # f itself raised: the evaluation is counted, the best pair is untouched
                    goal = z3.And(z3.Not(limit), ev1 == e0 + 1, b1 == b0, z3.BoolVal(bx1 is bx0), z3.BoolVal(len(H1) == 1))
                else:
                    v = H1[0][1]
                    improved = v > b0
                    same_x = z3.BoolVal(isinstance(bx1, Opaque) and bx1.attrs.get("copy_of") is x)
                    goal = z3.And(z3.Not(limit), z3.BoolVal(len(H1) == 1 and H1[0][0] is x), val == v, ev1 == e0 + 1,
                                  b1 == z3.If(v >= b0, v, b0), b1 >= b0,
                                  z3.If(improved, same_x, z3.BoolVal(bx1 is bx0)))
                chk.obligation(f"{base}/inv.preserve(wrapped_f)/path={k}", "inv.preserve", smt_thunk(p.pc, goal, 20),
                               function=fn, replayer=_replay_limited, key=f"C16/{fn}/inv.preserve")
                # get_best: re-evaluates f(best_x) and returns the (best_fval, best_x, evals) triple
                if p.outcome == "return":
                    g = p.value
                    Hall = st.get("H", [])
                    reeval = len(Hall) == len(H1) + 1 and Hall[-1][0] is bx1
                    goal2 = z3.And(z3.BoolVal(isinstance(g, tuple) and len(g) == 3 and reeval), g[0] == b1,
                                   z3.BoolVal(g[1] is bx1), g[2] == ev1) if isinstance(g, tuple) and len(g) == 3 else z3.BoolVal(False)
                elif p.outcome == "raise" and raises and p.value in raises:
                    goal2 = z3.BoolVal(True)   # f(best_x) itself raised inside get_best: propagates (allowed)
                else:
                    goal2 = z3.BoolVal(False)
                chk.obligation(f"{base}/post(get_best)/path={k}", "post", smt_thunk(p.pc, goal2, 20), function=fn,
                               replayer=_replay_limited, key=f"C16/{fn}/post.get_best")
    # establishment: a fresh limited_use starts in the invariant state (0 evaluations, best = -inf)
    hooks = OptHooks(funcs)
    eng = Engine(funcs, hooks)

    def entry0(e):
        get_best, wrapped = e.call("limited_use", dict(f=Opaque("fn"), max_evaluations=None))
        env = closure_env(wrapped)
        return (cell_get(env, "evals"), cell_get(env, "best_fval"), cell_get(env, "best_x"))
    for k, p in enumerate(eng.run(entry0, BASE)):
        ev, b, bx = p.value
        goal = z3.And(z3.BoolVal(ev == 0 if not is_sym(ev) else False) if not is_sym(ev) else ev == 0, b == -INF, z3.BoolVal(bx is None))
        chk.obligation(f"{fn}/inv.establish/path={k}", "inv.establish", smt_thunk(p.pc, goal, 20), function=fn,
                       key=f"C16/{fn}/inv.establish")


def _replay_limited(model):
    """native: drive the real limited_use with a scripted f and compare with a max-so-far oracle"""
    import numpy
    from cogent3.maths.optimisers import MaximumEvaluationsReached, limited_use
    import itertools
    vals_set = [-numpy.inf, -1.0, 0.0, 2.5]
    for maxev in (None, 0, 1, 2, 3):
        for seq in itertools.product(vals_set, repeat=3):
            it = iter(seq + (0.0,) * 3)
            seen = []

            def f(x):
                v = next(it)
                seen.append((None if x is None else x.copy(), v))
                return v
            get_best, w = limited_use(f, maxev)
            best, bestx, n = -numpy.inf, None, 0
            ok = True
            for i in range(3):
                x = numpy.array([float(i)])
                try:
                    r = w(x)
                    n += 1
                    if r > best:
                        best, bestx = r, x.copy()
                    x += 1000.0     # an optimiser may go on perturbing its state vector in place
                    ok = ok and (maxev is None or n <= maxev)
                except MaximumEvaluationsReached:
                    ok = ok and maxev is not None and n >= maxev
            if bestx is not None:
                try:
                    gb = get_best()
                    ok = ok and gb[0] == best and numpy.array_equal(gb[1], bestx) and gb[2] == n
                except Exception:
                    ok = False
            if not ok:
                return {"failed": True, "witness": {"max_evaluations": maxev, "values": list(seq)},
                        "description": f"limited_use(f, {maxev}) with f values {seq}: best/evals disagree with max-so-far oracle"}
    return {"failed": False, "description": "scripted-f enumeration (3 calls x 4 values x 5 limits) agrees with the oracle"}


# ------------------------------------------------------------------------------------------------ wrappers
def run_wrappers(chk):
    funcs = load()
    # bounded_function: f is called iff x is within bounds, else ParameterOutOfBoundsError
    fn = "maths.optimisers.bounded_function"
    hooks = OptHooks(funcs)
    eng = Engine(funcs, hooks)
    _patch_cmp(eng)
    x = Opaque("vec")

    def entry(e):
        w = e.call("bounded_function", dict(f=Opaque("fn"), lower_bounds=Opaque("bound"), upper_bounds=Opaque("bound")))
        e.state["current_x"] = x
        try:
            return e.call_value(w, [x], {}, {})
        finally:
            pass
    paths = eng.run(entry, BASE)
    for k, p in enumerate(paths):
        inb = list(p.state.get("inb", {}).values())
        H = p.state.get("H", [])
        if p.outcome == "return":
            goal = z3.And(z3.BoolVal(len(H) == 1 and H[0][0] is x and len(inb) == 1), inb[0] if inb else z3.BoolVal(False),
                          p.value == H[0][1] if H else z3.BoolVal(False))
        elif p.outcome == "raise" and p.value == "ParameterOutOfBoundsError":
            goal = z3.And(z3.BoolVal(len(H) == 0 and len(inb) == 1), z3.Not(inb[0]) if inb else z3.BoolVal(False))
        else:
            goal = z3.BoolVal(False)
        chk.obligation(f"{fn}/post/path={k}", "post", smt_thunk(p.pc, goal, 20), function=fn, key=f"C16/{fn}/post")
    if not paths:
        chk.error(f"{fn}: no paths")
    # bounds_exception_catching_function: -inf on ArithmeticError / ParameterOutOfBoundsError / non-finite (except -inf)
    fn = "maths.optimisers.bounds_exception_catching_function"
    for raises in ((), ("ArithmeticError", "ParameterOutOfBoundsError", "ZeroDivisionError", "FloatingPointError", "ValueError")):
        hooks = OptHooks(funcs, f_raises=raises)
        eng = Engine(funcs, hooks)

        def entry2(e):
            w = e.call("bounds_exception_catching_function", dict(f=Opaque("fn")))
            return e.call_value(w, [x], {}, {})
        paths = eng.run(entry2, BASE)
        for k, p in enumerate(paths):
            H = p.state.get("H", [])
            out = H[0][1] if H else None
            if isinstance(out, str):
                if out in ("ArithmeticError", "ParameterOutOfBoundsError", "ZeroDivisionError", "FloatingPointError"):
                    goal = z3.And(z3.BoolVal(p.outcome == "return"), p.value == -INF) if p.outcome == "return" else z3.BoolVal(False)
                else:   # any other exception propagates unchanged
                    goal = z3.BoolVal(p.outcome == "raise" and p.value == out)
            elif p.outcome == "return":
                v = out
                finite = z3.And(-INF < v, v < INF)
                goal = z3.And(p.value == z3.If(z3.Or(finite, v == -INF), v, -INF))
            else:
                goal = z3.BoolVal(False)
            chk.obligation(f"{fn}/cfg=(f_raises={bool(raises)})/post/path={k}", "post", smt_thunk(p.pc, goal, 20), function=fn,
                           key=f"C16/{fn}/post")


# ------------------------------------------------------------------------------------------------ maximise
class MaxHooks(OptHooks):
    """maximise(): limited_use is used through the contract proved above (ghost state best/evals); the global and
    local optimisers are arbitrary callers of f (havoc by the proved monotone invariant) with exceptional outcomes"""

    def __init__(self, funcs, opt_outcomes):
        super().__init__(funcs)
        self.opt_outcomes = opt_outcomes
        self.globals.update({"GlobalOptimiser": ("func", "GlobalOptimiser"), "LocalOptimiser": ("func", "LocalOptimiser"),
                             "warnings": Opaque("module", modname="warnings")})

    def call_name(self, eng, name, args, kw, env):
        if name == "limited_use":
            st = eng.state
            st["best"], st["evals"], st["best_x"], st["first"] = -INF, 0, None, None
            st["get_best_calls"] = 0
            return (Opaque("get_best"), Opaque("wrapped_f"))
        if name == "unsteadyProgressIndicator":
            return Opaque("callback")
        if name in ("GlobalOptimiser", "LocalOptimiser"):
            return Opaque("optimiser", kind=name)
        return super().call_name(eng, name, args, kw, env)

    def call_value(self, eng, fn, args, kw, env):
        st = eng.state
        if isinstance(fn, Opaque) and fn.tag == "wrapped_f":
            return self.wrapped(eng, args[0])
        if isinstance(fn, Opaque) and fn.tag == "get_best":
            st["get_best_calls"] += 1
            return (st["best"], st["best_x"], st["evals"])
        if isinstance(fn, tuple) and fn and fn[0] == "func" and fn[1] in ("GlobalOptimiser", "LocalOptimiser"):
            return Opaque("optimiser", kind=fn[1])
        return super().call_value(eng, fn, args, kw, env)

    def wrapped(self, eng, x):
        """contract of limited_use's wrapped_f (proved in run_limited_use)"""
        st = eng.state
        i = eng.choose(3, "wrapped_f")
        if i == 1:
            raise Raise("MaximumEvaluationsReached")
        st["evals"] = st["evals"] + 1
        if i == 2:
            raise Raise("ArithmeticError")
        v = fresh_real("fval")
        eng.assume(z3.And(-INF <= v, v <= INF))
        if st["first"] is None:
            st["first"] = v
        improved = v > st["best"]
        # best_x' is a copy of x when improved: tracked as an opaque "best point" carrying its value
        st["best_x"] = Opaque("vec", best_of=(st["best_x"], x, improved))
        st["best"] = z3.If(improved, v, st["best"])
        return v

    def call_method(self, eng, obj, meth, args, kw, env):
        st = eng.state
        if isinstance(obj, Opaque) and obj.tag == "optimiser" and meth == "maximise":
            # an arbitrary caller of f: by the proved invariant the best value can only grow
            i = eng.choose(len(self.opt_outcomes), obj.attrs["kind"])
            o = self.opt_outcomes[i]
            eng.trace.append((obj.attrs["kind"], o))
            b2 = fresh_real("best_after_opt")
            eng.assume(z3.And(b2 >= st["best"], b2 <= INF))
            st["best"] = b2
            st["best_x"] = Opaque("vec", found_by=obj.attrs["kind"])
            if o != "ok":
                raise Raise(o)
            return Opaque("vec", returned_by=obj.attrs["kind"])
        if isinstance(obj, Opaque) and obj.tag == "module" and obj.attrs.get("modname") == "numpy":
            if meth == "array":
                return Opaque("vec", of=args[0])
            if meth in ("atleast_1d", "squeeze"):
                return args[0]
        return super().call_method(eng, obj, meth, args, kw, env)

    def numpy(self, eng, name, args, kw):
        if name == "array":
            return Opaque("vec", of=args[0])
        if name in ("atleast_1d", "squeeze"):
            return args[0]
        return super().numpy(eng, name, args, kw)

    def get_attr(self, eng, obj, attr):
        if isinstance(obj, Opaque) and obj.tag == "vec" and attr == "shape":
            return (Opaque("dim"),)
        if isinstance(obj, Opaque) and obj.tag == "ui" and attr == "display":
            return Opaque("display")
        return super().get_attr(eng, obj, attr)


def run_maximise(chk):
    fn = "maths.optimisers.maximise"
    funcs = {"maximise": extract.get(OPT, "maximise"), "bounded_function": extract.get(OPT, "bounded_function"),
             "bounds_exception_catching_function": extract.get(OPT, "bounds_exception_catching_function")}
    outs = ["ok", "MaximumEvaluationsReached", "RuntimeError", "KeyboardInterrupt"]
    n = 0
    for local in (None, True, False):
        for bounds in (None, "given"):
            hooks = MaxHooks(funcs, outs)
            eng = Engine(funcs, hooks, max_paths=4000)
            _patch_cmp(eng)

            def entry(e):
                e.state["current_x"] = None
                b = None if bounds is None else (Opaque("bound"), Opaque("bound"))
                return e.call("maximise", dict(f=Opaque("fn"), xinit=Opaque("xinit"), bounds=b, local=local, filename=None,
                                               interval=None, max_restarts=None, max_evaluations=None, tolerance=1e-6,
                                               global_tolerance=1e-1, ui=Opaque("ui"), return_eval_count=False, warn=False, kw={}))
            try:
                paths = eng.run(entry, BASE)
            except Unsupported as u:
                chk.undecided.append(f"{fn}/cfg=(local={local},bounds={bounds}): UNSUPPORTED {u}")
                continue
            base = f"{fn}/cfg=(local={local},bounds={bounds})"
            for k, p in enumerate(paths):
                if p.outcome == "abort":
                    continue
                n += 1
                st = p.state
                first = st.get("first")
                started = first is not None
                if p.outcome == "return":
                    # the returned vector is get_best()'s best_x and its value is >= f(xinit)
                    goal = z3.And(z3.BoolVal(p.value is st["best_x"] and st["get_best_calls"] == 1),
                                  st["best"] >= first if started else z3.BoolVal(False))
                    kind = "post.returns-get_best-and-never-below-start"
                elif p.value == "ValueError":
                    # only for an invalid / non-finite start (before any optimiser ran)
                    goal = z3.BoolVal(st["get_best_calls"] == 0 and not any(t[0] in ("GlobalOptimiser", "LocalOptimiser") for t in p.trace))
                    kind = "post.ValueError-only-for-invalid-start"
                else:
                    # an exception out of an optimiser (evaluation limit, interrupt, ...): get_best() still ran (finally),
                    # so the calculator holds the best point found so far
                    goal = z3.BoolVal(st["get_best_calls"] == 1)
                    kind = "frame.get_best-runs-in-finally"
                chk.obligation(f"{base}/{kind}/path={k}", kind.split(".")[0], smt_thunk(p.pc, goal, 20), function=fn,
                               key=f"C16/{fn}/{kind}", replayer=_replay_maximise)
    if n == 0:
        chk.error(f"{fn}: no paths")


def _replay_maximise(model):
    """native: maximise on scripted functions never returns a point worse than the start, under evaluation limits"""
    import numpy
    from cogent3.maths.optimisers import MaximumEvaluationsReached, maximise
    for maxev in (None, 1, 3, 10):
        for local in (True, None):
            def f(x):
                x = numpy.atleast_1d(x)
                return float(-((x - 0.3) ** 2).sum())
            x0 = numpy.array([0.9, 0.1])
            try:
                x = maximise(f, x0, bounds=(numpy.zeros(2), numpy.ones(2)), local=local, max_evaluations=maxev,
                             show_progress=False, tolerance=1e-4, max_restarts=1)
            except MaximumEvaluationsReached:
                continue
            if f(x) < f(x0) - 1e-12:
                return {"failed": True, "witness": {"max_evaluations": maxev, "local": local},
                        "description": f"maximise(max_evaluations={maxev}, local={local}) returned a point with f={f(x)} below the start f={f(x0)}"}
    return {"failed": False, "description": "scripted quadratic: returned point never below the start for limits None/1/3/10"}


# ------------------------------------------------------------------------------------------------ ParameterController.optimise
class PCHooks(ClassHooks):
    def __init__(self, funcs, lc_outcomes):
        super().__init__(funcs, set(), globals_={"warnings": Opaque("module", modname="warnings")})
        self.lc_outcomes = lc_outcomes

    def call_method(self, eng, obj, meth, args, kw, env):
        if isinstance(obj, Rec) and meth == "make_calculator":
            eng.trace.append(("make_calculator",))
            return Opaque("calculator")
        if isinstance(obj, Rec) and meth == "update_from_calculator":
            eng.trace.append(("update_from_calculator", args[0]))
            return None
        if isinstance(obj, Opaque) and obj.tag == "calculator" and meth == "optimise":
            i = eng.choose(len(self.lc_outcomes), "lc.optimise")
            o = self.lc_outcomes[i]
            eng.trace.append(("lc.optimise", o))
            if o != "ok":
                raise Raise(o)
            return None
        if isinstance(obj, Opaque) and obj.tag == "module":
            return None
        return super().call_method(eng, obj, meth, args, kw, env)

    def call_name(self, eng, name, args, kw, env):
        if name == "locals":
            return dict(env)
        return super().call_name(eng, name, args, kw, env)

    def get_attr(self, eng, obj, attr):
        if isinstance(obj, Raise) and attr == "args":
            return (Opaque("evals"),)
        return super().get_attr(eng, obj, attr)


def run_pc_optimise(chk):
    fn = "recalculation.scope.ParameterController.optimise"
    funcs = {"optimise": extract.get(SCOPE, "ParameterController.optimise")}
    outs = ["ok", "MaximumEvaluationsReached", "ArithmeticError", "ValueError", "KeyboardInterrupt"]
    agg = {"frame: update_from_calculator(lc) runs exactly once on every path, after lc.optimise": {"n": 0, "bad": []},
           "post: MaximumEvaluationsReached is absorbed for limit_action ignore/warn and becomes ArithmeticError otherwise": {"n": 0, "bad": []}}
    for limit_action in ("ignore", "warn", "raise"):
        hooks = PCHooks(funcs, outs)
        eng = Engine(funcs, hooks)
        selfv = Rec("ParameterController")

        def entry(e):
            return e.call("optimise", dict(self=selfv, limit_action=limit_action, kw={}))
        try:
            paths = eng.run(entry, [])
        except Unsupported as u:
            chk.undecided.append(f"{fn}: UNSUPPORTED {u}")
            return
        for p in paths:
            tr = p.trace
            upd = [i for i, t in enumerate(tr) if t[0] == "update_from_calculator"]
            opt = [i for i, t in enumerate(tr) if t[0] == "lc.optimise"]
            info = f"limit_action={limit_action}; trace={[t[:2] if len(t) > 1 and isinstance(t[1], str) else t[:1] for t in tr]}; outcome={p.outcome}:{p.value}"
            a = agg["frame: update_from_calculator(lc) runs exactly once on every path, after lc.optimise"]
            a["n"] += 1
            if not (len(upd) == 1 and len(opt) == 1 and upd[0] > opt[0] and isinstance(tr[upd[0]][1], Opaque) and tr[upd[0]][1].tag == "calculator"):
                a["bad"].append(info)
            o = tr[opt[0]][1] if opt else None
            if o == "MaximumEvaluationsReached":
                b = agg["post: MaximumEvaluationsReached is absorbed for limit_action ignore/warn and becomes ArithmeticError otherwise"]
                b["n"] += 1
                want = ("return", None) if limit_action in ("ignore", "warn") else ("raise", "ArithmeticError")
                if (p.outcome, p.value) != want:
                    b["bad"].append(info)
    for clause, a in agg.items():
        def thunk(a=a):
            if a["n"] == 0:
                return ("error", "pyvc", 0.0, None, "no paths")
            if a["bad"]:
                return ("refuted", "pyvc exception-flow enumeration", 0.0, {"info": a["bad"][0]},
                        f"{len(a['bad'])} of {a['n']} paths: {a['bad'][0]}")
            return ("proved", "pyvc exception-flow enumeration", 0.0, None, f"{a['n']} paths")
        chk.obligation(f"{fn}/{clause}", clause.split(":")[0], thunk, function=fn,
                       replayer=lambda m: {"failed": False, "description": m["info"]}, key=f"C16/{fn}/{clause[:40]}")


# ------------------------------------------------------------------------------------------------ projection between nested models
NUC_MODELS = ["JC69", "F81", "K80", "HKY85", "TN93", "GTR", "ssGN", "GN"]
# which supplied nucleotide model is a special case of which (my reading of the models, not of the code): a model with
# free motif probabilities is not a special case of the strand-symmetric ssGN, whose terms are not weighted by them
NESTED_IN = {"JC69": ["F81", "K80", "HKY85", "TN93", "GTR", "ssGN", "GN"], "K80": ["HKY85", "TN93", "GTR", "ssGN", "GN"],
             "F81": ["HKY85", "TN93", "GTR", "GN"], "HKY85": ["TN93", "GTR", "GN"], "TN93": ["GTR", "GN"], "GTR": ["GN"],
             "ssGN": ["GN"]}
EQUAL_FREQS = {"JC69", "K80"}          # motif probabilities fixed at 1/4


def _nested_pairs():
    """(simple, rich) pairs of supplied nucleotide models in which the rich model's parameters refine the simple model's:
    every cell set of a rich term (reference cells included) lies inside one cell set of the simple model"""
    from cogent3 import get_model
    ms = {n: get_model(n) for n in NUC_MODELS}
    co = {n: m.get_param_matrix_coords(include_ref_cell=True) for n, m in ms.items()}
    out = []
    for s_, richer in NESTED_IN.items():
        for r_ in richer:
            # the cell sets of the rich model must refine those of the simple one (else the table above is wrong)
            if all(any(rc <= sc for sc in co[s_].values()) for rc in co[r_].values()) and len(co[r_]) >= len(co[s_]):
                out.append((s_, r_))
            else:
                out.append((s_, r_, "not-a-refinement"))
    return ms, co, out


def _symbolic_Q(coords, values, pi, weighted):
    """off-diagonal rate of cell (i, j): product of the terms whose cell set holds (i, j), times pi_j for models whose
    exchangeabilities are weighted by the motif probabilities (my reading of calcQ; checked numerically by bounded/C05)"""
    Q = {}
    for i in range(4):
        for j in range(4):
            if i == j:
                continue
            v = pi[j] if weighted else z3.RealVal(1)
            for name, cells in coords.items():
                if name != "ref_cell" and (i, j) in cells:
                    v = v * values[name]
            Q[(i, j)] = v
    return Q


def run_projection(chk):
    """the real _ParamProjection.update_param_rules is run on z3 reals (operator overloading: the code that runs is the
    code proved) for every nested pair of supplied nucleotide models; postcondition: the rich model's rate matrix at the
    projected values is proportional to the simple model's at the nested values, for all positive parameter values and
    motif probabilities -- so after calibration the two processes, and their likelihoods, are equal"""
    from cogent3.evolve.likelihood_function import _ParamProjection, update_scoped_rules
    from cogent3.evolve.substitution_model import Stationary
    fn = "evolve.likelihood_function._ParamProjection.update_param_rules+update_scoped_rules"
    chk.function("cogent3/evolve/likelihood_function.py", "update_scoped_rules", "P")
    chk.function("cogent3/evolve/likelihood_function.py", "update_rule_value", "P")
    chk.function("cogent3/evolve/likelihood_function.py", "_ParamProjection.update_param_rules", "P")
    chk.function("cogent3/evolve/likelihood_function.py", "_get_param_mapping", "P")
    ms, co, pairs = _nested_pairs()
    if not pairs:
        chk.error(f"{fn}: no nested pair of models found")
        return
    pi = [z3.Real(f"pi{k}") for k in range(4)]
    for pr in pairs:
        if len(pr) == 3:
            chk.error(f"{fn}: {pr[0]} -> {pr[1]}: cell sets are not a refinement (spec table NESTED_IN disagrees with the models)")
            continue
        s_, r_ = pr
        sm, rm = ms[s_], ms[r_]
        same = isinstance(sm, Stationary) == isinstance(rm, Stationary)
        base = f"{fn}/cfg=({s_}->{r_})"
        vals = {p_: z3.Real(f"v_{p_}") for p_ in sm.get_param_list()}
        pre = [x > 0 for x in pi] + [v > 0 for v in vals.values()]
        if s_ in EQUAL_FREQS:
            pre += [x == z3.Q(1, 4) for x in pi]
        chk.obligation(f"{base}/cover", "cover", cover_thunk(pre), function=fn)
        for variant in ("free", "constant"):
            # the nested function's rules as get_param_rules() writes them: free terms carry init + bounds, terms held
            # constant carry value + is_constant; the rich function is new (every term free at its default 1.0)
            if variant == "free":
                rules = [dict(par_name=p_, init=v, lower=1e-6, upper=1e6) for p_, v in vals.items()]
            else:
                rules = [dict(par_name=p_, value=v, is_constant=True) for p_, v in vals.items()]
                if not rules:
                    continue
            my_rules = [dict(par_name=p_, init=1.0, lower=1e-6, upper=1e6) for p_ in rm.get_param_list()]
            try:
                proj = _ParamProjection(sm, rm, pi, same=same)
                out = proj.update_param_rules(rules)
                merged = update_scoped_rules(my_rules, out)
            except Exception as e:
                chk.undecided.append(f"{base}/{variant}: the real code cannot be evaluated on symbolic reals ({type(e).__name__}: {e})")
                continue
            rich_vals = {p_: z3.RealVal(1) for p_ in rm.get_param_list()}
            ok_names = True
            for o in merged:
                if o["par_name"] in rich_vals:
                    v = o["init"] if "init" in o else o.get("value")
                    rich_vals[o["par_name"]] = v if z3.is_expr(v) else z3.RealVal(v)
                else:
                    ok_names = False
            QS = _symbolic_Q(co[s_], vals, pi, isinstance(sm, Stationary))
            QR = _symbolic_Q(co[r_], rich_vals, pi, isinstance(rm, Stationary))
            cells = sorted(QS)
            ref = cells[0]
            goal = z3.And(z3.BoolVal(ok_names), *[QR[c] * QS[ref] == QR[ref] * QS[c] for c in cells])
            chk.obligation(f"{base}/post.rich-Q-proportional-to-nested-Q[{variant} nested terms]", "post",
                           smt_thunk(pre, goal, 60, logic="QF_NRA"), function=fn, key=f"C16/{fn}/post",
                           replayer=_replay_projection(s_, r_, variant == "constant"))


def _replay_projection(s_, r_, constant=False):
    def rep(model):
        """native: initialise_from_nested on a small alignment reproduces the nested lnL"""
        import warnings
        warnings.filterwarnings("ignore")
        from cogent3 import get_model, make_aligned_seqs, make_tree
        tree = make_tree("((a:0.1,b:0.2)n1:0.3,c:0.3,d:0.05);")
        aln = make_aligned_seqs({"a": "ACGTAAGCTAGCTTAGGCAT", "b": "ACGTTAGCTAGCATAGGCAT", "c": "ATGTGAGCCAGCTTAGACAT",
                                 "d": "CCGTAAGCTTGCTTCGGCAA"}, moltype="dna")
        null = get_model(s_).make_likelihood_function(tree)
        null.set_alignment(aln)
        for i, p_ in enumerate(get_model(s_).get_param_list()):
            v_ = (2.5, 0.4, 3.0, 0.7, 1.8)[i % 5]
            if constant:
                null.set_param_rule(p_, value=v_, is_constant=True)
            else:
                null.set_param_rule(p_, init=v_)
        alt = get_model(r_).make_likelihood_function(tree)
        alt.set_alignment(aln)
        try:
            alt.initialise_from_nested(null)
            a, b = float(null.lnL), float(alt.lnL)
        except Exception as e:
            return {"failed": True, "witness": f"{s_}->{r_}", "description": f"initialise_from_nested({s_} -> {r_}) raises {type(e).__name__}: {e}"}
        return {"failed": abs(a - b) > 1e-8 * max(1, abs(a)), "witness": f"{s_}->{r_}",
                "description": f"initialise_from_nested({s_} -> {r_}): nested lnL {a!r}, rich function starts at {b!r}"}
    return rep


DEFN = "cogent3/recalculation/definition.py"
CLOSE = z3.Function("ALLCLOSE", z3.RealSort(), z3.RealSort(), z3.BoolSort())


def _handover_frame_ok(node):
    """syntactic frame of the hand-over loop: ``for <a>, <b> in zip(<x>, self.uniq)`` whose body stores only to local
    names and to attributes of <b>, and has no break / continue / return -- then each (calculator value, setting) pair is
    processed independently of the others and a proof for one pair is a proof for every number of pairs"""
    import ast
    loops = [n for n in ast.walk(node) if isinstance(n, (ast.For, ast.While))]
    if len(loops) != 1 or not isinstance(loops[0], ast.For):
        return "expected exactly one for-loop"
    lp = loops[0]
    if not (isinstance(lp.iter, ast.Call) and getattr(lp.iter.func, "id", None) == "zip" and len(lp.iter.args) == 2
            and ast.unparse(lp.iter.args[1]) == "self.uniq" and isinstance(lp.target, ast.Tuple) and len(lp.target.elts) == 2
            and all(isinstance(e, ast.Name) for e in lp.target.elts)):
        return "loop is not `for a, b in zip(values, self.uniq)`"
    setting = lp.target.elts[1].id
    for n in ast.walk(lp):
        if isinstance(n, (ast.Break, ast.Continue, ast.Return, ast.Global, ast.Nonlocal, ast.Delete)):
            return f"{type(n).__name__} in the loop body"
        if isinstance(n, (ast.Attribute, ast.Subscript)) and isinstance(n.ctx, ast.Store):
            if not (isinstance(n, ast.Attribute) and isinstance(n.value, ast.Name) and n.value.id == setting):
                return f"store to {ast.unparse(n)}"
        if isinstance(n, ast.Call) and isinstance(n.func, ast.Attribute) and isinstance(n.func.value, ast.Name) \
                and n.func.value.id in ("self", "calc"):
            return f"call of {ast.unparse(n.func)} inside the loop"
    for st in node.body:
        if st is lp or (isinstance(st, ast.Expr) and isinstance(st.value, ast.Constant)):
            continue
        if not (isinstance(st, ast.Assign) and len(st.targets) == 1 and isinstance(st.targets[0], ast.Name)):
            return f"statement outside the loop: {ast.unparse(st)[:60]}"
    return None


def _replay_handover(model):
    """native: a rate parameter started exactly on an upper bound that exp(log(.)) overshoots, data pushing it outward"""
    import warnings
    warnings.filterwarnings("ignore")
    from cogent3 import get_model, make_aligned_seqs, make_tree
    data = {"a": "ACGTACGTACGTACGTACGTACGTACGTACGTACGTACGT", "b": "GCGTACATACGCACGTGCGTACGTATGTACGTACGTACGC",
            "c": "ACATACGTACGTATGTACGTGCGTACGTACGCACGTACGT"}
    for upper in (10.0, 100.0, 3.0):
        lf = get_model("HKY85").make_likelihood_function(make_tree(tip_names=list(data)))
        lf.set_alignment(make_aligned_seqs(data=data, moltype="dna"))
        lf.set_param_rule("kappa", init=upper, lower=1e-6, upper=upper)
        start = float(lf.lnL)
        try:
            lf.optimise(local=True, show_progress=False, max_evaluations=60, limit_action="ignore")
        except Exception as e:
            return {"failed": True, "witness": {"kappa upper": upper}, "description": f"optimise raises {type(e).__name__}: {e}"}
        end, k = float(lf.lnL), float(lf.get_param_value("kappa"))
        if end < start - 1e-6 or not 1e-6 <= k <= upper * (1 + 1e-9):
            return {"failed": True, "witness": {"model": "HKY85", "kappa init = upper": upper, "alignment": data},
                    "description": f"HKY85, kappa started on its upper bound {upper}: lnL {start!r} -> {end!r}, kappa = {k!r}"}
    return {"failed": False, "description": "kappa started on upper bounds 10, 100, 3: lnL not lowered, kappa within bounds"}


def run_handover(chk):
    """_InputDefn.update_from_calculator -- the step that copies the optimiser's final values from the calculator back
    into the parameter settings (ParameterController.optimise runs it in its ``finally``).  The real function object is
    executed on a symbolic calculator value and symbolic bounds (operator overloading) for one (value, setting) pair in
    each of the 8 shapes {constant, free} x {lower None / given} x {upper None / given}; the frame check above extends
    the result to any number of pairs.  Postcondition (from the property: fitted values lie within their declared
    bounds, and the function hands over what the optimiser found): the setting receives the calculator value when that
    lies within the bounds, otherwise the bound that was crossed -- and only when numpy.allclose says the overshoot is
    rounding; anything else raises ParameterOutOfBoundsError and writes nothing."""
    import types

    import numpy

    from cogent3.recalculation import definition as D
    from pyvc import concolic as C
    fn = "recalculation.definition._InputDefn.update_from_calculator"
    chk.function(DEFN, "_InputDefn.update_from_calculator", "P")
    node = extract.get(DEFN, "_InputDefn.update_from_calculator")
    bad = _handover_frame_ok(node)
    if bad:
        chk.undecided.append(f"{fn}: frame of the hand-over loop not recognised ({bad}): one-pair proof does not extend to all pairs")
        return
    chk.discharged_inline(f"{fn}/frame.pairs-are-independent", "frame", function=fn, backend="syntactic check of the loop (ast)")
    chk.assume("C16 hand-over: numpy.allclose(a, b) is an uninterpreted predicate ALLCLOSE(a, b) (trusted numpy contract); "
               "settings in self.uniq are distinct objects; a bound equal to 0 is read by the code as 'no bound' and is excluded "
               "by precondition (no transformed parameter has a zero bound, untransformed ones do not overshoot)")
    real = D._InputDefn.update_from_calculator
    o, lo, hi = z3.Reals("calc_value lower upper")

    class Setting:
        def __init__(self, const, has_lo, has_hi):
            self.is_constant = const
            self.lower = C.Sym(lo) if has_lo else None
            self.upper = C.Sym(hi) if has_hi else None
            self.value = "unwritten"

    def close(a, b, *args, **kw):
        return C.SymBool(CLOSE(C.term(a), C.term(b)))
    n_paths = 0
    for const in (False, True):
        for has_lo in (False, True):
            for has_hi in (False, True):
                cfg = f"cfg=({'constant' if const else 'free'},lower={'given' if has_lo else 'None'},upper={'given' if has_hi else 'None'})"
                pre = ([lo != 0] if has_lo else []) + ([hi != 0] if has_hi else []) + ([lo <= hi] if has_lo and has_hi else [])
                box = {}

                def call():
                    st = Setting(const, has_lo, has_hi)
                    box["st"] = st
                    me = types.SimpleNamespace(uniq=[st], name="par")
                    calc = types.SimpleNamespace(get_current_cell_values_for_defn=lambda d: [C.Sym(o)])
                    saved = numpy.allclose
                    numpy.allclose = close
                    try:
                        real(me, calc)
                    finally:
                        numpy.allclose = saved
                    return st.value
                try:
                    paths = C.explore(call, pre)
                except Exception as e:
                    chk.undecided.append(f"{fn}/{cfg}: the real code cannot be evaluated on symbolic reals ({type(e).__name__}: {e})")
                    continue
                chk.obligation(f"{fn}/{cfg}/cover", "cover", cover_thunk(pre + [o == 1]), function=fn)
                below = z3.And(z3.BoolVal(has_lo), o < lo)
                above = z3.And(z3.BoolVal(has_hi), o > hi)
                for k_, pth in enumerate(paths):
                    n_paths += 1
                    base = f"{fn}/{cfg}/path={k_}"
                    if pth.outcome == "raise":
                        is_oob = str(pth.value).startswith("ParameterOutOfBoundsError")
                        # a refusal is allowed only for a free setting whose value is outside its bounds and not merely rounding
                        goal = z3.And(z3.BoolVal(is_oob and not const),
                                      z3.Or(z3.And(below, z3.Not(CLOSE(o, lo))), z3.And(above, z3.Not(CLOSE(o, hi)))))
                        chk.obligation(f"{base}/post.raises-only-for-a-real-bound-violation", "post", smt_thunk(pre + pth.pc, goal, 20),
                                       function=fn, key=f"C16/{fn}/post.raise", replayer=_replay_handover)
                        continue
                    v = pth.value
                    try:
                        vt = C.term(v)
                    except TypeError:
                        vt = None
                    if vt is None:        # the setting was not written, or received something that is not a number
                        chk.obligation(f"{base}/post.setting-gets-the-value-or-the-crossed-bound", "post",
                                       lambda v=v: ("refuted", "concolic", 0.0, {}, f"the setting receives {v!r} on a feasible path"),
                                       function=fn, key=f"C16/{fn}/post.value", replayer=_replay_handover)
                        continue
                    else:
                        if const:
                            goal = vt == o
                        else:
                            goal = z3.And(z3.Implies(below, z3.And(vt == lo, CLOSE(o, lo))),
                                          z3.Implies(above, z3.And(vt == hi, CLOSE(o, hi))),
                                          z3.Implies(z3.Not(z3.Or(below, above)), vt == o),
                                          z3.Implies(z3.BoolVal(has_lo), vt >= lo), z3.Implies(z3.BoolVal(has_hi), vt <= hi))
                    chk.obligation(f"{base}/post.setting-gets-the-value-or-the-crossed-bound", "post", smt_thunk(pre + pth.pc, goal, 20),
                                   function=fn, key=f"C16/{fn}/post.value", replayer=_replay_handover)
    if n_paths == 0:
        chk.undecided.append(f"{fn}: no path explored")


def run(chk):
    for q in ("limited_use", "bounded_function", "bounds_exception_catching_function", "maximise"):
        chk.function(OPT, q, "P")
    chk.function(SCOPE, "ParameterController.optimise", "P")
    only = getattr(chk, "only", None)
    if not only or "proof" in only:
        chk.guard(run_limited_use, fallback=[_replay_limited])
        chk.guard(run_wrappers)
        chk.guard(run_maximise, fallback=[_replay_maximise])
        chk.guard(run_pc_optimise)
        chk.guard(run_projection)
        chk.guard(run_handover, fallback=[_replay_handover])
        chk.discharge()
    chk.assume("float is modelled as the extended reals [-INF, INF]; NaN is excluded by precondition; rounding is not modelled")
    chk.assume("the optimisers (Powell, simulated annealing) are arbitrary callers of the wrapped function: only the "
               "per-call invariant is proved, by induction it holds for every call sequence; optimiser quality is not decided")
    chk.assume("numpy.all(numpy.logical_and(lower <= x, x <= upper)) is read as the fact 'x within bounds' (trusted numpy contract)")
    if (not only or "bounded" in only) and os.path.exists(os.path.join(os.path.dirname(__file__), "..", "bounded", "C16.py")):
        chk.bounded("bounded.C16")
    chk.level = "other"
    chk.explanation = ("best-so-far bookkeeping of limited_use proved as an inductive invariant over any evaluation sequence "
                       "(smt, reals); bound/exception wrappers and the finally-update of ParameterController.optimise by "
                       "exception-flow execution; parameter projection between nested nucleotide models proved for all positive values "
                       "(real code evaluated on symbolic reals, nonlinear real arithmetic); nested initialisation of whole "
                       "functions and monotone optimisation on real models bounded")
