"""likelihood_tree._indexed: unique / counts / index bookkeeping of alignment columns, by a quantified loop
invariant over a ghost map (shared by C02 and C11).

Contract (for every input sequence ``values`` of any length, keys of an uninterpreted sort):
  * ``values[p] == unique[index[p]]`` for every position p, with ``0 <= index[p] < len(unique)``;
  * ``unique`` has no duplicates (the ghost map ``seen`` is its inverse);
  * ``counts[u]`` is the multiplicity of ``unique[u]`` in ``values`` (COUNT spec function with its unfolding axiom).
"""
from __future__ import annotations

import z3

from pyvc import extract
from pyvc.harness import cover_thunk, smt_thunk
from pyvc.loops import ArrV, LoopHooks, SymMap, SymSeq, loop_nodes, seq_len
from pyvc.objects import ClassHooks
from pyvc.symex import Engine, Opaque, OptV, Unsupported, is_sym

FILE = "cogent3/evolve/likelihood_tree.py"
Key = z3.DeclareSort("Key")
I = z3.IntSort()


class IdxHooks(LoopHooks, ClassHooks):
    def __init__(self, funcs, specs):
        ClassHooks.__init__(self, funcs, set(), globals_={"numpy": Opaque("module", modname="numpy"), "int": int})
        self.loop_specs = specs
        self.fn_nodes = funcs

    def call_method(self, eng, obj, meth, args, kw, env):
        if isinstance(obj, Opaque) and obj.tag == "module" and meth == "zeros":
            shape = args[0]
            n = shape[0] if isinstance(shape, (list, tuple)) else shape
            return ArrV.fresh("index", (n,), elem=I)
        if isinstance(obj, SymSeq) and meth == "__len__":
            return obj.length
        if isinstance(obj, SymSeq) and meth == "append":
            v = args[0] if is_sym(args[0]) else z3.IntVal(args[0])
            obj.arr = z3.Store(obj.arr, obj.length, v)
            obj.length = obj.length + 1
            return None
        if isinstance(obj, SymMap) and meth == "__contains__":
            return obj.has(args[0])
        if isinstance(obj, SymMap) and meth == "get" and len(args) == 1:
            return OptV(z3.Not(obj.has(args[0])), obj.get(args[0]))      # None when the key is absent
        if isinstance(obj, ArrV) and meth == "__len__":
            return obj.shape[0]
        return super().call_method(eng, obj, meth, args, kw, env)

    def subscript(self, eng, obj, idx):
        store = isinstance(idx, tuple) and idx and isinstance(idx[0], str) and idx[0] == "store"
        if store:
            idx = (idx[0], eng.unopt(idx[1]), eng.unopt(idx[2]))
        else:
            idx = eng.unopt(idx)
        if isinstance(obj, ArrV):
            if store:
                obj.write(eng, idx[1], idx[2])
                return None
            return obj.read(eng, idx)
        if isinstance(obj, SymSeq):
            i = idx[1] if store else idx
            eng.require("noexcept:list-index-in-range", z3.And(0 <= i, i < obj.length))
            if store:
                v = idx[2] if is_sym(idx[2]) else z3.IntVal(idx[2])
                obj.arr = z3.Store(obj.arr, i, v)
                return None
            return obj.at(i)
        if isinstance(obj, SymMap):
            if store:
                v = idx[2] if is_sym(idx[2]) else z3.IntVal(idx[2])
                obj.arr = z3.Store(obj.arr, idx[1], v)
                return None
            eng.require("noexcept:key-present", obj.has(idx))
            return obj.get(idx)
        return super().subscript(eng, obj, idx)


def obligations(chk, prop):
    name = "_indexed"
    fn = "evolve.likelihood_tree._indexed"
    node = extract.get(FILE, name)
    funcs = {name: node}
    if len(loop_nodes(node)) != 1:
        chk.undecided.append(f"{fn}: expected one loop")
        return
    n = z3.Int("n")
    values = SymSeq(z3.Const("values", z3.ArraySort(I, Key)), n, "values")
    K = z3.Const("K", Key)
    u, p = z3.Ints("u p")
    CNT = z3.Function("COUNT", I, Key, I)      # COUNT(c, k) = |{q < c : values[q] == k}|
    cq = z3.Int("cq")
    kq = z3.Const("kq", Key)
    ax = [z3.ForAll([kq], CNT(0, kq) == 0),
          z3.ForAll([cq, kq], z3.Implies(z3.And(0 <= cq, cq < n),
                                         CNT(cq + 1, kq) == CNT(cq, kq) + z3.If(values.at(cq) == kq, 1, 0))),
          z3.ForAll([cq, kq], z3.Implies(z3.And(0 <= cq, cq <= n), CNT(cq, kq) >= 0))]
    pre = [n >= 0] + ax

    def as_sym(env):
        """views of the loop state that work before (concrete empty list/dict) and after the havoc"""
        un, co, se, ix = env["unique"], env["counts"], env["seen"], env["index"]
        return un, co, se, ix

    def inv(env, c):
        un, co, se, ix = as_sym(env)
        if not isinstance(un, SymSeq):           # establishment: unique == counts == [], seen == {}
            return z3.BoolVal(len(un) == 0 and len(co) == 0 and len(se) == 0)
        U = un.length
        return z3.And(
            U >= 0, co.length == U,
            z3.ForAll([K], z3.Implies(se.has(K), z3.And(0 <= se.get(K), se.get(K) < U, un.at(se.get(K)) == K))),
            z3.ForAll([u], z3.Implies(z3.And(0 <= u, u < U), z3.And(se.has(un.at(u)), se.get(un.at(u)) == u))),
            z3.ForAll([p], z3.Implies(z3.And(0 <= p, p < c), z3.And(0 <= ix.at(p), ix.at(p) < U, un.at(ix.at(p)) == values.at(p)))),
            z3.ForAll([u], z3.Implies(z3.And(0 <= u, u < U), co.at(u) == CNT(c, un.at(u)))),
            z3.ForAll([K], z3.Implies(z3.Not(se.has(K)), CNT(c, K) == 0)))

    spec = dict(invariant=inv, modifies=["unique", "counts", "seen", "index"],
                havoc={"unique": lambda old: SymSeq.fresh("unique", Key), "counts": lambda old: SymSeq.fresh("counts", I),
                       "seen": lambda old: SymMap(z3.FreshConst(z3.ArraySort(Key, I), "seen"), "seen")})
    hooks = IdxHooks(funcs, {(name, 0): spec})
    eng = Engine(funcs, hooks, prune_logic=None, prune_ms=300)

    def entry(e):
        e.state["current_function"] = name
        return e.call(name, dict(values=values))
    try:
        paths = eng.run(entry, pre)
    except Unsupported as ex:
        chk.undecided.append(f"{fn}: UNSUPPORTED {ex}")
        return
    chk.function(FILE, name, "P")
    chk.obligation(f"{fn}/cover", "cover", cover_thunk([n >= 0]), function=fn)
    n_post = 0
    for k, pth in enumerate(paths):
        for j_, nm in enumerate(getattr(pth, "inline", [])):
            kind = nm.split(":")[0]
            chk.discharged_inline(f"{fn}/{nm}/path={k}.{j_}", kind if kind.startswith("inv") else "noexcept", function=fn)
        for nm, pc, cond in pth.obligations:
            kind = nm.split(":")[0]
            chk.obligation(f"{fn}/{nm}/path={k}", kind if kind.startswith("inv") else "noexcept",
                           smt_thunk(pc, cond, timeout=15, logic=None, instantiate=(2, [n])), function=fn,
                           key=f"{prop}/{fn}/{nm.split('#')[0]}", replayer=_replay)
        if pth.outcome == "return":
            n_post += 1
            un, co, ix = pth.value
            if not isinstance(un, SymSeq):
                goal = z3.BoolVal(False)
            else:
                U = un.length
                goal = z3.And(
                    z3.Implies(z3.And(0 <= p, p < n), z3.And(0 <= ix.at(p), ix.at(p) < U, un.at(ix.at(p)) == values.at(p))),
                    z3.Implies(z3.And(0 <= u, u < U), co.at(u) == CNT(n, un.at(u))),
                    co.length == U,
                    # no duplicates: two slots holding the same key are the same slot
                    z3.ForAll([cq], z3.Implies(z3.And(0 <= u, u < U, 0 <= cq, cq < U, un.at(u) == un.at(cq)), u == cq)))
            chk.obligation(f"{fn}/post.unique-counts-index/path={k}", "post",
                           smt_thunk(pth.pc, goal, timeout=15, logic=None, instantiate=(2, [n])), function=fn,
                           key=f"{prop}/{fn}/post", replayer=_replay)
    if n_post == 0:
        chk.error(f"{fn}: no returning path")


def _replay(model):
    import itertools
    from collections import Counter

    from cogent3.evolve.likelihood_tree import _indexed
    for L in range(0, 6):
        for vals in itertools.product("abc", repeat=L):
            un, co, ix = _indexed(list(vals))
            ok = len(set(un)) == len(un) and [un[i] for i in ix] == list(vals) and \
                list(co) == [Counter(vals)[k] for k in un]
            if not ok:
                return {"failed": True, "witness": list(vals),
                        "description": f"_indexed({list(vals)}) = ({un}, {list(co)}, {list(ix)})"}
    return {"failed": False, "description": "all sequences over {a,b,c} up to length 5 agree with the multiset spec"}
