"""C13 -- data stores hold exactly what was written, record by record.

Proof tier: (a) strings (z3 seq / cvc5): ``DataStoreDirectory.drop_not_completed(unique_id=u)`` executed
symbolically on a store holding one arbitrary not-completed record r removes r **iff** r == u ("an operation on
one identifier never changes any other record"); (b) finite exception-flow: ``DataStoreABC._check_writable``
(read-only never mutates, append never overwrites) and the mode/writability guard at the head of every
``write*`` method.
Bounded tier: bounded/C13.py (operation histories against the dictionary model, both store classes).
"""
from __future__ import annotations

import itertools
import os

import z3

from pyvc import extract
from pyvc.harness import cover_thunk, smt_thunk
from pyvc.objects import ClassHooks
from pyvc.symex import Engine, Opaque, Raise, Rec, Unsupported, is_sym

FILE = "cogent3/app/data_store.py"
READONLY, APPEND, OVERWRITE = Opaque("Mode.r"), Opaque("Mode.a"), Opaque("Mode.w")


class PathV:
    """a path as a symbolic string (posix, '/' separated)"""

    def __init__(self, s):
        self.s = s if is_sym(s) else z3.StringVal(s)


class DSHooks(ClassHooks):
    def __init__(self, funcs, props):
        super().__init__(funcs, props, globals_={"_NOT_COMPLETED_TABLE": "not_completed", "_MD5_TABLE": "md5",
                                                 "_LOG_TABLE": "logs", "READONLY": READONLY, "APPEND": APPEND,
                                                 "OVERWRITE": OVERWRITE})

    # ---- string methods on symbolic strings
    def call_method(self, eng, obj, meth, args, kw, env):
        if is_sym(obj) and z3.is_string(obj):
            a = [z3.StringVal(x) if isinstance(x, str) else x for x in args]
            if meth == "endswith":
                return z3.SuffixOf(a[0], obj)
            if meth == "startswith":
                return z3.PrefixOf(a[0], obj)
            if meth == "replace":
                # trusted contract of str.replace used here: if `old` does not occur the string is unchanged.
                # occurrences are outside this contract's precondition (identifiers without format suffix)
                if eng.branch(z3.Contains(obj, a[0])):
                    raise Unsupported("str.replace with an occurrence of the pattern")
                return obj
        if isinstance(obj, PathV):
            if meth == "unlink":
                eng.state.setdefault("unlinked", []).append(obj.s)
                return None
            if meth == "rmdir":
                eng.state.setdefault("rmdir", []).append(obj.s)
                return None
        if isinstance(obj, list) and meth == "remove":
            obj.remove(args[0])
            eng.state.setdefault("removed", []).append(args[0])
            return None
        return super().call_method(eng, obj, meth, args, kw, env)

    def call_name(self, eng, name, args, kw, env):
        if name == "Path":
            v = args[0]
            if isinstance(v, PathV):
                return v
            return PathV(v)
        if name == "list" and isinstance(args[0], list):
            return list(args[0])
        return super().call_name(eng, name, args, kw, env)

    def get_attr(self, eng, obj, attr):
        if isinstance(obj, PathV):
            # trusted contracts of PurePosixPath.name / .stem on strings of the shape  <dir>/<base>  where <base>
            # contains no '/': name == base; stem == base without its last '.suffix' (base has exactly one '.')
            shape = eng.state["shapes"].get(obj.s.get_id())
            if shape is None:
                raise Unsupported("Path attribute on a string of unknown shape")
            d, base_stem, ext = shape
            if attr == "name":
                r = z3.Concat(base_stem, z3.StringVal(ext)) if ext else base_stem
                eng.state["shapes"][r.get_id()] = ("", base_stem, ext)
                return r
            if attr == "stem":
                return base_stem
        return super().get_attr(eng, obj, attr)


def _patch_binop(eng):
    """Path / str"""
    orig = eng.binop

    def binop(op, l, r):
        import ast
        if isinstance(op, ast.Div) and isinstance(l, PathV):
            rs = r.s if isinstance(r, PathV) else (z3.StringVal(r) if isinstance(r, str) else r)
            res = z3.Concat(l.s, z3.StringVal("/"), rs)
            shp = eng.state["shapes"].get(rs.get_id())
            if shp is not None:
                eng.state["shapes"][res.get_id()] = ("dir", shp[1], shp[2])
            out = PathV(res)
            return out
        return orig(op, l, r)
    eng.binop = binop


def plain(s):
    """identifier without path separator or dot (no format suffix)"""
    return z3.And(z3.Length(s) > 0, z3.Not(z3.Contains(s, z3.StringVal("/"))), z3.Not(z3.Contains(s, z3.StringVal("."))))


def run_drop(chk):
    fn = "app.data_store.DataStoreDirectory.drop_not_completed"
    funcs, props = extract.class_functions(FILE, "DataStoreDirectory")
    funcs = {"drop_not_completed": funcs["drop_not_completed"]}
    hooks = DSHooks(funcs, set())
    r, u = z3.String("r"), z3.String("u")
    for with_id in (True, False):
        eng = Engine(funcs, hooks, prune_logic=None, prune_ms=2000)
        _patch_binop(eng)
        pre = [plain(r), plain(u)] if with_id else [plain(r)]

        def entry(e):
            e.state["shapes"] = {}
            uid = z3.Concat(z3.StringVal("not_completed/"), r, z3.StringVal(".json"))
            e.state["shapes"][uid.get_id()] = ("not_completed", r, ".json")
            m = Rec("DataMember", unique_id=uid)
            selfv = Rec("DataStoreDirectory", suffix="fasta", source=PathV("SRC"), not_completed=[m], _not_completed=[m],
                        mode=OVERWRITE, _mode=OVERWRITE)
            e.state["m"] = m
            e.state["store"] = selfv
            e.call("drop_not_completed", dict(self=selfv, unique_id=(u if with_id else "")))
            return selfv
        try:
            paths = eng.run(entry, pre)
        except Unsupported as ex:
            chk.undecided.append(f"{fn}: UNSUPPORTED {ex}")
            return
        base = f"{fn}/cfg=({'unique_id=u' if with_id else 'all'})"
        chk.obligation(f"{base}/cover", "cover", cover_thunk(pre, strings=True), function=fn)
        n = 0
        for k, p in enumerate(paths):
            if p.outcome == "abort":
                continue
            n += 1
            st = p.state
            removed = len(st.get("removed", [])) == 1
            unl = st.get("unlinked", [])
            want_nc = z3.StringVal("SRC/not_completed/") + r + z3.StringVal(".json")
            want_md5 = z3.StringVal("SRC/md5/") + r + z3.StringVal(".txt")
            if p.outcome != "return":
                goal = z3.BoolVal(False)
            elif removed:
                files_ok = z3.And(unl[0] == want_nc, unl[1] == want_md5) if len(unl) == 2 else z3.BoolVal(False)
                goal = z3.And(r == u, files_ok) if with_id else files_ok
            else:
                goal = z3.And(r != u, z3.BoolVal(len(unl) == 0)) if with_id else z3.BoolVal(False)
            chk.obligation(f"{base}/post.removed-iff-same-id/path={k}", "post",
                           smt_thunk(p.pc, goal, timeout=30, strings=True), function=fn,
                           replayer=_replay_drop, key=f"C13/{fn}/post.removed-iff-same-id")
        if n == 0:
            chk.error(f"{base}: no paths")


def _replay_drop(model):
    import pathlib
    import tempfile
    from cogent3.app.data_store import DataStoreDirectory
    r, u = model.get("r", "ba"), model.get("u", "a")
    bad = set('/\\.\x00')
    if not r or not u or any(c in bad for c in r + u) or not (r + u).isprintable() or not (r + u).isascii():
        r, u = "ba", "a"   # the solver's witness is not a usable file name: use the shape it stands for
    with tempfile.TemporaryDirectory() as d:
        ds = DataStoreDirectory(pathlib.Path(d) / "store", suffix="fasta", mode="w")
        ds.write_not_completed(unique_id=r, data="NC-" + r)
        before = sorted(m.unique_id for m in ds.not_completed)
        ds.drop_not_completed(unique_id=u)
        ds2 = DataStoreDirectory(pathlib.Path(d) / "store", suffix="fasta", mode="r")
        after = sorted(m.unique_id for m in ds2.not_completed)
    want_removed = r == u
    got_removed = len(after) < len(before)
    return {"failed": want_removed != got_removed, "witness": {"record": r, "drop": u},
            "description": f"store with not-completed record {r!r}; drop_not_completed(unique_id={u!r}); "
                           f"not_completed before {before} after {after}"}


# ------------------------------------------------------------------------------------------------ writability
class WHooks(ClassHooks):
    def call_method(self, eng, obj, meth, args, kw, env):
        if isinstance(obj, Rec) and meth == "__contains__":
            eng.trace.append(("contains", args[0]))
            return obj.fields["_is_member"]
        return super().call_method(eng, obj, meth, args, kw, env)


def run_writable(chk):
    fn = "app.data_store.DataStoreABC._check_writable"
    funcs = {"_check_writable": extract.get(FILE, "DataStoreABC._check_writable")}
    hooks = WHooks(funcs, set(), globals_={"READONLY": READONLY, "APPEND": APPEND, "OVERWRITE": OVERWRITE, "IOError": Raise("OSError")})
    agg = {"post: read-only store refuses every write (IOError)": [0, []],
           "post: append mode refuses to overwrite an existing record (IOError)": [0, []],
           "post: every other write is admitted": [0, []]}
    for mode, member in itertools.product((READONLY, APPEND, OVERWRITE), (True, False)):
        eng = Engine(funcs, hooks)
        selfv = Rec("DataStore", mode=mode, _is_member=member)
        paths = eng.run(lambda e: e.call("_check_writable", dict(self=selfv, unique_id="x")), [])
        for p in paths:
            info = f"mode={mode.tag}, already stored={member}: {p.outcome} {p.value}"
            refused = p.outcome == "raise" and p.value in ("IOError", "OSError")
            if mode is READONLY:
                k = "post: read-only store refuses every write (IOError)"
                ok = refused
            elif mode is APPEND and member:
                k = "post: append mode refuses to overwrite an existing record (IOError)"
                ok = refused
            else:
                k = "post: every other write is admitted"
                ok = p.outcome == "return"
            agg[k][0] += 1
            if not ok:
                agg[k][1].append(info)
    for clause, (n, bad) in agg.items():
        def thunk(n=n, bad=bad):
            if n == 0:
                return ("error", "pyvc", 0.0, None, "no paths")
            if bad:
                return ("refuted", "pyvc exception-flow enumeration", 0.0, {"info": bad[0]}, bad[0])
            return ("proved", "pyvc exception-flow enumeration", 0.0, None, f"{n} paths")
        chk.obligation(f"{fn}/{clause}", "post", thunk, function=fn,
                       replayer=lambda m: {"failed": False, "description": m["info"]}, key=f"C13/{fn}/{clause[:50]}")
    # every write* method starts by calling the guard (syntactic frame obligation)
    import ast
    for cls in ("DataStoreABC", "DataStoreDirectory"):
        for meth in ("write", "write_not_completed", "write_log", "drop_not_completed"):
            try:
                node = extract.get(FILE, f"{cls}.{meth}")
            except KeyError:
                continue
            if cls == "DataStoreABC" and meth == "drop_not_completed":
                continue   # abstract: no body
            calls = [ast.unparse(n.func) for n in ast.walk(node) if isinstance(n, ast.Call)]
            guarded = any(c in ("self._check_writable", "super().write", "super().write_not_completed", "super().write_log",
                                "self._write") for c in calls) or \
                "self.mode is READONLY" in ast.unparse(node)

            def thunk2(guarded=guarded, calls=calls):
                return ("proved" if guarded else "refuted", "syntactic", 0.0, None,
                        f"calls: {calls[:6]}")
            chk.obligation(f"app.data_store.{cls}.{meth}/frame: reaches the writability guard", "frame", thunk2,
                           function=f"app.data_store.{cls}.{meth}", key=f"C13/{cls}.{meth}/guard")


def run(chk):
    chk.function(FILE, "DataStoreDirectory.drop_not_completed", "P")
    chk.function(FILE, "DataStoreABC._check_writable", "P")
    only = getattr(chk, "only", None)
    if not only or "proof" in only:
        chk.guard(run_drop, fallback=[_replay_drop])
        chk.guard(run_writable)
        chk.discharge()
    chk.assume("str.replace(old, new) returns the string unchanged when old does not occur (identifiers with an embedded "
               "format suffix are outside the string contract's precondition and are covered by the bounded tier)")
    chk.assume("PurePosixPath.name/.stem on '<dir>/<base><.ext>' with a separator-free, dot-free base (trusted pathlib contract)")
    chk.assume("the file system calls unlink/rmdir are recorded in a ghost list; their effect is the trusted POSIX one")
    if (not only or "bounded" in only) and os.path.exists(os.path.join(os.path.dirname(__file__), "..", "bounded", "C13.py")):
        chk.bounded("bounded.C13")
    chk.level = "other"
    chk.explanation = ("identifier predicate of drop_not_completed proved over all strings (smt strings) and writability "
                       "guard by exhaustive exception-flow; store contents after histories of operations are bounded "
                       "run-time contracts against the dictionary model")
