"""C02 -- log-likelihood equals the first-principles Felsenstein sum-product.

Proof tier (reals, loop invariants, quantifier-free pointwise VCs): the three numba kernels of
``evolve/likelihood_tree_numba.py`` are verified as their undecorated Python bodies:
``sum_input_likelihoods`` (every cell is the product over children of the child's partial likelihood at the
indexed column; nothing else is written), ``inner_product`` (= sum_i lh[i]*pi[i]) and
``get_log_sum_across_sites`` (= sum_i log(lh[i])*counts[i], log uninterpreted), plus in-bounds array access.
The wiring of these kernels into the likelihood definition graph is outside the subset; the whole-function
contract (lnL == independent pruning oracle; column likelihoods sum to one) is the bounded tier bounded/C02.py.
"""
from __future__ import annotations

import os

import z3

from pyvc import extract
from pyvc.harness import cover_thunk, smt_thunk
from pyvc.loops import ArrV, LoopHooks, loop_nodes
from pyvc.objects import ClassHooks
from pyvc.symex import Engine, Opaque, Raise, Unsupported, is_sym

FILE = "cogent3/evolve/likelihood_tree_numba.py"
R, I = z3.RealSort(), z3.IntSort()
LOG = z3.Function("LOG", R, R)


class KHooks(LoopHooks, ClassHooks):
    def __init__(self, funcs, specs):
        ClassHooks.__init__(self, funcs, set(), globals_={"numpy": Opaque("module", modname="numpy")})
        self.loop_specs = specs
        self.fn_nodes = funcs

    def subscript(self, eng, obj, idx):
        if isinstance(obj, ArrV):
            if isinstance(idx, tuple) and idx and isinstance(idx[0], str) and idx[0] == "store":
                obj.write(eng, idx[1], idx[2])
                return None
            return obj.read(eng, idx)
        if isinstance(obj, tuple) and isinstance(idx, int):
            return obj[idx]
        return super().subscript(eng, obj, idx)

    def get_attr(self, eng, obj, attr):
        if isinstance(obj, ArrV) and attr == "shape":
            return obj.shape
        return super().get_attr(eng, obj, attr)

    def call_method(self, eng, obj, meth, args, kw, env):
        if isinstance(obj, ArrV) and meth == "__len__":
            return obj.shape[0]
        if isinstance(obj, Opaque) and obj.tag == "module" and meth == "log" and isinstance(args[0], ArrV):
            a = args[0]
            return ArrV(a.term, a.shape, a.elem_sort, fn=LOG, name="log_" + (a.name or "a"))
        return super().call_method(eng, obj, meth, args, kw, env)


def run_kernel(chk, name, make_env, specs, post, pre, extents=()):
    fn = f"evolve.likelihood_tree_numba.{name}"
    node = extract.get(FILE, name)
    funcs = {name: node}
    hooks = KHooks(funcs, {(name, k): v for k, v in specs.items()})
    eng = Engine(funcs, hooks, prune_logic=None, prune_ms=500)
    nloops = len(loop_nodes(node))
    if nloops != len(specs):
        chk.undecided.append(f"{fn}: {nloops} loops in the source, {len(specs)} invariants in the contract (refactored?)")
        return

    def entry(e):
        e.state["current_function"] = name
        env = make_env()
        e.state["args"] = env
        return e.call(name, env)
    try:
        paths = eng.run(entry, pre)
    except Unsupported as u:
        chk.undecided.append(f"{fn}: UNSUPPORTED {u}")
        return
    chk.obligation(f"{fn}/cover", "cover", cover_thunk(pre), function=fn)
    n_post = 0
    for k, p in enumerate(paths):
        for j_, nm in enumerate(getattr(p, "inline", [])):
            kind = nm.split(":")[0]
            chk.discharged_inline(f"{fn}/{nm}/path={k}.{j_}", kind if kind.startswith("inv") else "noexcept", function=fn)
        for nm, pc, cond in p.obligations:
            kind = nm.split(":")[0]
            chk.obligation(f"{fn}/{nm}/path={k}", kind if kind.startswith("inv") else "noexcept",
                           smt_thunk(pc, cond, timeout=20, logic=None, instantiate=(2, extents)), function=fn, key=f"{chk.prop}/{fn}/{nm.split('#')[0]}",
                           replayer=_replay_kernel(name))
        if p.outcome == "return":
            n_post += 1
            chk.obligation(f"{fn}/post/path={k}", "post", smt_thunk(p.pc, post(p), timeout=20, logic=None, instantiate=(2, extents)), function=fn,
                           key=f"{chk.prop}/{fn}/post", replayer=_replay_kernel(name))
        elif p.outcome == "raise":
            chk.obligation(f"{fn}/noexcept/path={k}", "noexcept", lambda v=p.value: ("refuted", "pyvc", 0.0, None, f"raises {v}"),
                           function=fn, key=f"{chk.prop}/{fn}/noexcept", replayer=_replay_kernel(name))
    if n_post == 0:
        chk.error(f"{fn}: no returning path")


def kernel_obligations(chk):
    # ------------------------------------------------------------------ inner_product
    n = z3.Int("n")
    lh = ArrV.fresh("lh", (n,))
    pi = ArrV.fresh("pi", (n,))
    S = z3.Function("SUM_lh_pi", I, R)          # spec: S(0) = 0, S(i+1) = S(i) + lh[i]*pi[i]
    iq = z3.Int("iq")
    unfold = [S(0) == 0]

    def inv_ip(env, i):
        # the unfolding axiom of the spec sum, instantiated at the loop index
        return z3.And(env["res"] == S(i), z3.Implies(z3.And(0 <= i, i < n), S(i + 1) == S(i) + lh.at(i) * pi.at(i)))

    # the axiom instance must be an *assumption*, not part of the invariant to prove: split
    def inv_ip_assume(env, i):
        return env["res"] == S(i)
    ax_ip = z3.ForAll([iq], z3.Implies(z3.And(0 <= iq, iq < n), S(iq + 1) == S(iq) + lh.at(iq) * pi.at(iq)))
    run_kernel(chk, "inner_product", lambda: dict(input_likelihoods=lh, mprobs=pi),
               {0: dict(invariant=inv_ip_assume, modifies=["res"])},
               post=lambda p: p.value == S(n), pre=[n >= 0, S(0) == 0, ax_ip], extents=[n])
    # ------------------------------------------------------------------ get_log_sum_across_sites
    lhs = ArrV.fresh("lhs", (z3.Int("nl"),))
    counts = ArrV.fresh("counts", (n,))
    T = z3.Function("SUM_log_lh_counts", I, R)
    ax_ls = z3.ForAll([iq], z3.Implies(z3.And(0 <= iq, iq < n), T(iq + 1) == T(iq) + LOG(lhs.at(iq)) * counts.at(iq)))
    run_kernel(chk, "get_log_sum_across_sites", lambda: dict(lhs=lhs, counts=counts),
               {0: dict(invariant=lambda env, i: env["res"] == T(i), modifies=["res"])},
               post=lambda p: p.value == T(n), pre=[n >= 0, lhs.shape[0] == n, T(0) == 0, ax_ls], extents=[n])
    # ------------------------------------------------------------------ sum_input_likelihoods
    C, H, W, CH = z3.Ints("C H W CH")            # children, parent columns, motifs, child columns
    idx = ArrV.fresh("child_indexes", (C, H), elem=I)
    L = ArrV.fresh("likelihoods", (C, CH, W))
    P, M = z3.Ints("P M")                        # the generic cell (implicitly universally quantified)
    PROD = z3.Function("PROD_children", I, I, I, R)   # PROD(k, p, m) = prod_{c<k} L[c][idx[c][p]][m]
    kq, pq, mq = z3.Ints("kq pq mq")
    ax_prod = [
        z3.ForAll([pq, mq], PROD(1, pq, mq) == L.at(0, idx.at(0, pq), mq)),
        z3.ForAll([kq, pq, mq], z3.Implies(kq >= 1, PROD(kq + 1, pq, mq) == PROD(kq, pq, mq) * L.at(kq, idx.at(kq, pq), mq))),
    ]
    res0 = ArrV.fresh("result", (H, W))
    orig = res0.term

    def cell(env):
        return env["result"].at(P, M)

    # loops in source order: 0 outer(child); 1 parent_col (child==0); 2 motif; 3 parent_col (child>0); 4 motif
    def inv_outer(env, k):
        return z3.And(z3.Implies(k >= 1, cell(env) == PROD(k, P, M)), z3.Implies(k == 0, cell(env) == z3.Select(z3.Select(orig, P), M)))

    def inv_p0(env, p):      # child == 0: rows < p are assigned
        return z3.Implies(P < p, cell(env) == PROD(1, P, M))

    def inv_m0(env, m):      # row parent_col: motifs < m assigned, earlier rows kept
        pc_ = env["parent_col"]
        return z3.And(z3.Implies(P < pc_, cell(env) == PROD(1, P, M)),
                      z3.Implies(z3.And(P == pc_, M < m), cell(env) == PROD(1, P, M)))

    def inv_p(env, p):       # child >= 1: rows < p multiplied, others still PROD(child)
        k = env["child"]
        return cell(env) == z3.If(P < p, PROD(k + 1, P, M), PROD(k, P, M))

    def inv_m(env, m):
        k, pc_ = env["child"], env["parent_col"]
        return cell(env) == z3.If(z3.Or(P < pc_, z3.And(P == pc_, M < m)), PROD(k + 1, P, M), PROD(k, P, M))

    pre = [C >= 1, H >= 0, W >= 0, CH >= 0, 0 <= P, P < H, 0 <= M, M < W] + ax_prod + [
        # type invariant of the index arrays: every entry names a child column
        z3.ForAll([kq, pq], z3.Implies(z3.And(0 <= kq, kq < C, 0 <= pq, pq < H),
                                       z3.And(0 <= idx.at(kq, pq), idx.at(kq, pq) < CH)))]
    run_kernel(chk, "sum_input_likelihoods",
               lambda: dict(child_indexes=idx, result=ArrV(orig, (H, W), R, name="result"), likelihoods=L),
               {0: dict(invariant=inv_outer, modifies=["result"]),
                1: dict(invariant=inv_p0, modifies=["result"]),
                2: dict(invariant=inv_m0, modifies=["result"]),
                3: dict(invariant=inv_p, modifies=["result"]),
                4: dict(invariant=inv_m, modifies=["result"])},
               post=lambda p: p.value.at(P, M) == PROD(C, P, M) if isinstance(p.value, ArrV) else z3.BoolVal(False), pre=pre, extents=[C, H, W, CH])


def _replay_kernel(name):
    def rep(model):
        """native: the real kernel against numpy reference formulas on small random arrays"""
        import numpy
        from cogent3.evolve import likelihood_tree_numba as K
        rng = numpy.random.default_rng(7)
        f = getattr(K, name)
        f = getattr(f, "py_func", f)
        for trial in range(40):
            if name == "inner_product":
                n = int(rng.integers(0, 5))
                a, b = rng.random(n), rng.random(n)
                got, want = f(a, b), float((a * b).sum())
            elif name == "get_log_sum_across_sites":
                n = int(rng.integers(0, 5))
                a, c = rng.random(n) + 0.1, rng.integers(1, 4, n).astype(float)
                got, want = f(a, c), float((numpy.log(a) * c).sum())
            else:
                C, H, W, CH = int(rng.integers(1, 4)), int(rng.integers(0, 4)), int(rng.integers(1, 4)), 3
                idx = rng.integers(0, CH, (C, H))
                L = rng.random((C, CH, W))
                res = numpy.full((H, W), 7.0)
                got = f(idx, res, L)
                want = numpy.ones((H, W))
                for c in range(C):
                    want *= L[c][idx[c]]
            if not numpy.allclose(got, want):
                return {"failed": True, "witness": {"kernel": name, "trial": trial},
                        "description": f"{name}: real kernel returns {numpy.asarray(got).tolist()}, reference formula {numpy.asarray(want).tolist()}"}
        return {"failed": False, "description": f"{name}: 40 random small inputs agree with the reference formula"}
    return rep


def run(chk):
    for q in ("sum_input_likelihoods", "inner_product", "get_log_sum_across_sites"):
        chk.function(FILE, q, "P")
    only = getattr(chk, "only", None)
    if not only or "proof" in only:
        chk.guard(kernel_obligations)
        from contracts import indexed
        chk.guard(indexed.obligations, chk.prop, fallback=[indexed._replay])
        chk.discharge()
    chk.assume("@njit kernels are verified as their undecorated Python bodies: numba nopython semantics == CPython on these "
               "values (no int64 overflow: array extents < 2**63); float64 treated as the reals")
    chk.assume("log is an uninterpreted function; spec sums/products are uninterpreted functions with their unfolding axioms")
    chk.assume("the wiring of the kernels into the likelihood definition graph (make_partial_likelihood_defns, "
               "make_total_loglikelihood_defn, bins) is trusted by the proof tier and covered only by the bounded tier")
    if (not only or "bounded" in only) and os.path.exists(os.path.join(os.path.dirname(__file__), "..", "bounded", f"{chk.prop}.py")):
        chk.bounded(f"bounded.{chk.prop}")
    chk.level = "other"
    chk.explanation = ("sum-product kernels proved for all array extents and real values by loop invariants (smt); whole "
                       "log-likelihood vs an independent pruning oracle is a bounded run-time contract")
