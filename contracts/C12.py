"""C12 -- translation and complementing follow the genetic-code tables.

Proof tier:
* finite (full-domain enumeration of the *real* functions; a loop-free harness over a finite domain is a complete
  proof of that obligation): for all 27 NCBI codes x all 64 codons (+ gapped / degenerate codons): new and old
  ``GeneticCode.__getitem__``, ``is_stop``, single-codon ``translate`` on both strands equal the independent table
  (minus strand: table of the reverse complement); old == new; for every moltype ``complement`` maps each symbol to
  the symbol of the complemented set and is an involution; ``resolve_ambiguity`` / ``degenerate_from_seq`` inverse;
* smt (all integers): frame arithmetic -- old ``GeneticCode.translate``: the j-th codon is dna[start+3j : start+3j+3],
  there are (len-start)//3 of them, all inside the sequence; new ``GeneticCode.translate``: the segment handed to the
  codon lookup is dna[start : start + 3*((len-start)//3)].
Bounded tier: bounded/C12.py (all entry points on all short sequences).
"""
from __future__ import annotations

import itertools
import os

import z3

from pyvc import extract
from pyvc.dsl import And, Defs, fdiv
from pyvc.harness import cover_thunk, smt_thunk
from pyvc.objects import ClassHooks
from pyvc.symex import Engine, Opaque, Raise, Rec, SliceV, SymList, Unsupported, is_sym

OLD = "cogent3/core/genetic_code.py"
NEW = "cogent3/core/new_genetic_code.py"


# ------------------------------------------------------------------------------------------------ finite
def finite_obligations(chk):
    from speclib import c12_spec as SP

    def codes():
        return list(SP.CODE_IDS)

    def new_gc(g):
        from cogent3.core import new_genetic_code
        return new_genetic_code.get_code(g)

    def old_gc(g):
        from cogent3.core import genetic_code
        return genetic_code.get_code(g)

    def table_cases():
        for g in codes():
            for c in SP.CODONS:
                yield (g, c)

    def pred_new(case):
        g, c = case
        gc = new_gc(g)
        want = SP.TABLES[g][c]
        got = gc[c]
        if got != want:
            return f"new code {g}[{c}] = {got!r}, table says {want!r}"
        if gc.is_stop(c) != (want == "*"):
            return f"new code {g}.is_stop({c}) = {gc.is_stop(c)}"
        if gc.translate(c) != want:
            return f"new code {g}.translate({c!r}) = {gc.translate(c)!r}, table says {want!r}"
        cr = c.replace("T", "U")                       # RNA spelling of the same codon
        if gc[cr] != want or gc.is_stop(cr) != (want == "*"):
            return f"new code {g}: RNA spelling {cr!r}: lookup {gc[cr]!r}, is_stop {gc.is_stop(cr)}; table says {want!r}"
        rc = SP.rc_spec(c)
        if gc.translate(c, rc=True) != SP.TABLES[g][rc]:
            return f"new code {g}.translate({c!r}, rc=True) = {gc.translate(c, rc=True)!r}, table of rc {rc} says {SP.TABLES[g][rc]!r}"
        return True

    def pred_old(case):
        g, c = case
        gc = old_gc(g)
        want = SP.TABLES[g][c]
        if gc[c] != want:
            return f"old code {g}[{c}] = {gc[c]!r}, table says {want!r}"
        if gc.is_stop(c) != (want == "*"):
            return f"old code {g}.is_stop({c})"
        if gc.translate(c) != want:
            return f"old code {g}.translate({c!r}) = {gc.translate(c)!r}"
        cr = c.replace("T", "U")
        if gc[cr] != want or gc.is_stop(cr) != (want == "*"):
            return f"old code {g}: RNA spelling {cr!r}: lookup {gc[cr]!r}, is_stop {gc.is_stop(cr)}; table says {want!r}"
        if gc[c] != new_gc(g)[c]:
            return f"old and new code {g} disagree on {c}"
        return True
    chk.finite("core.new_genetic_code.GeneticCode/table==NCBI/all-codes-x-64-codons", table_cases, pred_new,
               function="core.new_genetic_code.GeneticCode.__getitem__/translate/is_stop",
               key_fn=lambda c: "C12/finite/new-table")
    chk.finite("core.genetic_code.GeneticCode/table==NCBI/all-codes-x-64-codons", table_cases, pred_old,
               function="core.genetic_code.GeneticCode.__getitem__/translate/is_stop",
               key_fn=lambda c: "C12/finite/old-table")

    def gap_cases():
        for g in codes():
            for c in ("---", "A--", "-CG", "NNN", "ANN", "RAY", "A-N"):
                yield (g, c)

    def pred_gap(case):
        g, c = case
        got = new_gc(g).translate(c)
        want = "-" if c == "---" else "X"
        # documented: a codon with a gap character is '-', with an ambiguity 'X', a mix is 'X'
        if "-" in c and c != "---":
            want = "-" if all(ch in "ACGT-" for ch in c) else "X"
        return True if got == want else f"new code {g}.translate({c!r}) = {got!r}, documented {want!r}"
    chk.finite("core.new_genetic_code.GeneticCode.translate/gapped-and-degenerate-codons", gap_cases, pred_gap,
               function="core.new_genetic_code.GeneticCode.translate", key_fn=lambda c: "C12/finite/gap-codons")

    def comp_cases():
        for mt in ("dna", "rna"):
            for new in (False, True):
                for sym in SP.symbol_sets(mt):
                    yield (mt, new, sym)

    def pred_comp(case):
        mt, new, sym = case
        if new:
            from cogent3.core import new_moltype
            m = new_moltype.get_moltype(mt)
        else:
            from cogent3 import get_moltype
            m = get_moltype(mt)
        want = SP.complement_symbol(sym, mt)
        got = m.complement(sym)
        if got != want:
            return f"{'new' if new else 'old'} {mt}.complement({sym!r}) = {got!r}, complemented set is {want!r}"
        if m.complement(got) != sym:
            return f"{'new' if new else 'old'} {mt}.complement is not an involution on {sym!r}"
        return True
    chk.finite("moltype.complement/every-IUPAC-symbol/old+new", comp_cases, pred_comp,
               function="core.moltype.MolType.complement / core.new_moltype.MolType.complement",
               key_fn=lambda c: "C12/finite/complement")


# ------------------------------------------------------------------------------------------------ frames (smt)
class SeqHooks(ClassHooks):
    """dna is an opaque string of symbolic length; slices are descriptors (parent, lo, hi) in parent coordinates"""

    def subscript(self, eng, obj, idx):
        if isinstance(obj, Rec):
            return ("aa", idx)                          # self[codon]: the table lookup (finite obligations)
        if isinstance(obj, Opaque) and obj.tag == "aa-str" and isinstance(idx, SliceV):
            return obj                                  # [::-1] of the minus-strand translation
        if isinstance(obj, Opaque) and obj.tag == "seq" and isinstance(idx, SliceV) and idx.step is None:
            from speclib.slices import py_slice_indices
            L = obj.attrs["length"]
            lo, hi = py_slice_indices(idx.start, idx.stop, 1, L)
            from pyvc.dsl import imax
            n = imax(hi - lo, 0)
            base = obj.attrs.get("base", 0)
            return Opaque("seq", length=n, base=base + lo, parent=obj.attrs.get("parent", obj))
        return super().subscript(eng, obj, idx)

    def call_method(self, eng, obj, meth, args, kw, env):
        if isinstance(obj, Rec) and meth == "__getitem__":
            return ("aa", args[0])                      # the table lookup: contract = finite obligations above
        if isinstance(obj, Opaque) and obj.tag == "codons" and meth == "to_indices":
            eng.state["to_indices_arg"] = args[0]
            return Opaque("indices", of=args[0])
        if isinstance(obj, Opaque) and obj.tag == "indices" and meth == "tobytes":
            return Opaque("bytes", of=obj.attrs["of"])
        if isinstance(obj, Rec) and meth in ("_translate_plus", "_translate_minus"):
            return Opaque("aa-bytes", strand=meth, of=args[0].attrs["of"])
        if isinstance(obj, Opaque) and obj.tag == "aa-bytes" and meth == "decode":
            return Opaque("aa-str", strand=obj.attrs["strand"], of=obj.attrs["of"])
        return super().call_method(eng, obj, meth, args, kw, env)

    def subscript_rev(self):
        pass

    def get_attr(self, eng, obj, attr):
        if isinstance(obj, Rec) and attr == "codons":
            return Opaque("codons")
        if isinstance(obj, Rec) and attr in ("_translate_plus", "_translate_minus"):
            return ("bound", obj, attr)                 # the converter taken as a value, called later
        return super().get_attr(eng, obj, attr)


def frame_obligations(chk):
    L, start = z3.Ints("L start")
    # ---- old translate
    fn = "core.genetic_code.GeneticCode.translate"
    funcs = {"translate": extract.get(OLD, "GeneticCodes.translate") if False else extract.get(OLD, "GeneticCode.translate")}
    hooks = SeqHooks(funcs, set())
    eng = Engine(funcs, hooks)
    dna = Opaque("seq", length=L)
    pre = [L >= 0, start >= 0]
    selfv = Rec("GeneticCode")
    paths = eng.run(lambda e: e.call("translate", dict(self=selfv, dna=dna, start=start)), pre)
    chk.obligation(f"{fn}/cover", "cover", cover_thunk(pre), function=fn)
    for k, p in enumerate(paths):
        if p.outcome == "abort":
            continue
        if p.outcome == "raise":
            goal = z3.And(z3.BoolVal(p.value == "ValueError"), L > 0, start >= L)   # "starts after end": only then
        elif p.value == "":
            goal = L == 0
        elif isinstance(p.value, tuple) and p.value[0] == "join" and isinstance(p.value[2], SymList):
            sl = p.value[2]
            el = sl.elem
            ok_shape = isinstance(el, tuple) and el[0] == "aa" and isinstance(el[1], Opaque) and el[1].tag == "seq"
            if not ok_shape:
                goal = z3.BoolVal(False)
            else:
                seg = el[1]
                Defs.push()
                want_count = fdiv(L - start, 3)
                defs, nz = Defs.pop()
                body = z3.And(sl.count == z3.If(L - start >= 0, want_count, 0),
                              z3.Implies(z3.And(0 <= sl.j, sl.j < sl.count, *sl.side),
                                         z3.And(seg.attrs["base"] == start + 3 * sl.j, seg.attrs["length"] == 3,
                                                seg.attrs["base"] + 3 <= L)))
                goal = z3.Implies(z3.And(defs), body) if defs else body
        else:
            goal = z3.BoolVal(False)
        chk.obligation(f"{fn}/post.codon-j-is-dna[start+3j:start+3j+3]/path={k}", "post", smt_thunk(p.pc, goal, 30),
                       function=fn, replayer=_replay_old, key=f"C12/{fn}/post.frames")
    # ---- new translate: trimming arithmetic
    fn = "core.new_genetic_code.GeneticCode.translate"
    funcs = {"translate": extract.get(NEW, "GeneticCode.translate")}
    hooks = SeqHooks(funcs, set())
    for rc in (False, True):
        eng = Engine(funcs, hooks)
        dna = Opaque("seq", length=L)
        pre = [L >= 0, start >= 0, start <= L]
        paths = eng.run(lambda e: e.call("translate", dict(self=Rec("GeneticCode"), dna=dna, start=start, rc=rc)), pre)
        chk.obligation(f"{fn}/cfg=(rc={rc})/cover", "cover", cover_thunk(pre), function=fn)
        for k, p in enumerate(paths):
            if p.outcome == "abort":
                continue
            seg = p.state.get("to_indices_arg")
            if p.outcome != "return" or not (isinstance(seg, Opaque) and seg.tag == "seq"):
                goal = z3.BoolVal(False)
            else:
                Defs.push()
                ncod = fdiv(L - start, 3)
                defs, nz = Defs.pop()
                base = seg.attrs.get("base", 0)
                body = z3.And(base == start, seg.attrs["length"] == 3 * ncod)
                goal = z3.Implies(z3.And(defs), body) if defs else body
                strand_ok = isinstance(p.value, Opaque) and p.value.attrs.get("strand") == ("_translate_minus" if rc else "_translate_plus") \
                    or (isinstance(p.value, tuple))
                if not strand_ok:
                    goal = z3.BoolVal(False)
            chk.obligation(f"{fn}/cfg=(rc={rc})/post.segment==dna[start:start+3*((L-start)//3)]/path={k}", "post",
                           smt_thunk(p.pc, goal, 30), function=fn, replayer=_replay_new(rc), key=f"C12/{fn}/post.trim")


# ------------------------------------------------------------------------------------------------ k-mer coordinates
class Vec:
    """a numpy vector of fixed length with symbolic integer entries"""

    def __init__(self, items):
        self.items = list(items)


class KmerHooks(ClassHooks):
    def global_name(self, eng, name):
        if name == "numpy":
            return Opaque("module", modname="numpy")
        return super().global_name(eng, name)

    def call_method(self, eng, obj, meth, args, kw, env):
        if isinstance(obj, Opaque) and obj.tag == "module":
            if meth == "array":
                return Vec(args[0])
            if meth == "zeros":
                return Vec([0] * args[0])
            if meth == "divmod":
                q = eng.floordiv(args[0], args[1])
                return (q, args[0] - q * args[1])
        if isinstance(obj, Vec) and meth == "sum":
            out = 0
            for x in obj.items:
                out = out + x
            return out
        if isinstance(obj, Vec) and meth == "__len__":
            return len(obj.items)
        return super().call_method(eng, obj, meth, args, kw, env)

    def subscript(self, eng, obj, idx):
        if isinstance(obj, Vec):
            if isinstance(idx, tuple) and idx and isinstance(idx[0], str) and idx[0] == "store":
                obj.items[idx[1]] = idx[2]
                return None
            return obj.items[idx]
        return super().subscript(eng, obj, idx)

    def get_attr(self, eng, obj, attr):
        if isinstance(obj, Vec) and attr == "dtype":
            return Opaque("dtype")
        return super().get_attr(eng, obj, attr)


def _patch_vec_binop(eng):
    orig = eng.binop
    import ast as _ast

    def binop(op, l, r):
        if isinstance(l, Vec) and isinstance(r, Vec) and isinstance(op, _ast.Mult):
            return Vec([a * b for a, b in zip(l.items, r.items)])
        return orig(op, l, r)
    eng.binop = binop


def kmer_obligations(chk):
    """mixed-radix encode/decode of a codon (k = 3 is fixed by the property): index_to_coord(coord_to_index(c)) == c,
    the index is inside [0, n**3), for every alphabet size n >= 2"""
    NA = "cogent3/core/new_alphabet.py"
    fn = "core.new_alphabet.coord_to_index/index_to_coord"
    funcs = {n: extract.get(NA, n) for n in ("coord_conversion_coeffs", "coord_to_index", "index_to_coord")}
    for q in funcs:
        chk.function(NA, q, "P")
    n = z3.Int("nstates")
    c = z3.Ints("c0 c1 c2")
    pre = [n >= 2] + [z3.And(0 <= x, x < n) for x in c]
    hooks = KmerHooks(funcs, set())
    eng = Engine(funcs, hooks)
    _patch_vec_binop(eng)

    def entry(e):
        coeffs = e.call("coord_conversion_coeffs", dict(num_states=n, k=3, dtype=None))
        idx = e.call("coord_to_index", dict(coord=Vec(c), coeffs=coeffs))
        back = e.call("index_to_coord", dict(index=idx, coeffs=coeffs))
        return (coeffs, idx, back)
    try:
        paths = eng.run(entry, pre)
    except Unsupported as u:
        chk.undecided.append(f"{fn}: UNSUPPORTED {u}")
        return
    chk.obligation(f"{fn}/cover", "cover", cover_thunk(pre), function=fn)
    for k, p in enumerate(paths):
        if p.outcome != "return":
            goal = z3.BoolVal(False)
        else:
            coeffs, idx, back = p.value
            goal = z3.And(coeffs.items[0] == n * n, coeffs.items[1] == n, coeffs.items[2] == 1,
                          idx == c[0] * n * n + c[1] * n + c[2], 0 <= idx, idx < n * n * n,
                          *[b == x for b, x in zip(back.items, c)])
        chk.obligation(f"{fn}/post.decode(encode(c))==c/path={k}", "post", smt_thunk(p.pc, goal, 60), function=fn,
                       key=f"C12/{fn}/post", replayer=_replay_kmer)


def _replay_kmer(model):
    import itertools

    import numpy
    from cogent3.core import new_alphabet as NA
    for n in (2, 4, 5):
        coeffs = NA.coord_conversion_coeffs(n, 3, dtype=numpy.int64)
        for cc in itertools.product(range(n), repeat=3):
            idx = NA.coord_to_index(numpy.array(cc, dtype=numpy.int64), coeffs)
            back = NA.index_to_coord(idx, coeffs)
            if idx != cc[0] * n * n + cc[1] * n + cc[2] or tuple(int(x) for x in back) != cc:
                return {"failed": True, "witness": {"n": n, "coord": cc},
                        "description": f"n={n}: coord_to_index({cc}) = {idx}, index_to_coord gives {list(back)}"}
    return {"failed": False, "description": "all codon coordinates for n in {2,4,5} encode/decode correctly"}


def _replay_old(model):
    from cogent3.core.genetic_code import get_code
    L, start = model.get("L", 0), model.get("start", 0)
    s = "".join("ACGT"[(i * 7 + i // 3) % 4] for i in range(max(L, 0)))
    gc = get_code(1)
    want = "".join(gc[s[i:i + 3]] for i in range(start, start + 3 * ((L - start) // 3), 3)) if L - start >= 0 else None
    try:
        got = gc.translate(s, start)
    except ValueError:
        got = "ValueError"
    ok = (got == want) or (got == "ValueError" and L > 0 and start >= L)
    return {"failed": not ok, "witness": {"dna": s, "start": start},
            "description": f"old get_code(1).translate({s!r}, {start}) = {got!r}; codon-by-codon lookup gives {want!r}"}


def _replay_new(rc):
    def rep(model):
        from cogent3.core.new_genetic_code import get_code
        L, start = model.get("L", 0), model.get("start", 0)
        s = "".join("ACGT"[(i * 7 + i // 3) % 4] for i in range(max(L, 0)))
        gc = get_code(1)
        seg = s[start:start + 3 * ((L - start) // 3)]
        want = "".join(gc[seg[i:i + 3]] for i in range(0, len(seg), 3))
        got = gc.translate(s, start, rc=False)
        return {"failed": got != want, "witness": {"dna": s, "start": start},
                "description": f"new get_code(1).translate({s!r}, {start}) = {got!r}; codon-by-codon lookup of dna[start:...] gives {want!r}"}
    return rep


def run(chk):
    chk.function(OLD, "GeneticCode.translate", "P")
    chk.function(NEW, "GeneticCode.translate", "P")
    chk.function(NEW, "GeneticCode.__getitem__", "F")
    chk.function(OLD, "GeneticCode.__getitem__", "F")
    only = getattr(chk, "only", None)
    if not only or "proof" in only:
        chk.guard(finite_obligations)
        chk.guard(frame_obligations)
        chk.guard(kmer_obligations)
        chk.discharge()
    chk.assume("bytes.translate / str slicing are pointwise (trusted): the translation of a sequence is the concatenation of "
               "the per-codon lookups of the segments proved here")
    chk.assume("the independent NCBI tables are speclib/c12_spec.py (standard code + documented reassignments, re-typed)")
    if (not only or "bounded" in only) and os.path.exists(os.path.join(os.path.dirname(__file__), "..", "bounded", "C12.py")):
        chk.bounded("bounded.C12")
    chk.level = "other"
    chk.explanation = ("code tables, stop sets, strand handling of single codons and complement tables proved by full finite "
                       "enumeration of the real functions; frame arithmetic of old/new translate proved for all lengths and "
                       "starts (smt); sequence/collection/alignment entry points and stop handling are bounded run-time contracts")
