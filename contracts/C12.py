"""C12 -- translation and complementing follow the genetic-code tables.

Proof tier:
* finite (full-domain enumeration of the *real* functions; a loop-free harness over a finite domain is a complete
  proof of that obligation): for all 27 NCBI codes x all 64 codons (+ gapped / degenerate codons): new and old
  ``GeneticCode.__getitem__``, ``is_stop``, single-codon ``translate`` on both strands equal the independent table
  (minus strand: table of the reverse complement); old == new; for every moltype ``complement`` maps each symbol to
  the symbol of the complemented set and is an involution; ``resolve_ambiguity`` / ``degenerate_from_seq`` inverse;
* smt (all integers): frame arithmetic -- old ``GeneticCode.translate``: the j-th codon is dna[start+3j : start+3j+3],
  there are (len-start)//3 of them, all inside the sequence; new ``GeneticCode.translate``: the segment handed to the
  codon lookup is dna[start : start + 3*((len-start)//3)].
Bounded tier: bounded/C12.py (all entry points on all short sequences).
"""
from __future__ import annotations

import itertools
import os

import z3

from pyvc import extract
from pyvc.dsl import And, Defs, fdiv
from pyvc.harness import cover_thunk, smt_thunk
from pyvc.loops import ArrV, LoopHooks, loop_nodes
from pyvc.objects import ClassHooks
from pyvc.symex import Engine, Opaque, Raise, Rec, SliceV, SymList, Unsupported, is_sym

OLD = "cogent3/core/genetic_code.py"
NEW = "cogent3/core/new_genetic_code.py"


# ------------------------------------------------------------------------------------------------ finite
def finite_obligations(chk):
    from speclib import c12_spec as SP

    def codes():
        return list(SP.CODE_IDS)

    def new_gc(g):
        from cogent3.core import new_genetic_code
        return new_genetic_code.get_code(g)

    def old_gc(g):
        from cogent3.core import genetic_code
        return genetic_code.get_code(g)

    def table_cases():
        for g in codes():
            for c in SP.CODONS:
                yield (g, c)

    def pred_new(case):
        g, c = case
        gc = new_gc(g)
        want = SP.TABLES[g][c]
        got = gc[c]
        if got != want:
            return f"new code {g}[{c}] = {got!r}, table says {want!r}"
        if gc.is_stop(c) != (want == "*"):
            return f"new code {g}.is_stop({c}) = {gc.is_stop(c)}"
        if gc.translate(c) != want:
            return f"new code {g}.translate({c!r}) = {gc.translate(c)!r}, table says {want!r}"
        cr = c.replace("T", "U")                       # RNA spelling of the same codon
        if gc[cr] != want or gc.is_stop(cr) != (want == "*"):
            return f"new code {g}: RNA spelling {cr!r}: lookup {gc[cr]!r}, is_stop {gc.is_stop(cr)}; table says {want!r}"
        rc = SP.rc_spec(c)
        if gc.translate(c, rc=True) != SP.TABLES[g][rc]:
            return f"new code {g}.translate({c!r}, rc=True) = {gc.translate(c, rc=True)!r}, table of rc {rc} says {SP.TABLES[g][rc]!r}"
        return True

    def pred_old(case):
        g, c = case
        gc = old_gc(g)
        want = SP.TABLES[g][c]
        if gc[c] != want:
            return f"old code {g}[{c}] = {gc[c]!r}, table says {want!r}"
        if gc.is_stop(c) != (want == "*"):
            return f"old code {g}.is_stop({c})"
        if gc.translate(c) != want:
            return f"old code {g}.translate({c!r}) = {gc.translate(c)!r}"
        cr = c.replace("T", "U")
        if gc[cr] != want or gc.is_stop(cr) != (want == "*"):
            return f"old code {g}: RNA spelling {cr!r}: lookup {gc[cr]!r}, is_stop {gc.is_stop(cr)}; table says {want!r}"
        if gc[c] != new_gc(g)[c]:
            return f"old and new code {g} disagree on {c}"
        return True
    chk.finite("core.new_genetic_code.GeneticCode/table==NCBI/all-codes-x-64-codons", table_cases, pred_new,
               function="core.new_genetic_code.GeneticCode.__getitem__/translate/is_stop",
               key_fn=lambda c: "C12/finite/new-table")
    chk.finite("core.genetic_code.GeneticCode/table==NCBI/all-codes-x-64-codons", table_cases, pred_old,
               function="core.genetic_code.GeneticCode.__getitem__/translate/is_stop",
               key_fn=lambda c: "C12/finite/old-table")

    def gap_cases():
        for g in codes():
            for c in ("---", "A--", "-CG", "NNN", "ANN", "RAY", "A-N"):
                yield (g, c)

    def pred_gap(case):
        g, c = case
        got = new_gc(g).translate(c)
        want = "-" if c == "---" else "X"
        # documented: a codon with a gap character is '-', with an ambiguity 'X', a mix is 'X'
        if "-" in c and c != "---":
            want = "-" if all(ch in "ACGT-" for ch in c) else "X"
        return True if got == want else f"new code {g}.translate({c!r}) = {got!r}, documented {want!r}"
    chk.finite("core.new_genetic_code.GeneticCode.translate/gapped-and-degenerate-codons", gap_cases, pred_gap,
               function="core.new_genetic_code.GeneticCode.translate", key_fn=lambda c: "C12/finite/gap-codons")

    def comp_cases():
        for mt in ("dna", "rna"):
            for new in (False, True):
                for sym in SP.symbol_sets(mt):
                    yield (mt, new, sym)

    def pred_comp(case):
        mt, new, sym = case
        if new:
            from cogent3.core import new_moltype
            m = new_moltype.get_moltype(mt)
        else:
            from cogent3 import get_moltype
            m = get_moltype(mt)
        want = SP.complement_symbol(sym, mt)
        got = m.complement(sym)
        if got != want:
            return f"{'new' if new else 'old'} {mt}.complement({sym!r}) = {got!r}, complemented set is {want!r}"
        if m.complement(got) != sym:
            return f"{'new' if new else 'old'} {mt}.complement is not an involution on {sym!r}"
        return True
    chk.finite("moltype.complement/every-IUPAC-symbol/old+new", comp_cases, pred_comp,
               function="core.moltype.MolType.complement / core.new_moltype.MolType.complement",
               key_fn=lambda c: "C12/finite/complement")


# ------------------------------------------------------------------------------------------------ frames (smt)
class SeqHooks(ClassHooks):
    """dna is an opaque string of symbolic length; slices are descriptors (parent, lo, hi) in parent coordinates"""

    def subscript(self, eng, obj, idx):
        if isinstance(obj, Rec):
            return ("aa", idx)                          # self[codon]: the table lookup (finite obligations)
        if isinstance(obj, Opaque) and obj.tag == "aa-str" and isinstance(idx, SliceV):
            return obj                                  # [::-1] of the minus-strand translation
        if isinstance(obj, Opaque) and obj.tag == "seq" and isinstance(idx, SliceV) and idx.step is None:
            from speclib.slices import py_slice_indices
            L = obj.attrs["length"]
            lo, hi = py_slice_indices(idx.start, idx.stop, 1, L)
            from pyvc.dsl import imax
            n = imax(hi - lo, 0)
            base = obj.attrs.get("base", 0)
            return Opaque("seq", length=n, base=base + lo, parent=obj.attrs.get("parent", obj))
        return super().subscript(eng, obj, idx)

    def call_method(self, eng, obj, meth, args, kw, env):
        if isinstance(obj, Rec) and meth == "__getitem__":
            return ("aa", args[0])                      # the table lookup: contract = finite obligations above
        if isinstance(obj, Opaque) and obj.tag == "codons" and meth == "to_indices":
            eng.state["to_indices_arg"] = args[0]
            return Opaque("indices", of=args[0])
        if isinstance(obj, Opaque) and obj.tag == "indices" and meth == "tobytes":
            return Opaque("bytes", of=obj.attrs["of"])
        if isinstance(obj, Rec) and meth in ("_translate_plus", "_translate_minus"):
            return Opaque("aa-bytes", strand=meth, of=args[0].attrs["of"])
        if isinstance(obj, Opaque) and obj.tag == "aa-bytes" and meth == "decode":
            return Opaque("aa-str", strand=obj.attrs["strand"], of=obj.attrs["of"])
        return super().call_method(eng, obj, meth, args, kw, env)

    def subscript_rev(self):
        pass

    def get_attr(self, eng, obj, attr):
        if isinstance(obj, Rec) and attr == "codons":
            return Opaque("codons")
        if isinstance(obj, Rec) and attr in ("_translate_plus", "_translate_minus"):
            return ("bound", obj, attr)                 # the converter taken as a value, called later
        return super().get_attr(eng, obj, attr)


def frame_obligations(chk):
    L, start = z3.Ints("L start")
    # ---- old translate
    fn = "core.genetic_code.GeneticCode.translate"
    funcs = {"translate": extract.get(OLD, "GeneticCodes.translate") if False else extract.get(OLD, "GeneticCode.translate")}
    hooks = SeqHooks(funcs, set())
    eng = Engine(funcs, hooks)
    dna = Opaque("seq", length=L)
    pre = [L >= 0, start >= 0]
    selfv = Rec("GeneticCode")
    paths = eng.run(lambda e: e.call("translate", dict(self=selfv, dna=dna, start=start)), pre)
    chk.obligation(f"{fn}/cover", "cover", cover_thunk(pre), function=fn)
    for k, p in enumerate(paths):
        if p.outcome == "abort":
            continue
        if p.outcome == "raise":
            goal = z3.And(z3.BoolVal(p.value == "ValueError"), L > 0, start >= L)   # "starts after end": only then
        elif p.value == "":
            goal = L == 0
        elif isinstance(p.value, tuple) and p.value[0] == "join" and isinstance(p.value[2], SymList):
            sl = p.value[2]
            el = sl.elem
            ok_shape = isinstance(el, tuple) and el[0] == "aa" and isinstance(el[1], Opaque) and el[1].tag == "seq"
            if not ok_shape:
                goal = z3.BoolVal(False)
            else:
                seg = el[1]
                Defs.push()
                want_count = fdiv(L - start, 3)
                defs, nz = Defs.pop()
                body = z3.And(sl.count == z3.If(L - start >= 0, want_count, 0),
                              z3.Implies(z3.And(0 <= sl.j, sl.j < sl.count, *sl.side),
                                         z3.And(seg.attrs["base"] == start + 3 * sl.j, seg.attrs["length"] == 3,
                                                seg.attrs["base"] + 3 <= L)))
                goal = z3.Implies(z3.And(defs), body) if defs else body
        else:
            goal = z3.BoolVal(False)
        chk.obligation(f"{fn}/post.codon-j-is-dna[start+3j:start+3j+3]/path={k}", "post", smt_thunk(p.pc, goal, 30),
                       function=fn, replayer=_replay_old, key=f"C12/{fn}/post.frames")
    # ---- new translate: trimming arithmetic
    fn = "core.new_genetic_code.GeneticCode.translate"
    funcs = {"translate": extract.get(NEW, "GeneticCode.translate")}
    hooks = SeqHooks(funcs, set())
    for rc in (False, True):
        eng = Engine(funcs, hooks)
        dna = Opaque("seq", length=L)
        pre = [L >= 0, start >= 0, start <= L]
        paths = eng.run(lambda e: e.call("translate", dict(self=Rec("GeneticCode"), dna=dna, start=start, rc=rc)), pre)
        chk.obligation(f"{fn}/cfg=(rc={rc})/cover", "cover", cover_thunk(pre), function=fn)
        for k, p in enumerate(paths):
            if p.outcome == "abort":
                continue
            seg = p.state.get("to_indices_arg")
            if p.outcome != "return" or not (isinstance(seg, Opaque) and seg.tag == "seq"):
                goal = z3.BoolVal(False)
            else:
                Defs.push()
                ncod = fdiv(L - start, 3)
                defs, nz = Defs.pop()
                base = seg.attrs.get("base", 0)
                body = z3.And(base == start, seg.attrs["length"] == 3 * ncod)
                goal = z3.Implies(z3.And(defs), body) if defs else body
                strand_ok = isinstance(p.value, Opaque) and p.value.attrs.get("strand") == ("_translate_minus" if rc else "_translate_plus") \
                    or (isinstance(p.value, tuple))
                if not strand_ok:
                    goal = z3.BoolVal(False)
            chk.obligation(f"{fn}/cfg=(rc={rc})/post.segment==dna[start:start+3*((L-start)//3)]/path={k}", "post",
                           smt_thunk(p.pc, goal, 30), function=fn, replayer=_replay_new(rc), key=f"C12/{fn}/post.trim")


# ------------------------------------------------------------------------------------------------ k-mer coordinates
class Vec:
    """a numpy vector of fixed length with symbolic integer entries"""

    def __init__(self, items):
        self.items = list(items)


class KmerHooks(ClassHooks):
    def global_name(self, eng, name):
        if name == "numpy":
            return Opaque("module", modname="numpy")
        return super().global_name(eng, name)

    def call_method(self, eng, obj, meth, args, kw, env):
        if isinstance(obj, Opaque) and obj.tag == "module":
            if meth == "array":
                return Vec(args[0])
            if meth == "zeros":
                return Vec([0] * args[0])
            if meth == "divmod":
                q = eng.floordiv(args[0], args[1])
                return (q, args[0] - q * args[1])
        if isinstance(obj, Vec) and meth == "sum":
            out = 0
            for x in obj.items:
                out = out + x
            return out
        if isinstance(obj, Vec) and meth == "__len__":
            return len(obj.items)
        return super().call_method(eng, obj, meth, args, kw, env)

    def subscript(self, eng, obj, idx):
        if isinstance(obj, Vec):
            if isinstance(idx, tuple) and idx and isinstance(idx[0], str) and idx[0] == "store":
                obj.items[idx[1]] = idx[2]
                return None
            return obj.items[idx]
        return super().subscript(eng, obj, idx)

    def get_attr(self, eng, obj, attr):
        if isinstance(obj, Vec) and attr == "dtype":
            return Opaque("dtype")
        return super().get_attr(eng, obj, attr)


def _patch_vec_binop(eng):
    orig = eng.binop
    import ast as _ast

    def binop(op, l, r):
        if isinstance(l, Vec) and isinstance(r, Vec) and isinstance(op, _ast.Mult):
            return Vec([a * b for a, b in zip(l.items, r.items)])
        return orig(op, l, r)
    eng.binop = binop


def kmer_obligations(chk):
    """mixed-radix encode/decode of a codon (k = 3 is fixed by the property): index_to_coord(coord_to_index(c)) == c,
    the index is inside [0, n**3), for every alphabet size n >= 2"""
    NA = "cogent3/core/new_alphabet.py"
    fn = "core.new_alphabet.coord_to_index/index_to_coord"
    funcs = {n: extract.get(NA, n) for n in ("coord_conversion_coeffs", "coord_to_index", "index_to_coord")}
    for q in funcs:
        chk.function(NA, q, "P")
    n = z3.Int("nstates")
    c = z3.Ints("c0 c1 c2")
    pre = [n >= 2] + [z3.And(0 <= x, x < n) for x in c]
    hooks = KmerHooks(funcs, set())
    eng = Engine(funcs, hooks)
    _patch_vec_binop(eng)

    def entry(e):
        coeffs = e.call("coord_conversion_coeffs", dict(num_states=n, k=3, dtype=None))
        idx = e.call("coord_to_index", dict(coord=Vec(c), coeffs=coeffs))
        back = e.call("index_to_coord", dict(index=idx, coeffs=coeffs))
        return (coeffs, idx, back)
    try:
        paths = eng.run(entry, pre)
    except Unsupported as u:
        chk.undecided.append(f"{fn}: UNSUPPORTED {u}")
        return
    chk.obligation(f"{fn}/cover", "cover", cover_thunk(pre), function=fn)
    for k, p in enumerate(paths):
        if p.outcome != "return":
            goal = z3.BoolVal(False)
        else:
            coeffs, idx, back = p.value
            goal = z3.And(coeffs.items[0] == n * n, coeffs.items[1] == n, coeffs.items[2] == 1,
                          idx == c[0] * n * n + c[1] * n + c[2], 0 <= idx, idx < n * n * n,
                          *[b == x for b, x in zip(back.items, c)])
        chk.obligation(f"{fn}/post.decode(encode(c))==c/path={k}", "post", smt_thunk(p.pc, goal, 60), function=fn,
                       key=f"C12/{fn}/post", replayer=_replay_kmer)


# ------------------------------------------------------------------------------------------------ k-mer indices of a whole sequence
class KSeqHooks(LoopHooks, KmerHooks):
    """seq / result are symbolic arrays of any length; a slice of width 3 is the vector of its three reads"""

    def __init__(self, funcs, specs):
        KmerHooks.__init__(self, funcs, set())
        self.loop_specs = specs
        self.fn_nodes = funcs

    def call_method(self, eng, obj, meth, args, kw, env):
        if isinstance(obj, ArrV) and meth == "__len__":
            return obj.shape[0]
        if isinstance(obj, Opaque) and obj.tag == "module" and meth == "ceil":
            x = args[0]
            if is_sym(x) and z3.is_real(x):
                return -z3.ToInt(-x)                    # ceil(x) == -floor(-x), an integer
            if is_sym(x):
                return x
            import math
            return math.ceil(x)
        if isinstance(obj, Vec) and meth == "all":
            return z3.And([b if is_sym(b) else z3.BoolVal(bool(b)) for b in obj.items])
        if isinstance(obj, Vec) and meth == "max":
            m = obj.items[0]
            for x in obj.items[1:]:
                m = z3.If(x > m, x, m)
            return m
        return super().call_method(eng, obj, meth, args, kw, env)

    def subscript(self, eng, obj, idx):
        if isinstance(obj, ArrV):
            if isinstance(idx, tuple) and idx and isinstance(idx[0], str) and idx[0] == "store":
                obj.write(eng, idx[1], idx[2])
                return None
            if isinstance(idx, SliceV):
                if idx.step is not None:
                    raise Unsupported("strided array slice")
                width = z3.simplify(idx.stop - idx.start) if is_sym(idx.stop - idx.start) else idx.stop - idx.start
                if is_sym(width):
                    if not z3.is_int_value(width):
                        raise Unsupported("array slice of symbolic width")
                    width = width.as_long()
                # numpy clips slices; the contract's loop keeps start + width <= len(seq), which read() demands
                return Vec([obj.read(eng, idx.start + t) for t in range(width)])
            return obj.read(eng, idx)
        return super().subscript(eng, obj, idx)


def _patch_vec_cmp(eng):
    orig = eng.cmp
    import ast as _ast

    def cmp(op, l, r):
        if isinstance(r, Vec) and not isinstance(l, Vec):
            return Vec([orig(op, l, x) for x in r.items])
        if isinstance(l, Vec) and not isinstance(r, Vec):
            return Vec([orig(op, x, r) for x in l.items])
        return orig(op, l, r)
    eng.cmp = cmp


def kmer_seq_obligations(chk):
    """seq_to_kmer_indices for codons (k = 3), sequences of every length: cell r of the result is the mixed-radix index
    of seq[r*step : r*step+3] when all three are canonical states, and a value outside [0, n**3) otherwise; the number
    of cells written is the number of k-mers; later cells are untouched; ValueError exactly when the result is too short"""
    NA = "cogent3/core/new_alphabet.py"
    name = "seq_to_kmer_indices"
    fn = f"core.new_alphabet.{name}"
    funcs = {n_: extract.get(NA, n_) for n_ in ("coord_conversion_coeffs", "coord_to_index", name)}
    chk.function(NA, name, "P")
    if len(loop_nodes(funcs[name])) != 1:
        chk.undecided.append(f"{fn}: expected one loop")
        return
    n, L, Rn = z3.Ints("nstates L R")
    g, gi = z3.Ints("gap_char_index gap_index")
    r0 = z3.Int("r0")
    for indep in (True, False):
        for gapmode in (False, True):
            step = 3 if indep else 1
            seq = ArrV.fresh("seq", (L,), elem=z3.IntSort())
            res0 = z3.Const("result0", z3.ArraySort(z3.IntSort(), z3.IntSort()))
            q = z3.Int("q")
            pre = [n >= 2, L >= 0, Rn >= 0, z3.ForAll([q], z3.Implies(z3.And(0 <= q, q < L), seq.at(q) >= 0))]
            if gapmode:
                pre += [g > 0, g >= n, gi == n * n * n]          # as KmerAlphabet.to_indices calls it
            cfg = f"(independent_kmer={indep},gaps={'on' if gapmode else 'off'})"

            def spec_cell(r):
                i = r * step
                a, b, c = seq.at(i), seq.at(i + 1), seq.at(i + 2)
                canon = z3.And(a < n, b < n, c < n)
                mx = z3.If(b > a, b, a)
                mx = z3.If(c > mx, c, mx)
                if gapmode:
                    other = z3.If(mx == g, gi, gi + 1)
                else:
                    other = n * n * n
                return canon, a * n * n + b * n + c, other

            def inv(env, j, step=step, spec_cell=spec_cell):
                res = env["result"]
                canon, idx, other = spec_cell(r0)
                return z3.And(z3.Implies(z3.And(0 <= r0, r0 < j), res.at(r0) == z3.If(canon, idx, other)),
                              z3.Implies(r0 >= j, res.at(r0) == z3.Select(res0, r0)))

            spec = dict(invariant=inv, modifies=["result"])
            hooks = KSeqHooks(funcs, {(name, 0): spec})
            eng = Engine(funcs, hooks, prune_logic=None, prune_ms=500)
            _patch_vec_binop(eng)
            _patch_vec_cmp(eng)

            def entry(e, indep=indep, gapmode=gapmode, seq=seq, res0=res0):
                e.state["current_function"] = name
                coeffs = e.call("coord_conversion_coeffs", dict(num_states=n, k=3, dtype=None))
                result = ArrV(res0, (Rn,), z3.IntSort(), name="result")
                e.state["result"] = result
                kw = dict(seq=seq, result=result, coeffs=coeffs, num_states=n, k=3, independent_kmer=indep)
                if gapmode:
                    kw.update(gap_char_index=g, gap_index=gi)
                else:
                    kw.update(gap_char_index=-1, gap_index=-1)
                return e.call(name, kw)
            try:
                paths = eng.run(entry, pre)
            except Unsupported as u:
                chk.undecided.append(f"{fn}/cfg={cfg}: UNSUPPORTED {u}")
                continue
            base = f"{fn}/cfg={cfg}"
            chk.obligation(f"{base}/cover", "cover", cover_thunk(pre + [L >= 3, Rn >= L]), function=fn)
            from pyvc.dsl import Defs as _D
            from speclib.slices import len_range
            _D.push()
            count = len_range(0, L - 3 + 1, step)
            defs, _nz = _D.pop()
            n_ret = 0
            for k_, p in enumerate(paths):
                for j_, nm in enumerate(getattr(p, "inline", [])):
                    kind = nm.split(":")[0]
                    chk.discharged_inline(f"{base}/{nm}/path={k_}.{j_}", kind if kind.startswith("inv") else "noexcept", function=fn)
                for nm, pc, cond in p.obligations:
                    kind = nm.split(":")[0]
                    chk.obligation(f"{base}/{nm}/path={k_}", kind if kind.startswith("inv") else "noexcept",
                                   smt_thunk(pc, cond, timeout=30, logic=None, instantiate=(2, [L, Rn])), function=fn,
                                   key=f"C12/{fn}/{nm.split('#')[0]}", replayer=_replay_kmer_seq)
                if p.outcome == "abort":
                    continue
                if p.outcome == "raise":
                    # ValueError exactly when the result array cannot hold one cell per k-mer
                    goal = z3.And(z3.BoolVal(p.value == "ValueError"), z3.Implies(z3.And(defs), Rn < count))
                    chk.obligation(f"{base}/post.raises-only-when-result-too-short/path={k_}", "post",
                                   smt_thunk(p.pc, goal, 30, logic=None), function=fn, key=f"C12/{fn}/post.raise",
                                   replayer=_replay_kmer_seq)
                    continue
                n_ret += 1
                res = p.value
                if not isinstance(res, ArrV):
                    goal = z3.BoolVal(False)
                else:
                    canon, idx, other = spec_cell(r0)
                    goal = z3.Implies(z3.And(defs), z3.And(
                        Rn >= count,
                        z3.Implies(z3.And(0 <= r0, r0 < count), z3.And(
                            res.at(r0) == z3.If(canon, idx, other),
                            z3.Implies(canon, z3.And(0 <= res.at(r0), res.at(r0) < n * n * n)),
                            z3.Implies(z3.Not(canon), res.at(r0) >= n * n * n))),
                        z3.Implies(r0 >= count, res.at(r0) == z3.Select(res0, r0))))
                chk.obligation(f"{base}/post.cell-r==index-of-kmer-r/path={k_}", "post",
                               smt_thunk(p.pc, goal, 60, logic=None, instantiate=(2, [L, Rn])), function=fn,
                               key=f"C12/{fn}/post", replayer=_replay_kmer_seq)
            if n_ret == 0:
                chk.error(f"{base}: no returning path")


def _replay_kmer_seq(model):
    import itertools

    import numpy
    from cogent3.core import new_alphabet as NA
    n = 4
    coeffs = NA.coord_conversion_coeffs(n, 3, dtype=numpy.int64)
    for L in range(0, 8):
        for vals in itertools.product((0, 1, 3, 4, 5), repeat=L) if L <= 5 else [tuple((i * 3 + 1) % 6 for i in range(L))]:
            seq = numpy.array(vals, dtype=numpy.uint8)
            for indep in (True, False):
                step = 3 if indep else 1
                count = len(range(0, L - 2, step))
                for gap in (False, True):
                    kw = dict(gap_char_index=4, gap_index=n ** 3) if gap else {}
                    if count >= 1:
                        # a result array that cannot hold one cell per k-mer must be refused (numba does not check bounds)
                        try:
                            NA.seq_to_kmer_indices(seq, numpy.zeros(count + 7, dtype=numpy.int64)[:count - 1], coeffs, n, 3,
                                                   independent_kmer=indep, **kw)
                            return {"failed": True, "witness": {"seq": list(vals), "independent_kmer": indep, "result_len": count - 1},
                                    "description": f"seq_to_kmer_indices accepts a result array of length {count - 1} for {count} k-mers "
                                                   f"(seq {list(vals)}, independent_kmer={indep}) and writes past its end"}
                        except ValueError:
                            pass
                    result = numpy.full(count + 1, 77, dtype=numpy.int64)
                    try:
                        got = NA.seq_to_kmer_indices(seq, result, coeffs, n, 3, independent_kmer=indep, **kw)
                    except Exception as ex:
                        return {"failed": True, "witness": {"seq": list(vals), "independent_kmer": indep, "gap": gap},
                                "description": f"seq_to_kmer_indices({list(vals)}, independent_kmer={indep}, gaps={gap}) raises {type(ex).__name__}: {ex}"}
                    want = []
                    for r in range(count):
                        seg = vals[r * step:r * step + 3]
                        if all(x < n for x in seg):
                            want.append(seg[0] * 16 + seg[1] * 4 + seg[2])
                        elif gap and max(seg) == 4:
                            want.append(64)
                        else:
                            want.append(65 if gap else 64)
                    want.append(77)
                    if [int(x) for x in got] != want:
                        return {"failed": True, "witness": {"seq": list(vals), "independent_kmer": indep, "gap": gap},
                                "description": f"seq_to_kmer_indices({list(vals)}, independent_kmer={indep}, gaps={gap}) = {[int(x) for x in got]}, spec {want}"}
    return {"failed": False, "description": "all sequences over {0,1,3,4,5} up to length 5 (+ samples to 7) agree with the spec"}


def _replay_kmer(model):
    import itertools

    import numpy
    from cogent3.core import new_alphabet as NA
    for n in (2, 4, 5):
        coeffs = NA.coord_conversion_coeffs(n, 3, dtype=numpy.int64)
        for cc in itertools.product(range(n), repeat=3):
            idx = NA.coord_to_index(numpy.array(cc, dtype=numpy.int64), coeffs)
            back = NA.index_to_coord(idx, coeffs)
            if idx != cc[0] * n * n + cc[1] * n + cc[2] or tuple(int(x) for x in back) != cc:
                return {"failed": True, "witness": {"n": n, "coord": cc},
                        "description": f"n={n}: coord_to_index({cc}) = {idx}, index_to_coord gives {list(back)}"}
    return {"failed": False, "description": "all codon coordinates for n in {2,4,5} encode/decode correctly"}


def _replay_old(model):
    from cogent3.core.genetic_code import get_code
    L, start = model.get("L", 0), model.get("start", 0)
    s = "".join("ACGT"[(i * 7 + i // 3) % 4] for i in range(max(L, 0)))
    gc = get_code(1)
    want = "".join(gc[s[i:i + 3]] for i in range(start, start + 3 * ((L - start) // 3), 3)) if L - start >= 0 else None
    try:
        got = gc.translate(s, start)
    except ValueError:
        got = "ValueError"
    ok = (got == want) or (got == "ValueError" and L > 0 and start >= L)
    return {"failed": not ok, "witness": {"dna": s, "start": start},
            "description": f"old get_code(1).translate({s!r}, {start}) = {got!r}; codon-by-codon lookup gives {want!r}"}


def _replay_new(rc):
    def rep(model):
        from cogent3.core.new_genetic_code import get_code
        L, start = model.get("L", 0), model.get("start", 0)
        s = "".join("ACGT"[(i * 7 + i // 3) % 4] for i in range(max(L, 0)))
        gc = get_code(1)
        seg = s[start:start + 3 * ((L - start) // 3)]
        want = "".join(gc[seg[i:i + 3]] for i in range(0, len(seg), 3))
        got = gc.translate(s, start, rc=False)
        return {"failed": got != want, "witness": {"dna": s, "start": start},
                "description": f"new get_code(1).translate({s!r}, {start}) = {got!r}; codon-by-codon lookup of dna[start:...] gives {want!r}"}
    return rep


def run(chk):
    chk.function(OLD, "GeneticCode.translate", "P")
    chk.function(NEW, "GeneticCode.translate", "P")
    chk.function(NEW, "GeneticCode.__getitem__", "F")
    chk.function(OLD, "GeneticCode.__getitem__", "F")
    only = getattr(chk, "only", None)
    if not only or "proof" in only:
        chk.guard(finite_obligations)
        chk.guard(frame_obligations)
        chk.guard(kmer_obligations, fallback=[_replay_kmer])
        chk.guard(kmer_seq_obligations, fallback=[_replay_kmer_seq])
        chk.discharge()
    chk.assume("bytes.translate / str slicing are pointwise (trusted): the translation of a sequence is the concatenation of "
               "the per-codon lookups of the segments proved here")
    chk.assume("the independent NCBI tables are speclib/c12_spec.py (standard code + documented reassignments, re-typed)")
    if (not only or "bounded" in only) and os.path.exists(os.path.join(os.path.dirname(__file__), "..", "bounded", "C12.py")):
        chk.bounded("bounded.C12")
    chk.level = "other"
    chk.explanation = ("code tables, stop sets, strand handling of single codons and complement tables proved by full finite "
                       "enumeration of the real functions; frame arithmetic of old/new translate proved for all lengths and "
                       "starts (smt); sequence/collection/alignment entry points and stop handling are bounded run-time contracts")
