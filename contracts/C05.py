"""C05 -- substitution processes are valid, calibrated Markov processes.

Deductive tier: the algebraic core of ``calcQ`` (zero row sums, preserved off-diagonal sign, unit calibration at the
motif probabilities; stationarity / detailed balance for symmetric exchangeabilities) is a short list of Lean 4 +
Mathlib lemmas over ``Matrix (Fin n) (Fin n) Real`` (lean/C05_lemmas.lean.tmpl, both tiers: ~75 s cold, ~7 s warm), stated
for a term extracted mechanically from the four-line numpy body when it stays inside the translatable table.
Everything numerical -- P(t) row-stochastic, P(0)=I, P(s+t)=P(s)P(t), agreement of the expm back ends -- is numerical
analysis of floating-point expm/eig and is decided only by bounded run-time contracts (bounded/C05.py, tol 1e-8)."""
import os


def run(chk):
    only = getattr(chk, "only", None)
    if not only or "proof" in only:
        try:
            from contracts import C05_lean
            chk.guard(C05_lean.run_lean)
        except ImportError:
            chk.notes.append("Lean lemmas not built in this round")
        from contracts import C05_named
        chk.guard(C05_named.run_named, getattr(chk, "tier", "quick") == "thorough", fallback=C05_named.replayers())
        chk.guard(C05_named.run_closed_form, fallback=[C05_named._replay_closed_form])
        chk.guard(C05_named.run_rates, getattr(chk, "tier", "quick") == "thorough", fallback=C05_named.rate_replayers())
        chk.discharge(workers=1)
    if not only or "bounded" in only:
        chk.bounded("bounded.C05")
    chk.assume("floating-point accuracy of expm/eig is not decided by any proof; tolerance 1e-8 in the bounded tier")
    chk.level = "other" if chk.obligations else "exploration"
    chk.explanation = ("bounded run-time contracts on every supplied model x parameter grid x lengths x expm settings; "
                       "algebraic calcQ lemmas (zero row sums, off-diagonal sign, calibration, stationarity, detailed balance) in Lean 4 + Mathlib over terms translated from both calcQ bodies; "
                       "the same clauses for every named nucleotide (thorough: protein) model by running the real calcQ on symbolic reals (identities / sign certificates, sympy)")
