"""C20 -- tables follow the list-of-rows model and survive delimited round-trips.

No proof tier: ``Table`` is numpy-column storage behind a row API; the delimited writer's quoting rule and
``cast_str_to_array`` are string / eval code outside the VC generator's subset (DESIGN.md section 7).
Bounded tier only (bounded/C20.py); level = exploration, proved = 0."""


def run(chk):
    chk.bounded("bounded.C20")
    chk.level = "exploration"
    chk.explanation = "bounded run-time contracts only; nothing proved"
    chk.assume("no deductive obligation: numpy column store and eval-based cell parsing are outside the VC generator's subset")
