"""C19 -- file writes are all-or-nothing.

Proof tier: exception-flow symbolic execution of the *real* ``util.io.atomic_write`` protocol
(``__enter__``, ``write``, ``__exit__``, ``_close_rename_standard``, ``close``) and of
``format.alignment.save_to_filename`` over a ghost file system, with trusted contracts (incl. exceptional
outcomes) for the file-system externals.  The crash invariant is asserted at every external call boundary of
every path.  All paths over the finite ghost state are enumerated, so each obligation is a full-domain one.
Writer call sites: syntactic obligation that every ``atomic_write(...)`` is the context expression of a
``with`` (so ``__exit__`` is reached on every path).
Bounded tier: bounded/C19.py (fault injection on the real file system, apply_to resume).
"""
from __future__ import annotations

import ast
import os

from pyvc import extract
from pyvc.objects import ClassHooks
from pyvc.symex import Engine, Opaque, Raise, Rec, Unsupported

IO = "cogent3/util/io.py"
FMT = "cogent3/format/alignment.py"
ABSENT, OLD, NEW, PARTIAL, EMPTY = "absent", "old", "new", "partial", "empty"

EXTERNAL_CONTRACTS = [
    "file.close(): succeeds, or raises OSError leaving the file system unchanged",
    "file.write(): succeeds, or raises OSError (temporary file then holds partial content)",
    "open_(tmp): creates the temporary file, or raises OSError leaving the file system unchanged",
    "Path.unlink(): raises FileNotFoundError iff the path is absent; otherwise removes it, or raises "
    "PermissionError leaving the file system unchanged",
    "Path.rename/replace(dst): atomic (POSIX rename(2)): either OSError and nothing changed, or dst holds the "
    "source content and the source is gone; never an intermediate state",
    "shutil.rmtree(dir): removes the directory and its content, or raises OSError having removed nothing (with "
    "ignore_errors=True: never raises, may leave the directory)",
    "os.unlink(path): as Path.unlink",
    "a kill (SIGKILL / power loss) can happen only *between* external calls or inside one with the atomicity "
    "stated above; it runs no further Python code (no finally blocks)",
]


class FSHooks(ClassHooks):
    """ghost file system in eng.state['fs']; every external call is a crash point"""

    def fs(self, eng):
        return eng.state["fs"]

    def crashpoint(self, eng, label):
        fs = self.fs(eng)
        ok = fs["dest"] in (eng.state["dest0"], NEW)
        n_ext = len([t for t in eng.trace if t[0] != "formatter"])
        eng.state["checks"].append((f"crash@{label}", ok, dict(fs), n_ext))

    def ext(self, eng, name, target, outcomes):
        """outcomes: list of (label, effect) -- effect(fs) mutates or raises Raise"""
        self.crashpoint(eng, f"before:{name}")
        i = eng.choose(len(outcomes), name) if len(outcomes) > 1 else 0
        label, effect = outcomes[i]
        eng.trace.append((name, label))
        if label != "ok" and not label.startswith("silently") and not label.startswith("expected-"):
            eng.state["first_failure"] = eng.state.get("first_failure") or (name, eng.state.get("committed", False))
        try:
            effect(self.fs(eng))
        finally:
            self.crashpoint(eng, f"after:{name}:{label}")

    # ---- externals on paths / files
    def call_method(self, eng, obj, meth, args, kw, env):
        if isinstance(obj, Opaque) and obj.tag == "path":
            nm = obj.attrs["name"]
            if meth == "unlink":
                return self.ext_unlink(eng, nm, "Path.unlink")
            if meth in ("rename", "replace"):
                dst = args[0].attrs["name"]

                def ok(fs, nm=nm, dst=dst):
                    fs[dst] = fs[nm]
                    fs[nm] = ABSENT
                    if dst == "dest":
                        eng.state["committed"] = True

                def fail(fs):
                    raise Raise("OSError")
                return self.ext(eng, f"Path.{meth}", nm, [("ok", ok), ("OSError", fail)])
            if meth == "exists":
                return self.fs(eng)[nm] != ABSENT
            if meth == "expanduser":
                return obj
        if isinstance(obj, Opaque) and obj.tag == "file":
            if meth == "close":
                def ok(fs):
                    pass

                def fail(fs):
                    raise Raise("OSError")
                if eng.state.get("file_closed"):
                    return None  # closing twice is a no-op in CPython
                r = self.ext(eng, "file.close", "tmp", [("ok", ok), ("OSError", fail)])
                eng.state["file_closed"] = True
                return r
            if meth == "write":
                def ok(fs):
                    fs["tmp"] = NEW

                def fail(fs):
                    fs["tmp"] = PARTIAL
                    raise Raise("OSError")
                return self.ext(eng, "file.write", "tmp", [("ok", ok), ("OSError", fail)])
        if isinstance(obj, Opaque) and obj.tag == "module":
            if obj.attrs.get("modname") == "shutil" and meth == "rmtree":
                return self.ext_rmtree(eng, args, kw)
            if obj.attrs.get("modname") == "os" and meth == "unlink":
                t = args[0]
                return self.ext_unlink(eng, t.attrs["name"] if isinstance(t, Opaque) else "dest", "os.unlink")
        if isinstance(obj, Rec) and meth == "_close_func":
            target = obj.fields["_close_func"]
            return super().call_method(eng, obj, target, args, kw, env)
        return super().call_method(eng, obj, meth, args, kw, env)

    def ext_unlink(self, eng, nm, label):
        if self.fs(eng)[nm] == ABSENT:
            def missing(fs):
                raise Raise("FileNotFoundError")
            # Path.unlink on an absent path raises FileNotFoundError: the contract's normal outcome, not a fault
            return self.ext(eng, label, nm, [("expected-FileNotFoundError", missing)])

        def ok(fs):
            fs[nm] = ABSENT

        def perm(fs):
            raise Raise("PermissionError")
        return self.ext(eng, label, nm, [("ok", ok), ("PermissionError", perm)])

    def ext_rmtree(self, eng, args, kw):
        ignore = kw.get("ignore_errors", args[1] if len(args) > 1 else False)

        def ok(fs):
            fs["tmp"] = ABSENT
            fs["tmpdir"] = ABSENT

        def fail(fs):
            eng.state["rmtree_failed"] = True
            raise Raise("OSError")

        def silent(fs):
            eng.state["rmtree_failed"] = True
        outs = [("ok", ok), ("silently-failed", silent)] if ignore is True else [("ok", ok), ("OSError", fail)]
        return self.ext(eng, "shutil.rmtree", "tmpdir", outs)

    def call_name(self, eng, name, args, kw, env):
        if name == "Path":
            if isinstance(args[0], Opaque) and args[0].tag == "path":
                return args[0]
            raise Unsupported("Path of non-path")
        if name == "open_":
            def ok(fs):
                fs["tmp"] = EMPTY

            def fail(fs):
                raise Raise("OSError")
            self.ext(eng, "open_", "tmp", [("ok", ok), ("OSError", fail)])
            return Opaque("file")
        if name == "atomic_write":
            return new_writer(eng)
        if name == "write_alignment_to_file":
            # trusted contract of the formatter: either formats and writes everything through f, or raises
            f = args[0]
            c = eng.choose(3, "formatter")
            if c == 1:
                eng.trace.append(("formatter", "raises-before-write"))
                eng.state["first_failure"] = eng.state.get("first_failure") or ("formatter", False)
                raise Raise("FileFormatError")
            self.call_method(eng, f, "write", [Opaque("text")], {}, env)
            if c == 2:
                eng.trace.append(("formatter", "raises-after-write"))
                self.fs(eng)["tmp"] = PARTIAL
                eng.state["first_failure"] = eng.state.get("first_failure") or ("formatter", False)
                raise Raise("ValueError")
            self.call_method(eng, f, "close", [], {}, env)
            return None
        return super().call_name(eng, name, args, kw, env)

    def get_attr(self, eng, obj, attr):
        if isinstance(obj, Opaque) and obj.tag == "path" and attr == "parent":
            if obj.attrs["name"] == "tmp":
                return eng.state["paths"]["tmpdir"]
            raise Unsupported("parent of " + obj.attrs["name"])
        return super().get_attr(eng, obj, attr)

    def global_name(self, eng, name):
        if name in ("shutil", "os", "contextlib"):
            return Opaque("module", modname=name)
        if name in ("FileFormatError",):
            return Raise(name)
        return super().global_name(eng, name)

    # ---- `with atomic_write(...) as f:` runs the real __enter__/__exit__
    def with_enter(self, eng, ctx, env):
        if isinstance(ctx, Rec):
            return super().call_method(eng, ctx, "__enter__", [], {}, env)
        raise Unsupported("with on non-record")

    def with_exit(self, eng, ctx, exc, env):
        et = None if exc is None else Opaque("exctype", kind=exc.kind)
        r = super().call_method(eng, ctx, "__exit__", [et, None, None], {}, env)
        return bool(r) if isinstance(r, bool) else False


def new_writer(eng):
    paths = eng.state["paths"]
    return Rec("atomic_write", _file=None, _tmppath=paths["tmp"], _path=paths["dest"], _mode="w", _encoding=None,
               _in_zip=None, _cmp=None, succeeded=None, _close_func="_close_rename_standard")


def load():
    funcs, props = extract.class_functions(IO, "atomic_write")
    funcs["save_to_filename"] = extract.get(FMT, "save_to_filename")
    return funcs, props


def init_state(eng, dest0):
    eng.state["fs"] = {"dest": dest0, "tmp": ABSENT, "tmpdir": "dir"}
    eng.state["dest0"] = dest0
    eng.state["checks"] = []
    eng.state["paths"] = {k: Opaque("path", name=k) for k in ("dest", "tmp", "tmpdir")}


def scenario_with(eng, hooks, body):
    """with atomic_write(dest) as f: <body>   -- body in {ok, raises-before-write, raises-after-partial-write}"""
    w = new_writer(eng)
    f = hooks.with_enter(eng, w, {})
    try:
        if body == "raises-before-write":
            eng.state["first_failure"] = ("with-body", False)
            raise Raise("ValueError")
        hooks.call_method(eng, f, "write", [Opaque("text")], {}, {})
        if body == "raises-after-partial-write":
            eng.state["fs"]["tmp"] = PARTIAL
            eng.state["first_failure"] = eng.state.get("first_failure") or ("with-body", False)
            raise Raise("ValueError")
    except Raise as r:
        if not hooks.with_exit(eng, w, r, {}):
            raise
        return
    hooks.with_exit(eng, w, None, {})


def scenario_write_close(eng, hooks):
    """w = atomic_write(dest); w.write(text); w.close()   (the non-with protocol used by Table.write)"""
    w = new_writer(eng)
    hooks.call_method(eng, w, "write", [Opaque("text")], {}, {})
    hooks.call_method(eng, w, "close", [], {}, {})


def scenario_save(eng, hooks):
    eng.call("save_to_filename", dict(alignment=Opaque("aln"), filename=eng.state["paths"]["dest"],
                                     format=Opaque("format"), kw={}))


SCENARIOS = {
    "with/body-ok": lambda e, h: scenario_with(e, h, "ok"),
    "with/body-raises-before-write": lambda e, h: scenario_with(e, h, "raises-before-write"),
    "with/body-raises-after-partial-write": lambda e, h: scenario_with(e, h, "raises-after-partial-write"),
    "write+close": scenario_write_close,
    "save_to_filename": scenario_save,
}


def explore(scen, dest0):
    funcs, props = load()
    hooks = FSHooks(funcs, props)
    eng = Engine(funcs, hooks)

    def entry(e):
        init_state(e, dest0)
        SCENARIOS[scen](e, hooks)
    return eng.run(entry, [])


def classify(p, dest0):
    """obligation results of one path: list of (clause, ok, info, point)"""
    st = p.state
    fs = st["fs"]
    out = []
    broken = False
    for c, ok, snap, n_ext in st["checks"]:
        # the crash invariant is charged to the *first* point of a path where it breaks (later points inherit it)
        out.append((c, ok or broken, snap, n_ext))
        broken = broken or not ok
    ff = st.get("first_failure")
    clean = fs["tmp"] == ABSENT and fs["tmpdir"] == ABSENT
    if p.outcome == "return" and ff is None:
        out.append(("normal-exit: dest==new and no temporary files", fs["dest"] == NEW and clean, dict(fs), None))
    else:
        # a handled failure: exception in the with-body / formatter, or an OSError from an external call
        name, committed = ff if ff else ("?", False)
        want = NEW if committed else dest0
        out.append((f"handled-failure: dest unchanged when the failure precedes the commit, new after it ({name})",
                    fs["dest"] == want, dict(fs), None))
        out.append(("handled-failure: no temporary files left (unless rmtree itself failed)",
                    clean or st.get("rmtree_failed", False), dict(fs), None))
        out.append(("handled-failure: the failure is reported (an exception propagates)", p.outcome == "raise",
                    p.outcome, None))
    return out


def run_proof(chk):
    for scen in SCENARIOS:
        for dest0 in (OLD, ABSENT):
            fn = "util.io.atomic_write" if scen != "save_to_filename" else "format.alignment.save_to_filename"
            base = f"{fn}/{scen}/dest0={dest0}"
            try:
                paths = explore(scen, dest0)
            except Unsupported as u:
                chk.undecided.append(f"{base}: UNSUPPORTED {u}")
                continue
            agg = {}
            for p in paths:
                if p.outcome == "abort":
                    continue
                tr = [f"{a}:{b}" for a, b in p.trace]
                for clause, ok, info, point in classify(p, dest0):
                    if scen == "write+close" and clause.startswith("handled-failure: no temporary files"):
                        # without a with-statement nothing can run after a failing write(): cleaning up is then the
                        # caller's obligation.  The property's writers are bound to the with-protocol by the
                        # call-site obligations below, so this clause is not demanded of the bare protocol.
                        continue
                    a = agg.setdefault(clause, {"n": 0, "bad": []})
                    a["n"] += 1
                    if not ok:
                        a["bad"].append((tr, info, point))
            if not agg:
                chk.error(f"{base}: no paths")
            for clause, a in sorted(agg.items()):
                name = f"{base}/{clause}"
                bad = a["bad"]

                def thunk(a=a, bad=bad):
                    if bad:
                        return ("refuted", "pyvc exception-flow enumeration (ghost FS)", 0.0,
                                {"trace": bad[0][0], "fs": bad[0][1], "point": bad[0][2]},
                                f"{len(bad)} of {a['n']} paths violate it; e.g. external-call outcomes {bad[0][0]} -> fs {bad[0][1]}")
                    return ("proved", "pyvc exception-flow enumeration (ghost FS)", 0.0, None, f"{a['n']} path-points")
                key = _key(fn, scen, dest0, clause, bad)
                chk.obligation(name, "inv.crash" if clause.startswith("crash@") else "post", thunk, function=fn,
                               replayer=_replayer(scen, dest0, clause), key=key)


def _key(fn, scen, dest0, clause, bad):
    c = clause.split(" (")[0]
    return f"C19/{fn}/{scen}/dest0={dest0}/{c}"


def _replayer(scen, dest0, clause):
    def rep(model):
        from speclib.c19_replay import replay_trace  # native fault injection on the real file system
        return replay_trace(scen, dest0, model["trace"], clause, model.get("point"))
    return rep


# ------------------------------------------------------------------------------------ writer call sites
WRITER_FILES = ["cogent3/util/dict_array.py", "cogent3/util/table.py", "cogent3/phylo/tree_collection.py",
                "cogent3/format/alignment.py", "cogent3/core/tree.py", "cogent3/core/new_alignment.py",
                "cogent3/core/alignment.py", "cogent3/util/io.py", "cogent3/app/io.py", "cogent3/app/data_store.py",
                "cogent3/app/sqlite_data_store.py", "cogent3/core/new_sequence.py", "cogent3/core/sequence.py"]


def call_sites(relpath):
    text, mod = extract.module_ast(relpath)
    parents = {}
    for n in ast.walk(mod):
        for c in ast.iter_child_nodes(n):
            parents[c] = n
    out = []
    for n in ast.walk(mod):
        if isinstance(n, ast.Call) and isinstance(n.func, ast.Name) and n.func.id == "atomic_write":
            par = parents.get(n)
            fn = n
            while fn in parents and not isinstance(fn, (ast.FunctionDef, ast.ClassDef)):
                fn = parents[fn]
            owner = getattr(fn, "name", "<module>")
            kind = "with" if isinstance(par, ast.withitem) else "return" if isinstance(par, ast.Return) else "bare"
            out.append((n.lineno, owner, kind))
    return out


def run_syntactic(chk):
    total = 0
    for rel in WRITER_FILES:
        try:
            sites = call_sites(rel)
        except FileNotFoundError:
            continue
        for k, (line, owner, kind) in enumerate(sites):
            total += 1
            name = f"{rel[8:-3].replace('/', '.')}.{owner}/atomic_write-callsite#{k}/reaches-__exit__"
            ok = kind in ("with", "return")  # returned to a caller that uses it as a context manager (open_)

            def thunk(ok=ok, line=line, kind=kind, rel=rel):
                return ("proved" if ok else "refuted", "syntactic", 0.0, {"file": rel, "line": line},
                        f"{rel}:{line} atomic_write(...) used as '{kind}'" + ("" if ok else
                        ": constructed outside a with-statement, an exception before close() skips __exit__ and "
                        "leaves the temporary directory created by __init__"))
            chk.obligation(name, "frame", thunk, function=f"{rel[8:-3].replace('/', '.')}.{owner}",
                           replayer=lambda m: {"failed": False, "description": "syntactic obligation; see bounded tier for a failing input"},
                           key=f"C19/callsite/{rel[8:-3].replace('/', '.')}.{owner}/not-with")
    if total == 0:
        chk.error("no atomic_write call sites found")


def run(chk):
    for m in ("__enter__", "_get_fileobj", "__exit__", "_close_rename_standard", "write", "close"):
        chk.function(IO, f"atomic_write.{m}", "P")
    chk.function(FMT, "save_to_filename", "P")
    only = getattr(chk, "only", None)
    if not only or "proof" in only:
        chk.guard(run_proof)
        chk.guard(run_syntactic)
        chk.discharge(workers=1)
    for c in EXTERNAL_CONTRACTS:
        chk.assume("trusted external contract: " + c)
    chk.assume("not decided: zip targets (ZipFile append is not atomic), atomic_write.__init__/_make_tmppath path arithmetic")
    if (not only or "bounded" in only) and os.path.exists(os.path.join(os.path.dirname(__file__), "..", "bounded", "C19.py")):
        chk.bounded("bounded.C19")
    chk.level = "other"
    chk.explanation = ("atomic-write protocol: crash invariant and exit postconditions proved on every path of the real "
                       "__enter__/write/__exit__/_close_rename_standard/save_to_filename under trusted file-system "
                       "contracts (exhaustive over the finite ghost state); writers' call sites syntactic; fault "
                       "injection on the real file system and apply_to resume are bounded")
