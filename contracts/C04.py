"""C04 -- annotations keep denoting the same residues through every view.

The deductive cores this property rests on are proved elsewhere and re-run here so that a regression in them is
reported under this id as well: the boundary semantics of ``absolute_position`` / ``relative_position`` and the
parent interval of a view (contracts/C01.py, jobs ``coords``).  Span arithmetic: C08; window SQL: C17.
End-to-end: bounded run-time contracts (bounded/C04.py)."""
from contracts import C01


def run(chk):
    only = getattr(chk, "only", None)
    if not only or "proof" in only:
        jobs = []
        for tname in C01.TARGETS:
            for d in C01.DIRECTIONS:
                jobs.append(("job_parent_coords", (tname, d)))
                jobs.append(("job_abs_rel", (tname, d, False)))
                jobs.append(("job_abs_rel", (tname, d, True)))
                jobs.append(("job_rel_spec", (tname, d, False)))
                jobs.append(("job_rel_spec", (tname, d, True)))
        chk.parallel("contracts.C01", "dispatch", jobs)
        for t in C01.TARGETS.values():
            for m in ("parent_start", "parent_stop", "absolute_position", "relative_position"):
                chk.function(t["base_file"], f"{t['base']}.{m}", "P")
    if not only or "bounded" in only:
        chk.bounded("bounded.C04")
    chk.level = "other"
    chk.explanation = ("view coordinate functions proved for all integers (smt, shared with C01); which residues a feature "
                       "denotes through histories of views and which features a window returns are bounded run-time contracts")
    chk.assume("Sequence.get_features window arithmetic and make_feature clipping are not in the proof tier (bounded only)")
