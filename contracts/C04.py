"""C04 -- annotations keep denoting the same residues through every view.

The deductive cores this property rests on are proved elsewhere and re-run here so that a regression in them is
reported under this id as well: the boundary semantics of ``absolute_position`` / ``relative_position`` and the
parent interval of a view (contracts/C01.py, jobs ``coords``).  Span arithmetic: C08; window SQL: C17.
End-to-end: bounded run-time contracts (bounded/C04.py)."""
import z3

from contracts import C01
from pyvc import extract
from pyvc.dsl import And, Implies, Or, ite
from pyvc.harness import cover_thunk, smt_thunk
from pyvc.symex import Engine, Opaque, Rec, Unsupported
from speclib import slices as S

SEQ_TARGETS = {"core.sequence.Sequence": ("cogent3/core/sequence.py", "core.sequence.SeqView"),
               "core.new_sequence.Sequence": ("cogent3/core/new_sequence.py", "core.new_sequence.SeqView")}


class SeqHooks(C01.ViewHooks):
    """two objects: the Sequence record (methods mangled as 'Sequence.<name>') and its view record (C01 hooks)"""

    def call_method(self, eng, obj, meth, args, kw, env):
        if isinstance(obj, Rec) and obj.cls == "Sequence":
            if meth == "__len__":
                return self.call_method(eng, obj.fields["_seq"], "__len__", [], {}, env)
            name = "Sequence." + meth
            if name in self.funcs:
                return eng.call(name, eng.call_positional(name, args, kw, self_obj=obj))
        if isinstance(obj, Opaque) and obj.tag == "annotation_db" and meth == "get_features_matching":
            eng.state["query"] = dict(kw)
            return []
        return super().call_method(eng, obj, meth, args, kw, env)

    def get_attr(self, eng, obj, attr):
        if isinstance(obj, Rec) and obj.cls == "Sequence":
            if attr in obj.fields:
                return obj.fields[attr]
            raise Unsupported(f"Sequence attribute {attr}")
        return super().get_attr(eng, obj, attr)

    def truth(self, eng, v):
        if isinstance(v, Opaque) and v.tag == "annotation_db":
            return True
        return super().truth(eng, v)


def job_window(chk, sname, dname, sn, en):
    """Sequence.get_features: the absolute window handed to the annotation db covers exactly the parent positions
    displayed by view[start:stop] (tight for |step| == 1), for every start/stop incl. None, negative and swapped"""
    rel, vname = SEQ_TARGETS[sname]
    funcs, props = C01.load(vname)
    for m in ("get_features", "parent_coordinates"):
        funcs["Sequence." + m] = extract.get(rel, "Sequence." + m)
    hooks = SeqHooks(funcs, props, modular={"_is_int": C01.mod_is_int, "__len__": C01.mod_len,
                                            "_input_vals_pos_step": C01.mod_input_vals(+1),
                                            "_input_vals_neg_step": C01.mod_input_vals(-1)},
                     globals_={"new_sequence": Opaque("module"), "numpy": Opaque("module")})
    fn = f"{sname}.get_features[window]"
    v, pre = C01.sym_view(vname)
    pre = pre + C01.DIRECTIONS[dname](v)
    a = None if sn else z3.Int("a")
    b = None if en else z3.Int("b")
    seq = Rec("Sequence", _seq=v, _annotation_db=Opaque("annotation_db"), annotation_db=Opaque("annotation_db"))
    eng = Engine(funcs, hooks)
    s0, e0, st0, off0, L0 = C01.view_tuple(v)
    from pyvc.dsl import Defs
    Defs.push()
    n = S.view_len(s0, e0, st0)
    defs, nz = Defs.pop()
    # precondition: a window inside the view (python-style negative indices allowed), non-empty after ordering
    pre2 = pre + list(defs)
    if a is not None:
        pre2.append(z3.And(-n <= a, a <= n))
    if b is not None:
        pre2.append(z3.And(-n <= b, b <= n))
    try:
        paths = eng.run(lambda e: e.call("Sequence.get_features", dict(self=seq, biotype=None, name=None, start=a, stop=b,
                                                                       allow_partial=True)), pre2)
    except Unsupported as u:
        chk.undecided.append(f"{fn}/cfg=({dname},{sn},{en}): UNSUPPORTED {u}")
        return
    base = f"{fn}/cfg=({dname},start={'None' if sn else 'int'},stop={'None' if en else 'int'})"
    chk.obligation(f"{base}/cover", "cover", cover_thunk(pre2), function=fn)
    for k, p in enumerate(paths):
        if p.outcome == "abort":
            continue
        q = p.state.get("query")
        # the normalised view window [lo, hi)
        A = 0 if a is None else ite(a == 0, 0, ite(a < 0, a + n, a))
        B = n if b is None else ite(b == 0, n, ite(b < 0, b + n, b))
        lo, hi = ite(A < B, A, B), ite(A < B, B, A)
        nonempty = lo < hi
        if p.outcome == "raise":
            # IndexError is raised only when the window start is the end of the view (an empty window at the boundary)
            goal = And(p.value == "IndexError", Or(z3.Not(nonempty), lo >= n))
        elif q is None:
            goal = z3.BoolVal(False)
        else:
            qs, qe = q.get("start"), q.get("stop")
            first = S.first(s0, st0, L0)
            p_lo = off0 + first + lo * st0          # plus-strand parent position of view element lo
            p_hi = off0 + first + (hi - 1) * st0    # ... of view element hi-1
            pmin, pmax = ite(st0 > 0, p_lo, p_hi), ite(st0 > 0, p_hi, p_lo)
            goal = Implies(nonempty, And(qs <= pmin, pmax < qe, qs >= 0,
                                         Implies(Or(st0 == 1, st0 == -1), And(qs == pmin, qe == pmax + 1))))
        chk.obligation(f"{base}/post.window-covers-displayed-positions/path={k}", "post",
                       smt_thunk(p.pc, goal if isinstance(goal, z3.ExprRef) else z3.BoolVal(bool(goal)), 60), function=fn,
                       key=f"C04/{fn}/post.window", replayer=_replay_window(sname, sn, en))
    C01._note_inline(chk, eng)


def _replay_window(sname, sn, en):
    def rep(model):
        from cogent3 import make_seq
        L, s, e, st, off = (model.get(k, d) for k, d in (("vL", 0), ("vstart", 0), ("vstop", 0), ("vstep", 1), ("voff", 0)))
        if not S.inv(s, e, st, L) or off < 0 or L == 0:
            return {"failed": False, "description": f"model outside inv: {model}"}
        new = sname.startswith("core.new_sequence")
        parent = "".join("ACGT"[i % 4] for i in range(L))
        kw = {"annotation_offset": off} if off else {}
        root = make_seq(parent, name="s1", moltype="dna", new_type=new, **kw)
        for i in range(L):
            root.annotation_db.add_feature(seqid="s1", biotype="base", name=f"p{i}", spans=[(i + off, i + off + 1)], strand="+")
        # rebuild the view through public slicing: first = start (fwd) or L+start (rev)
        view = root[s:e:st] if st > 0 else root[L + s: (L + e if L + e >= 0 else None): st]
        if len(view) == 0:
            return {"failed": False, "description": "empty view"}
        a = None if sn else model.get("a", 0)
        b = None if en else model.get("b", 0)
        n = len(view)
        A = 0 if not a else (a + n if a < 0 else a)
        B = n if not b else (b + n if b < 0 else b)
        lo, hi = min(A, B), max(A, B)
        if lo >= hi:
            return {"failed": False, "description": "empty window"}
        idx = list(range(L))[s:e:st] if st > 0 else [L + i for i in range(s, e, st)]
        want = sorted(f"p{i}" for i in idx[lo:hi])
        try:
            got = sorted(f.name for f in view.get_features(biotype="base", start=a, stop=b, allow_partial=True))
        except Exception as ex:
            return {"failed": True, "description": f"get_features(start={a}, stop={b}) on {sname}({parent!r})[{s}:{e}:{st}] raised {type(ex).__name__}: {ex}"}
        missing = [w for w in want if w not in got]
        return {"failed": bool(missing), "witness": {"view": [L, s, e, st, off], "start": a, "stop": b},
                "description": f"{sname}({parent!r}) view ({s},{e},{st}) offset {off}: get_features(start={a}, stop={b}) returned {got}; "
                               f"single-base features under the window are {want}"}
    return rep


def dispatch(chk, jobname, args):
    globals()[jobname](chk, *args)


def run(chk):
    only = getattr(chk, "only", None)
    if not only or "proof" in only:
        jobs = []
        for tname in C01.TARGETS:
            for d in C01.DIRECTIONS:
                jobs.append(("job_parent_coords", (tname, d)))
                jobs.append(("job_abs_rel", (tname, d, False)))
                jobs.append(("job_abs_rel", (tname, d, True)))
                jobs.append(("job_rel_spec", (tname, d, False)))
                jobs.append(("job_rel_spec", (tname, d, True)))
        chk.parallel("contracts.C01", "dispatch", jobs)
        wjobs = [("job_window", (sname, d, sn, en)) for sname in SEQ_TARGETS for d in ("fwd", "rev")
                 for sn in (True, False) for en in (True, False)]
        chk.parallel("contracts.C04", "dispatch", wjobs)
        for sname, (rel, _) in SEQ_TARGETS.items():
            chk.function(rel, "Sequence.get_features", "P")
        for t in C01.TARGETS.values():
            for m in ("parent_start", "parent_stop", "absolute_position", "relative_position"):
                chk.function(t["base_file"], f"{t['base']}.{m}", "P")
    if not only or "bounded" in only:
        chk.bounded("bounded.C04")
    chk.level = "other"
    chk.explanation = ("view coordinate functions proved for all integers (smt, shared with C01); which residues a feature "
                       "denotes through histories of views and which features a window returns are bounded run-time contracts")
    chk.assume("Sequence.get_features window arithmetic and make_feature clipping are not in the proof tier (bounded only)")
