"""C18 -- aligners preserve their inputs and are optimal for their own model.

No obligation is discharged deductively in this round: Viterbi optimality is a maximum over exponentially many paths
computed by numba float kernels (an inductive DP invariant over float arrays was not attempted, DESIGN.md section 7),
and the pure-Python gap bookkeeping of app/align.py is covered by the bounded tier's projection contract.
Bounded tier (bounded/C18.py): brute-force optimality over all alignments of short sequences, score == independently
recomputed path score, Hirschberg on/off, projection of multiple alignments onto (ref, s)."""


def run(chk):
    chk.bounded("bounded.C18")
    chk.level = "exploration"
    chk.explanation = "bounded run-time contracts only (brute-force optimality on short sequences); nothing proved"
    chk.assume("no deductive obligation: numba float DP kernels are outside the VC generator's subset")
