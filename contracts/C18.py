"""C18 -- aligners preserve their inputs and are optimal for their own model.

Proof tier (thin): ``align.traceback.gap_traceback`` -- the step that turns the dynamic program's path (a list of
``[pos_in_seq1 | None, pos_in_seq2 | None]`` cells, any length n >= 1) into the gap layout of the two rows.  Contract,
for each of the two sequences d and *every* path:

  * the reported alignment length is n (so both rows have equal length);
  * the segments returned for d are exactly the maximal runs of columns in which d consumes a residue: every
    segment [s, e) satisfies 0 <= s < e <= n, all its columns consume, segments are in increasing order and
    separated, and every consuming column lies in a segment (witnessed by the ghost map K);
  * starts[d] / ends[d] are None iff no column consumes, else the position in the first consuming column and one
    past the position in the last one.

It follows that the gapped row of d has n columns and its non-gap columns are, in order, the path's cells for d: the
degapped row is the part of the input the path walks through.  The loop invariant is quantified (columns, change
points) and uses a ghost array K[c] = index of the last change point <= c; the ghost update is supplied by the
contract and never read by the code.

Viterbi optimality itself is a maximum over exponentially many paths computed by numba float kernels (not attempted,
DESIGN.md section 7); IndelMap.from_aligned_segments / Aligned are used through their bounded contracts (C08, C03).
Bounded tier (bounded/C18.py): brute-force optimality over all alignments of short sequences, score == independently
recomputed path score, Hirschberg on/off, projection of multiple alignments onto (ref, s)."""
from __future__ import annotations

import z3

from pyvc import extract
from pyvc.harness import cover_thunk, smt_thunk
from pyvc.loops import LoopHooks, SymSeq, loop_nodes
from pyvc.objects import ClassHooks
from pyvc.symex import Engine, OptV, SymList, Unsupported, is_sym

FILE = "cogent3/align/traceback.py"
I = z3.IntSort()
B = z3.BoolSort()


class PathSeq(SymSeq):
    """aligned_positions: cell c is [p0 | None, p1 | None]"""

    def __init__(self, n):
        self.none = [z3.Const(f"none{d}", z3.ArraySort(I, B)) for d in (0, 1)]
        self.val = [z3.Const(f"pos{d}", z3.ArraySort(I, I)) for d in (0, 1)]
        self.arr, self.length, self.name = None, n, "aligned_positions"

    def at(self, i):
        i = i if is_sym(i) else z3.IntVal(i)
        return [OptV(z3.Select(self.none[d], i), z3.Select(self.val[d], i)) for d in (0, 1)]

    def cons(self, d, c):
        return z3.Not(z3.Select(self.none[d], c))


class TBHooks(LoopHooks, ClassHooks):
    def __init__(self, funcs, specs):
        ClassHooks.__init__(self, funcs, set())
        self.loop_specs = specs
        self.fn_nodes = funcs

    def call_method(self, eng, obj, meth, args, kw, env):
        if isinstance(obj, SymSeq) and meth == "__len__":
            return obj.length
        if isinstance(obj, SymSeq) and not isinstance(obj, PathSeq) and meth == "append":
            v = args[0] if is_sym(args[0]) else z3.IntVal(args[0])
            obj.arr = z3.Store(obj.arr, obj.length, v)
            obj.length = obj.length + 1
            return None
        return super().call_method(eng, obj, meth, args, kw, env)

    def subscript(self, eng, obj, idx):
        store = isinstance(idx, tuple) and idx and isinstance(idx[0], str) and idx[0] == "store"
        if isinstance(obj, SymSeq) and not isinstance(obj, PathSeq) and not store:
            i = idx if is_sym(idx) else z3.IntVal(idx)
            eng.require("noexcept:list-index-in-range", z3.And(0 <= i, i < obj.length))
            return obj.at(i)
        return super().subscript(eng, obj, idx)


def _opt(v):
    """(is-None, value) of a cell of starts / ends, before (concrete None) and after the havoc"""
    if v is None:
        return z3.BoolVal(True), z3.IntVal(0)
    if isinstance(v, OptV):
        return v.none, v.val
    return z3.BoolVal(False), (v if is_sym(v) else z3.IntVal(v))


def _bool(v):
    return v if is_sym(v) else z3.BoolVal(bool(v))


def run_gap_traceback(chk):
    name = "gap_traceback"
    fn = "align.traceback.gap_traceback"
    node = extract.get(FILE, name)
    funcs = {name: node}
    outer = [l for l in loop_nodes(node) if isinstance(l.iter, __import__("ast").Call)]
    if len(outer) != 1 or loop_nodes(node).index(outer[0]) != 0:
        chk.undecided.append(f"{fn}: expected the loop over the path to be the first loop")
        return
    # the loop state is recognised by how it is initialised, not by what the locals are called
    import ast as _ast
    inits = {}
    for st in node.body:
        if isinstance(st, _ast.Assign) and len(st.targets) == 1 and isinstance(st.targets[0], _ast.Name):
            try:
                inits.setdefault(repr(_ast.literal_eval(st.value)), []).append(st.targets[0].id)
            except Exception:
                pass
    try:
        (V_CONS,), (V_STARTS, V_ENDS), (V_GV,) = inits["[False, False]"], inits["[None, None]"], inits["[[], []]"]
    except (KeyError, ValueError):
        chk.undecided.append(f"{fn}: loop state not recognised (expected [False, False], two [None, None], [[], []] initialisers)")
        return
    n = z3.Int("n")
    path = PathSeq(n)
    c, k1, k2 = z3.Ints("c k1 k2")
    pre = [n >= 1]

    def gv_of(env, d):
        g = env[V_GV][d]
        if isinstance(g, SymSeq):
            return g.arr, g.length
        if isinstance(g, list) and not g:
            return z3.K(I, z3.IntVal(0)), z3.IntVal(0)
        raise Unsupported("shape of gap_vectors")

    def last_consumed(d, arr, ln, cons_flag, j):
        """column of the last consuming cell seen so far (meaningful when ln > 0)"""
        return z3.If(cons_flag, j - 1, z3.Select(arr, ln - 1) - 1)

    def inv(env, j):
        parts = []
        for d in (0, 1):
            arr, ln = gv_of(env, d)
            consuming = _bool(env[V_CONS][d])
            K = env["__K"][d]
            s_none, s_val = _opt(env[V_STARTS][d])
            e_none, e_val = _opt(env[V_ENDS][d])
            parts += [
                ln >= 0, consuming == (ln % 2 == 1),
                z3.Implies(j > 0, consuming == path.cons(d, j - 1)),
                z3.Implies(j == 0, ln == 0),
                z3.ForAll([k1], z3.Implies(z3.And(0 <= k1, k1 < ln), z3.And(0 <= z3.Select(arr, k1), z3.Select(arr, k1) < j))),
                z3.ForAll([k1, k2], z3.Implies(z3.And(0 <= k1, k1 < k2, k2 < ln), z3.Select(arr, k1) < z3.Select(arr, k2))),
                z3.ForAll([c], z3.Implies(z3.And(0 <= c, c < j), z3.And(
                    -1 <= z3.Select(K, c), z3.Select(K, c) < ln,
                    z3.Implies(z3.Select(K, c) >= 0, z3.Select(arr, z3.Select(K, c)) <= c),
                    z3.Implies(z3.Select(K, c) + 1 < ln, c < z3.Select(arr, z3.Select(K, c) + 1)),
                    path.cons(d, c) == z3.And(z3.Select(K, c) >= 0, z3.Select(K, c) % 2 == 0)))),
                s_none == (ln == 0), e_none == (ln == 0),
                z3.Implies(ln > 0, z3.And(s_val == z3.Select(path.val[d], z3.Select(arr, 0)),
                                          e_val == z3.Select(path.val[d], last_consumed(d, arr, ln, consuming, j)) + 1)),
            ]
        return z3.And(parts)

    def ghost_init(env):
        env["__K"] = [z3.K(I, z3.IntVal(-1)), z3.K(I, z3.IntVal(-1))]

    def ghost_update(env, j):
        env["__K"] = [z3.Store(env["__K"][d], j, gv_of(env, d)[1] - 1) for d in (0, 1)]

    spec = dict(invariant=inv, modifies=[V_CONS, V_STARTS, V_ENDS, V_GV, "__K"], bind_last=True,
                ghost_init=ghost_init, ghost_update=ghost_update,
                havoc={V_CONS: lambda old: [z3.FreshConst(B, "consuming0"), z3.FreshConst(B, "consuming1")],
                       V_STARTS: lambda old: [OptV(z3.FreshConst(B, "s_none"), z3.FreshConst(I, "s_val")) for _ in (0, 1)],
                       V_ENDS: lambda old: [OptV(z3.FreshConst(B, "e_none"), z3.FreshConst(I, "e_val")) for _ in (0, 1)],
                       V_GV: lambda old: [SymSeq.fresh("gv0", I), SymSeq.fresh("gv1", I)],
                       "__K": lambda old: [z3.FreshConst(z3.ArraySort(I, I), "K0"), z3.FreshConst(z3.ArraySort(I, I), "K1")]})
    hooks = TBHooks(funcs, {(name, 0): spec})
    eng = Engine(funcs, hooks, prune_logic=None, prune_ms=300)
    final = {}

    def entry(e):
        e.state["current_function"] = name
        r = e.call(name, dict(aligned_positions=path))
        final["K"] = e.state.get("K_final")
        return r
    # the ghost map after the loop is needed by the postcondition: keep it in the path state
    orig_loop = hooks.loop

    def loop_and_keep(eng_, node_, env):
        orig_loop(eng_, node_, env)
        eng_.state["K_final"] = list(env["__K"])
    hooks.loop = loop_and_keep
    try:
        paths = eng.run(entry, pre)
    except Unsupported as ex:
        chk.undecided.append(f"{fn}: UNSUPPORTED {ex}")
        return
    chk.function(FILE, name, "P")
    chk.obligation(f"{fn}/cover", "cover", cover_thunk(pre), function=fn)
    n_post = 0
    for k, pth in enumerate(paths):
        for j_, nm in enumerate(getattr(pth, "inline", [])):
            kind = nm.split(":")[0]
            chk.discharged_inline(f"{fn}/{nm}/path={k}.{j_}", kind if kind.startswith("inv") else "noexcept", function=fn)
        for nm, pc, cond in pth.obligations:
            kind = nm.split(":")[0]
            chk.obligation(f"{fn}/{nm}/path={k}", kind if kind.startswith("inv") else "noexcept",
                           smt_thunk(pc, cond, timeout=30, logic=None, instantiate=(2, [n])), function=fn,
                           key=f"C18/{fn}/{nm.split('#')[0]}", replayer=_replay)
        if pth.outcome == "raise":
            chk.obligation(f"{fn}/noexcept/path={k}", "noexcept", smt_thunk(pth.pc, z3.BoolVal(False), 30, logic=None),
                           function=fn, key=f"C18/{fn}/noexcept", replayer=_replay)
        if pth.outcome != "return":
            continue
        n_post += 1
        starts, ends, gvs, alen = pth.value
        Kf = pth.state.get("K_final")
        goals = [alen == n if is_sym(alen) else z3.BoolVal(False)]
        for d in (0, 1):
            sl = gvs[d]
            if not isinstance(sl, SymList) or not isinstance(sl.elem, tuple) or len(sl.elem) != 2 or Kf is None:
                goals.append(z3.BoolVal(False))
                continue
            s, e = sl.elem
            m, jj = sl.count, sl.j
            K = Kf[d]
            s_none, s_val = _opt(starts[d])
            e_none, e_val = _opt(ends[d])
            # the element at another generic position (for order / separation): substitute the index variable
            j2 = z3.Int("jj2")
            s2 = z3.substitute(s, (jj, j2))
            e2 = z3.substitute(e, (jj, j2))
            side = z3.And(0 <= jj, jj < m, *sl.side)
            side2 = z3.And(0 <= j2, j2 < m, *[z3.substitute(x, (jj, j2)) for x in sl.side])
            seg_of_c = z3.Select(K, c)           # ghost witness: the consuming column c lies in segment K[c] / 2
            # the segment list read at the witness position
            jw = z3.Int("jjw")
            sw = z3.substitute(s, (jj, jw))
            ew = z3.substitute(e, (jj, jw))
            sidew = [z3.substitute(x, (jj, jw)) for x in sl.side]
            goals += [
                m >= 0,
                z3.Implies(side, z3.And(0 <= s, s < e, e <= n)),
                z3.Implies(side, z3.ForAll([c], z3.Implies(z3.And(s <= c, c < e), path.cons(d, c)))),
                z3.Implies(z3.And(side, side2, jj < j2), e < s2),
                z3.Implies(z3.And(side, e < n), z3.Not(path.cons(d, e))),
                z3.Implies(z3.And(side, s > 0), z3.Not(path.cons(d, s - 1))),
                z3.ForAll([c], z3.Implies(z3.And(0 <= c, c < n, path.cons(d, c)),
                                          z3.And(seg_of_c >= 0, seg_of_c % 2 == 0, seg_of_c / 2 < m))),
                z3.Implies(z3.And(0 <= c, c < n, path.cons(d, c), jw == seg_of_c / 2, 0 <= jw, jw < m, *sidew),
                           z3.And(sw <= c, c < ew)),
                s_none == (m == 0), e_none == (m == 0),
                z3.Implies(z3.And(side, jj == 0), s_val == z3.Select(path.val[d], s)),
                z3.Implies(z3.And(side, jj == m - 1), e_val == z3.Select(path.val[d], e - 1) + 1),
            ]
        for gi, g in enumerate(goals):
            chk.obligation(f"{fn}/post.segments-are-the-consuming-runs[{gi}]/path={k}", "post",
                           smt_thunk(pth.pc, g, timeout=30, logic=None, instantiate=(2, [n])), function=fn,
                           key=f"C18/{fn}/post", replayer=_replay)
    if n_post == 0:
        chk.error(f"{fn}: no returning path")


def _replay(model):
    """native: every path of length 1..5 over cells {(i,j), (i,None), (None,j)} with running positions"""
    import itertools

    from cogent3.align.traceback import gap_traceback
    for L in range(1, 6):
        for kinds in itertools.product("mxy", repeat=L):
            p = [0, 0]
            cells = []
            for kd in kinds:
                cell = [p[0] if kd in "mx" else None, p[1] if kd in "my" else None]
                p[0] += kd in "mx"
                p[1] += kd in "my"
                cells.append(cell)
            try:
                starts, ends, gvs, alen = gap_traceback([list(x) for x in cells])
            except Exception as ex:
                return {"failed": True, "witness": cells,
                        "description": f"gap_traceback({cells}) raises {type(ex).__name__}: {ex}"}
            ok = alen == L
            for d in (0, 1):
                cons = [x[d] is not None for x in cells]
                runs, c0 = [], None
                for i, f in enumerate(cons + [False]):
                    if f and c0 is None:
                        c0 = i
                    if not f and c0 is not None:
                        runs.append((c0, i))
                        c0 = None
                vals = [x[d] for x in cells if x[d] is not None]
                ok = ok and [tuple(g) for g in gvs[d]] == runs
                ok = ok and (starts[d], ends[d]) == ((vals[0], vals[-1] + 1) if vals else (None, None))
            if not ok:
                return {"failed": True, "witness": cells,
                        "description": f"gap_traceback({cells}) = ({starts}, {ends}, {gvs}, {alen})"}
    return {"failed": False, "description": "all paths of length <= 5 agree with the run-length spec"}


def run(chk):
    import os
    only = getattr(chk, "only", None)
    if not only or "proof" in only:
        chk.guard(run_gap_traceback, fallback=[_replay])
        chk.discharge()
    chk.assume("proof tier covers gap_traceback only; IndelMap.from_aligned_segments, Aligned and the dynamic program "
               "(numba float kernels, Viterbi optimality) are not decided by proof")
    chk.assume("precondition of gap_traceback: the path has at least one cell (an empty path raises UnboundLocalError "
               "in the code; no aligner produces one)")
    if not only or "bounded" in only:
        chk.bounded("bounded.C18")
    chk.level = "other" if any(o.status == "discharged" for o in chk.obligations) else "exploration"
    chk.explanation = ("gap layout of a dynamic-programming path (gap_traceback) proved for paths of every length by a "
                       "quantified loop invariant with a ghost witness map (smt); optimality, score, Hirschberg "
                       "independence and projection are bounded run-time contracts (brute force on short sequences)")
