"""C10 -- every serialisable object round-trips, whatever state it is in.

Proof tier (shared view arithmetic, all integers): the substring + step that ``SeqView.to_rich_dict`` /
``copy(sliced=True)`` (old and new sequences) and ``SeqDataView.to_rich_dict`` export, re-imported through the
real constructor, denotes the same characters in the same order as the view that was exported
(first parent index, stride and length agree).  Everything else (registry, all object kinds, histories) is the
bounded tier bounded/C10.py.
"""
from __future__ import annotations

import os

import z3

from contracts import C01
from pyvc import extract
from pyvc.dsl import And, Defs, Implies, imax
from pyvc.harness import cover_thunk, smt_thunk
from pyvc.symex import Engine, Opaque, Rec, SliceV, Unsupported
from speclib import slices as S


class ExportHooks(C01.ViewHooks):
    """parent[a:b] (step None) on the opaque parent yields an opaque sub-parent with base/length attributes"""

    def subscript(self, eng, obj, idx):
        if isinstance(obj, Opaque) and obj.tag in ("seq", "strvalue") and isinstance(idx, SliceV) and idx.step is None:
            L = obj.attrs["length"]
            lo, hi = S.py_slice_indices(idx.start, idx.stop, 1, L)
            return Opaque("seq", length=imax(hi - lo, 0), base=lo, of=obj)
        if isinstance(obj, Opaque) and obj.tag == "seq" and isinstance(idx, SliceV) and idx.start is None and idx.stop is None:
            # raw[::step]: the displayed string of a SeqDataView (trusted str striding): positions 0..n-1 of the display
            Defs.push()
            n = S.len_range(*S.py_slice_indices(None, None, idx.step, obj.attrs["length"]), idx.step)
            defs, nz = Defs.pop()
            for c in defs:
                eng.assume(c)
            return Opaque("strvalue", length=n, display_of=obj, stride=idx.step)
        return super().subscript(eng, obj, idx)

    def call_name(self, eng, name, args, kw, env):
        if name == "get_object_provenance":
            return "provenance"
        return super().call_name(eng, name, args, kw, env)

    def call_method(self, eng, obj, meth, args, kw, env):
        if isinstance(obj, Opaque) and obj.tag == "alphabet" and meth == "to_rich_dict":
            return Opaque("alphabet-dict")
        if isinstance(obj, Opaque) and obj.tag == "seqsdata" and meth == "get_seq_str":
            # trusted contract of SeqsData.get_seq_str(seqid, start, stop): parent[start:stop] (offset 0)
            lo, hi = kw["start"], kw["stop"]
            return Opaque("seq", length=hi - lo, base=lo, of=obj, raw=True)
        return super().call_method(eng, obj, meth, args, kw, env)

    def call_value(self, eng, fn, args, kw, env):
        if isinstance(fn, Rec):           # cls(**init_args) inside a classmethod called on an instance
            return self.construct(eng, fn, args, kw)
        return super().call_value(eng, fn, args, kw, env)

    def global_name(self, eng, name):
        if name == "__version__":
            return "version"
        return super().global_name(eng, name)


def export_hooks(tname):
    funcs, props = C01.load(tname)
    hooks = ExportHooks(funcs, props, modular={"_is_int": C01.mod_is_int, "__len__": C01.mod_len},
                        globals_={"new_sequence": Opaque("module"), "numpy": Opaque("module")})
    return funcs, hooks


def job_export(chk, tname, dname, how):
    """how: 'copy' = v.copy(sliced=True);  'dict' = v.to_rich_dict() then the constructor on its init_args"""
    funcs, hooks = export_hooks(tname)
    fn = f"{tname}.{'copy(sliced=True)' if how == 'copy' else 'to_rich_dict'}"
    v, pre = C01.sym_view(tname)
    pre = pre + C01.DIRECTIONS[dname](v)
    if tname == "core.new_alignment.SeqDataView":
        pre = pre + [v.fields["_offset"] == 0]
    eng = Engine(funcs, hooks)

    def entry(e):
        if how == "copy":
            return e.hooks.call_method(e, v, "copy", [], {"sliced": True}, None)
        d = e.hooks.call_method(e, v, "to_rich_dict", [], {}, None)
        init = dict(d["init_args"])
        init.pop("alphabet", None)
        if "alphabet" in v.fields:
            init["alphabet"] = v.fields["alphabet"]
        if tname == "core.new_alignment.SeqDataView":
            # the dict is consumed by the enclosing Sequence; the lemma is about the exported text itself
            return Rec(tname, seq=init["seq"], start=0, stop=0, step=init["step"], _offset=init.get("offset", 0), _seq_len=0)
        return e.hooks.construct(e, v, [], init)
    try:
        paths = eng.run(entry, pre)
    except Unsupported as u:
        chk.undecided.append(f"{fn}/cfg=({dname}): UNSUPPORTED {u}")
        return
    base = f"{fn}/cfg=({dname})"
    chk.obligation(f"{base}/cover", "cover", cover_thunk(pre), function=fn)
    s0, e0, st0, off0, L0 = C01.view_tuple(v)
    for k, p in enumerate(paths):
        if p.outcome == "abort":
            continue
        r = p.value
        if p.outcome != "return" or not isinstance(r, Rec):
            goal = z3.BoolVal(False)
        elif r is v:
            goal = z3.BoolVal(True)
        else:
            sub = r.fields.get("seq")
            if isinstance(sub, Opaque) and isinstance(sub.attrs.get("of"), Opaque) and sub.attrs["of"].tag == "strvalue" \
                    or isinstance(sub, Opaque) and sub.tag == "strvalue":
                # the exported text was cut out of the *displayed* string D (already strided / reversed); re-imported
                # with the exported step it displays E[::step]: equal to D only if E is all of D and step == 1
                lo = sub.attrs.get("base", 0)
                ln = sub.attrs["length"]

                def build_disp():
                    n = S.view_len(s0, e0, st0)
                    return Implies(n > 0, And(lo == 0, ln == n, st0 == 1))
                goal = C01.goal_with_defs(build_disp)
            elif not (isinstance(sub, Opaque) and "base" in sub.attrs):
                goal = z3.BoolVal(False) if not (isinstance(sub, Opaque) and sub is v.fields.get("seq")) else None
                if goal is None:   # same parent object kept: plain copy semantics
                    rt = C01._result_tuple(p)
                    goal = C01.goal_with_defs(lambda: And(S.view_len(rt[0], rt[1], rt[2]) == S.view_len(s0, e0, st0),
                                                          Implies(S.view_len(s0, e0, st0) > 0,
                                                                  And(S.first(rt[0], rt[2], rt[4]) == S.first(s0, st0, L0), rt[2] == st0))))
            else:
                rt = C01._result_tuple(p)
                lo = sub.attrs["base"]
                parent_is_root = sub.attrs.get("of") is v.fields.get("seq")

                def build():
                    n = S.view_len(s0, e0, st0)
                    return And(parent_is_root, S.inv(rt[0], rt[1], rt[2], rt[4]), S.view_len(rt[0], rt[1], rt[2]) == n,
                               Implies(n > 0, And(S.first(rt[0], rt[2], rt[4]) + lo == S.first(s0, st0, L0), rt[2] == st0)))
                goal = C01.goal_with_defs(build)
        chk.obligation(f"{base}/post.same-characters/path={k}", "post", smt_thunk(p.pc, goal, 60), function=fn,
                       replayer=_replay_export(tname, how), key=f"C10/{fn}/post.same-characters")
    C01._note_inline(chk, eng)


def _replay_export(tname, how):
    def rep(model):
        L, s, e, st, off = (model.get(k, d) for k, d in (("vL", 0), ("vstart", 0), ("vstop", 0), ("vstep", 1), ("voff", 0)))
        if not S.inv(s, e, st, L) or off < 0:
            return {"failed": False, "description": f"model does not satisfy inv: {model}"}
        if tname == "core.new_alignment.SeqDataView":
            off = 0
        v, parent = C01.native_view(tname, L, s, e, st, off)
        want = str(v)
        try:
            if how == "copy":
                r = v.copy(sliced=True)
                got = str(r)
            else:
                d = v.to_rich_dict()
                got_seq = d["init_args"]["seq"]
                got = got_seq[::d["init_args"]["step"]] if True else got_seq
        except Exception as ex:
            return {"failed": True, "description": f"{tname}(parent={parent!r},{s},{e},{st}) export raised {type(ex).__name__}: {ex}"}
        return {"failed": got != want, "witness": {"view": [L, s, e, st, off]},
                "description": f"{tname}(parent={parent!r}, start={s}, stop={e}, step={st}) displays {want!r}; the exported "
                               f"{'copy' if how == 'copy' else 'substring[::step]'} displays {got!r}"}
    return rep


def dispatch(chk, jobname, args):
    globals()[jobname](chk, *args)


def run(chk):
    only = getattr(chk, "only", None)
    if not only or "proof" in only:
        jobs = []
        for tname, t in C01.TARGETS.items():
            for d in C01.DIRECTIONS:
                if tname != "core.new_alignment.SeqDataView":
                    jobs.append(("job_export", (tname, d, "copy")))
                jobs.append(("job_export", (tname, d, "dict")))
            chk.function(t["file"], f"{t['cls']}.to_rich_dict", "P")
            if tname != "core.new_alignment.SeqDataView":
                chk.function(t["file"], f"{t['cls']}.copy", "P")
        chk.parallel("contracts.C10", "dispatch", jobs)
    chk.assume("str slicing follows CPython PySlice_AdjustIndices; the exported characters are parent[lo:hi] (trusted)")
    if (not only or "bounded" in only) and os.path.exists(os.path.join(os.path.dirname(__file__), "..", "bounded", "C10.py")):
        chk.bounded("bounded.C10")
    chk.level = "other"
    chk.explanation = ("view export/import arithmetic proved for all integers (smt); round trips of every registered "
                       "serialisable type after histories are bounded run-time contracts")
