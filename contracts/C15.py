"""C15 -- distance estimation and distance-based trees are exact on exact data.

Proof tier (reals; the 4x4 count matrix is fully symbolic -- the dimension is fixed by the estimators, so these
are full-domain obligations): ``fast_distance._hamming`` and ``_jc69_from_matrix`` return (total, p, dist) equal
to the published formulas written independently here (log uninterpreted), are *invalid* exactly when the formula
is undefined, and are invariant under transposition of the count matrix (symmetry of the estimator);
``pairwise_distance_numba.fill_diversity_matrix`` (loop invariant): cell (a, b) counts the columns whose valid
pair is (a, b), invalid columns are skipped, nothing else is written -- hence column-order independence.
TN93 / paralinear / LogDet and NJ / UPGMA exactness are bounded run-time contracts (bounded/C15.py).
"""
from __future__ import annotations

import itertools
import os

import z3

from pyvc import extract
from pyvc.harness import cover_thunk, smt_thunk
from pyvc.loops import ArrV, LoopHooks, loop_nodes
from pyvc.objects import ClassHooks
from pyvc.symex import Engine, Opaque, Raise, Unsupported, is_sym

FD = "cogent3/evolve/fast_distance.py"
NB = "cogent3/evolve/pairwise_distance_numba.py"
R, I = z3.RealSort(), z3.IntSort()
LOG = z3.Function("LOG", R, R)


class Mat:
    """a numpy array of fixed shape whose entries are symbolic reals (1-D or 2-D, as nested lists)"""

    def __init__(self, rows):
        self.rows = rows

    @property
    def ndim(self):
        return 2 if isinstance(self.rows[0], list) else 1

    def flat(self):
        return [x for r in self.rows for x in r] if self.ndim == 2 else list(self.rows)

    def T(self):
        return Mat([list(c) for c in zip(*self.rows)])


class FHooks(ClassHooks):
    def __init__(self, funcs):
        super().__init__(funcs, set())

    def global_name(self, eng, name):
        if name in ("diag", "log"):
            return ("npfunc", name)
        return super().global_name(eng, name)

    def call_value(self, eng, fn, args, kw, env):
        if isinstance(fn, tuple) and fn[0] == "npfunc":
            if fn[1] == "diag":
                m = args[0]
                return Mat([m.rows[i][i] for i in range(len(m.rows))])
            if fn[1] == "log":
                return LOG(args[0])
        return super().call_value(eng, fn, args, kw, env)

    def call_name(self, eng, name, args, kw, env):
        if name in ("diag", "log"):
            return self.call_value(eng, ("npfunc", name), args, kw, env)
        return super().call_name(eng, name, args, kw, env)

    def call_method(self, eng, obj, meth, args, kw, env):
        if isinstance(obj, Mat) and meth == "sum" and not args and not kw:
            return z3.Sum(obj.flat())
        return super().call_method(eng, obj, meth, args, kw, env)


def sym_matrix(prefix="m"):
    return Mat([[z3.Real(f"{prefix}{i}{j}") for j in range(4)] for i in range(4)])


def counts_pre(M):
    return [x >= 0 for x in M.flat()]


def run_formulas(chk):
    funcs = {n: extract.get(FD, n) for n in ("_hamming", "_jc69_from_matrix")}
    M = sym_matrix()
    total = z3.Sum(M.flat())
    trace = z3.Sum([M.rows[i][i] for i in range(4)])
    diffs = total - trace
    for name in ("_hamming", "_jc69_from_matrix"):       # (helpers resolved on the way are added to funcs)
        fn = f"evolve.fast_distance.{name}"
        results = {}
        for label, mat in (("M", M), ("M^T", M.T())):
            eng = Engine(funcs, FHooks(funcs), prune_logic=None, prune_ms=500)
            pre = counts_pre(M)
            paths = eng.run(lambda e: e.call(name, dict(matrix=mat)), pre)
            results[label] = paths
            chk.obligation(f"{fn}/cfg=({label})/cover", "cover", cover_thunk(pre), function=fn)
            for k, p in enumerate(paths):
                if p.outcome != "return" or not isinstance(p.value, tuple) or len(p.value) != 4:
                    goal = z3.BoolVal(False)
                else:
                    tot, pp, dist, var = p.value
                    p_spec = diffs / total
                    if name == "_hamming":
                        defined = total != 0
                        ok = z3.And(tot == total, pp == p_spec, dist == diffs) if tot is not None else None
                    else:
                        defined = z3.And(total != 0, p_spec < z3.Q(3, 4))
                        # JC69: d = -3/4 ln(1 - 4p/3)
                        ok = z3.And(tot == total, pp == p_spec,
                                    dist == -z3.Q(3, 4) * LOG(1 - z3.Q(4, 3) * p_spec)) if tot is not None else None
                    goal = z3.And(z3.Not(defined), z3.BoolVal(all(v is None for v in p.value))) if tot is None else z3.And(defined, ok)
                chk.obligation(f"{fn}/cfg=({label})/post.published-formula/path={k}", "post",
                               smt_thunk(p.pc, goal, 30, logic=None), function=fn, replayer=_replay_formula(name),
                               key=f"C15/{fn}/post.formula")
        # symmetry: same outcome on M and on its transpose (per pair of paths whose conditions are jointly satisfiable)
        for (k1, p1), (k2, p2) in itertools.product(enumerate(results["M"]), enumerate(results["M^T"])):
            same_kind = (p1.value[0] is None) == (p2.value[0] is None) if p1.outcome == p2.outcome == "return" else False
            if same_kind and p1.value[0] is not None:
                goal = z3.And(*[a == b for a, b in zip(p1.value[:3], p2.value[:3])])
            else:
                goal = z3.BoolVal(same_kind)
            chk.obligation(f"{fn}/lemma.transpose-invariant/paths={k1}x{k2}", "lemma",
                           smt_thunk(list(p1.pc) + list(p2.pc), goal, 30, logic=None), function=fn,
                           replayer=_replay_formula(name), key=f"C15/{fn}/lemma.symmetry")


def _replay_formula(name):
    def rep(model):
        import math

        import numpy
        from cogent3.evolve import fast_distance as F
        f = getattr(F, name)
        rng = numpy.random.default_rng(3)
        cands = [numpy.array([[float(model.get(f"m{i}{j}", 0) or 0) for j in range(4)] for i in range(4)])]
        cands += [rng.integers(0, 6, (4, 4)).astype(float) for _ in range(40)] + [numpy.zeros((4, 4)), numpy.eye(4)]
        for m in cands:
            total, tr = m.sum(), numpy.trace(m)
            got = f(m)
            gt = f(m.T)
            p = (total - tr) / total if total else None
            if name == "_hamming":
                want = (None,) * 3 if not total else (total, p, total - tr)
            else:
                want = (None,) * 3 if (not total or p >= 0.75) else (total, p, -0.75 * math.log(1 - 4 * p / 3))
            def close(a, b):
                return all((x is None and y is None) or (x is not None and y is not None and abs(x - y) < 1e-9) for x, y in zip(a, b))
            if not close(got[:3], want) or not close(got[:3], gt[:3]):
                return {"failed": True, "witness": m.tolist(),
                        "description": f"{name}({m.tolist()}) = {got[:3]}, published formula {want}, on the transpose {gt[:3]}"}
        return {"failed": False, "description": "model matrix and 42 further count matrices agree with the published formula"}
    return rep


# ------------------------------------------------------------------------------------------------ counting loop
class KHooks(LoopHooks, ClassHooks):
    def __init__(self, funcs, specs):
        ClassHooks.__init__(self, funcs, set())
        self.loop_specs = specs
        self.fn_nodes = funcs

    def subscript(self, eng, obj, idx):
        if isinstance(obj, ArrV):
            if isinstance(idx, tuple) and idx and isinstance(idx[0], str) and idx[0] == "store":
                obj.write(eng, idx[1], idx[2])
                return None
            return obj.read(eng, idx)
        return super().subscript(eng, obj, idx)

    def call_method(self, eng, obj, meth, args, kw, env):
        if isinstance(obj, ArrV) and meth == "__len__":
            return obj.shape[0]
        return super().call_method(eng, obj, meth, args, kw, env)


def run_fill(chk):
    name = "fill_diversity_matrix"
    fn = f"evolve.pairwise_distance_numba.{name}"
    node = extract.get(NB, name)
    funcs = {name: node}
    n, D = z3.Ints("n D")
    s1 = ArrV.fresh("seq1", (n,), elem=I)
    s2 = ArrV.fresh("seq2", (n,), elem=I)
    M0 = ArrV.fresh("matrix", (D, D))
    orig = M0.term
    A, B = z3.Ints("A B")      # the generic cell
    CNT = z3.Function("COUNT_pairs", I, R)   # COUNT(i) = number of columns c < i with (seq1[c], seq2[c]) == (A, B)
    iq = z3.Int("iq")
    ax = z3.ForAll([iq], z3.Implies(z3.And(0 <= iq, iq < n),
                                    CNT(iq + 1) == CNT(iq) + z3.If(z3.And(s1.at(iq) == A, s2.at(iq) == B), 1.0, 0.0)))
    valid = z3.ForAll([iq], z3.Implies(z3.And(0 <= iq, iq < n), z3.And(s1.at(iq) < D, s2.at(iq) < D)))
    pre = [n >= 0, D >= 1, 0 <= A, A < D, 0 <= B, B < D, CNT(0) == 0, ax, valid]

    def inv(env, i):
        return env["matrix"].at(A, B) == z3.Select(z3.Select(orig, A), B) + CNT(i)
    if len(loop_nodes(node)) != 1:
        chk.undecided.append(f"{fn}: expected one loop")
        return
    hooks = KHooks(funcs, {(name, 0): dict(invariant=inv, modifies=["matrix"])})
    eng = Engine(funcs, hooks, prune_logic=None, prune_ms=500)

    def entry(e):
        e.state["current_function"] = name
        m = ArrV(orig, (D, D), R, name="matrix")
        e.state["m"] = m
        e.call(name, dict(matrix=m, seq1=s1, seq2=s2))
        return m
    try:
        paths = eng.run(entry, pre)
    except Unsupported as u:
        chk.undecided.append(f"{fn}: UNSUPPORTED {u}")
        return
    chk.obligation(f"{fn}/cover", "cover", cover_thunk(pre), function=fn)
    for k, p in enumerate(paths):
        for j_, nm in enumerate(getattr(p, "inline", [])):
            kind = nm.split(":")[0]
            chk.discharged_inline(f"{fn}/{nm}/path={k}.{j_}", kind if kind.startswith("inv") else "noexcept", function=fn)
        for nm, pc, cond in p.obligations:
            kind = nm.split(":")[0]
            chk.obligation(f"{fn}/{nm}/path={k}", kind if kind.startswith("inv") else "noexcept",
                           smt_thunk(pc, cond, timeout=20, logic=None, instantiate=(2, [n, D])), function=fn,
                           key=f"C15/{fn}/{nm.split('#')[0]}", replayer=_replay_fill)
        if p.outcome == "return":
            goal = p.value.at(A, B) == z3.Select(z3.Select(orig, A), B) + CNT(n)
            chk.obligation(f"{fn}/post.cell==count/path={k}", "post",
                           smt_thunk(p.pc, goal, timeout=20, logic=None, instantiate=(2, [n, D])), function=fn,
                           key=f"C15/{fn}/post", replayer=_replay_fill)


def _replay_fill(model):
    import numpy
    from cogent3.evolve.pairwise_distance_numba import fill_diversity_matrix as f
    f = getattr(f, "py_func", f)
    rng = numpy.random.default_rng(5)
    for _ in range(60):
        n = int(rng.integers(0, 7))
        a, b = rng.integers(-1, 4, n), rng.integers(-1, 4, n)
        m = numpy.zeros((4, 4))
        f(m, a, b)
        want = numpy.zeros((4, 4))
        for x, y in zip(a, b):
            if x >= 0 and y >= 0:
                want[x, y] += 1
        perm = rng.permutation(n)
        m2 = numpy.zeros((4, 4))
        f(m2, a[perm], b[perm])
        if not (numpy.array_equal(m, want) and numpy.array_equal(m2, want)):
            return {"failed": True, "witness": {"seq1": a.tolist(), "seq2": b.tolist()},
                    "description": f"fill_diversity_matrix({a.tolist()}, {b.tolist()}) = {m.tolist()}, pair counts are {want.tolist()}"}
    return {"failed": False, "description": "60 random index sequences agree with the pair counts"}


# ------------------------------------------------------------------------------------------------ TN93 (real code on symbolic reals)
def run_tn93(chk):
    """fast_distance._tn93_from_matrix, called exactly as TN93Pair calls it (the index / coordinate arguments are the
    ones the real TN93Pair.__init__ computes for the DNA and the RNA moltype), on a fully symbolic 4x4 count matrix:
    on every path that returns a distance, total, p and dist are the published Tamura-Nei (1993) quantities; a
    distance is returned exactly when the three logarithm arguments are positive."""
    import numpy

    from cogent3.evolve import fast_distance as F
    from pyvc import concolic as C
    fn = "evolve.fast_distance._tn93_from_matrix"
    chk.function(FD, "_tn93_from_matrix", "P")
    chk.function(FD, "TN93Pair.__init__", "P")
    for mt in ("dna", "rna"):
        try:
            calc = F.TN93Pair(mt)
        except Exception as e:
            chk.undecided.append(f"{fn}/cfg=({mt}): TN93Pair({mt!r}) cannot be built ({type(e).__name__}: {e})")
            continue
        args = list(calc._func_args)
        # state order of the count matrix = order of the moltype's alphabet (index i <-> i-th canonical character)
        states = "".join(str(c) for c in calc.moltype.alphabet).upper().replace("U", "T")
        if any(int(calc.char_to_indices[ord(ch)]) != i for i, ch in enumerate(str(x) for x in calc.moltype.alphabet)):
            chk.undecided.append(f"{fn}/cfg=({mt}): char_to_indices does not follow the alphabet order")
            continue
        if sorted(states) != list("ACGT"):
            chk.undecided.append(f"{fn}/cfg=({mt}): unexpected state order {states!r}")
            continue
        ix = {c: states.index(c) for c in "ACGT"}
        m = [[z3.Real(f"n_{states[i]}{states[j]}") for j in range(4)] for i in range(4)]
        flat = [x for row in m for x in row]
        n = z3.Sum(flat)
        pi = [(z3.Sum(m[i]) + z3.Sum([m[k][i] for k in range(4)])) / (2 * n) for i in range(4)]
        A, Cc, G, T = ix["A"], ix["C"], ix["G"], ix["T"]
        piR, piY = pi[A] + pi[G], pi[Cc] + pi[T]
        P1 = (m[A][G] + m[G][A]) / n
        P2 = (m[Cc][T] + m[T][Cc]) / n
        diffs = n - z3.Sum([m[i][i] for i in range(4)])
        Q = diffs / n - P1 - P2
        k1 = 2 * pi[A] * pi[G] / piR
        k2 = 2 * pi[Cc] * pi[T] / piY
        k3 = 2 * (piR * piY - pi[A] * pi[G] * piY / piR - pi[Cc] * pi[T] * piR / piY)
        a1 = 1 - P1 / k1 - Q / (2 * piR)
        a2 = 1 - P2 / k2 - Q / (2 * piY)
        a3 = 1 - Q / (2 * piR * piY)
        spec_dist = -k1 * C.LOG(a1) - k2 * C.LOG(a2) - k3 * C.LOG(a3)
        # counts are non-negative, at least one column, every base present in at least one of the two sequences
        pre = [x >= 0 for x in flat] + [n > 0] + [pi[i] * (2 * n) > 0 for i in range(4)]
        pre_lin = [x >= 0 for x in flat] + [n > 0]

        def call():
            M = numpy.empty((4, 4), dtype=object)
            for i in range(4):
                for j in range(4):
                    M[i, j] = C.Sym(m[i][j])
            return F._tn93_from_matrix(M, *args)
        try:
            paths = C.explore(call, pre)
        except Exception as e:
            chk.undecided.append(f"{fn}/cfg=({mt}): the real code cannot be evaluated on symbolic reals ({type(e).__name__}: {e})")
            continue
        base = f"{fn}/cfg=({mt})"
        from pyvc.algebra import identity_thunk
        chk.obligation(f"{base}/cover", "cover", cover_thunk([x == 3 for x in flat]), function=fn)
        n_dist = 0
        X = [z3.Real(f"logarg{i}") for i in range(3)]          # stand for the three logarithm arguments in the branch logic
        for k_, pth in enumerate(paths):
            rep = _replay_tn93(mt)
            if pth.outcome == "raise":
                chk.obligation(f"{base}/noexcept/path={k_}", "noexcept",
                               lambda v=pth.value: ("refuted", "concolic", 0.0, {}, f"the real code raises on a feasible path: {v}"),
                               function=fn, key=f"C15/{fn}/noexcept", replayer=rep)
                continue
            r = pth.value
            if r[2] is None:
                continue                        # decided below, once the logarithm arguments are known
            n_dist += 1
            total, p_, dist = C.term(r[0]), C.term(r[1]), C.term(r[2])
            args_code = pth.log_args
            if len(args_code) != 3:
                chk.obligation(f"{base}/post.three-logarithms/path={k_}", "post",
                               lambda m_=len(args_code): ("refuted", "concolic", 0.0, {}, f"{m_} logarithms taken, the formula has 3"),
                               function=fn, key=f"C15/{fn}/post", replayer=rep)
                continue
            # (1) rational-function identities: total, p, the three logarithm arguments
            for nm, lhs, rhs in (("total", total, n), ("p", p_, diffs / n), ("log-argument-1", args_code[0], a1),
                                 ("log-argument-2", args_code[1], a2), ("log-argument-3", args_code[2], a3)):
                chk.obligation(f"{base}/post.{nm}-is-the-TN93-quantity/path={k_}", "post", identity_thunk(lhs, rhs, nm),
                               function=fn, key=f"C15/{fn}/post", replayer=rep)
            # (2) the distance: the code's expression over LOG(its arguments) equals the formula over LOG(a_i); with (1)
            #     the applications coincide, so the identity is checked with the code's arguments written as a_i
            dist_spec_args = z3.substitute(dist, *[(C.LOG(args_code[i]), C.LOG([a1, a2, a3][i])) for i in range(3)])
            chk.obligation(f"{base}/post.dist-is-the-TN93-distance/path={k_}", "post", identity_thunk(dist_spec_args, spec_dist, "dist"),
                           function=fn, key=f"C15/{fn}/post", replayer=rep)
            # (3) branch logic, with the logarithm arguments abstracted: this path is taken only when all three are positive
            pc_abs = [z3.substitute(c_, *[(args_code[i], X[i]) for i in range(3)]) for c_ in pth.pc]
            chk.obligation(f"{base}/post.distance-only-when-defined/path={k_}", "post",
                           smt_thunk(pre_lin + pc_abs, z3.And(X[0] > 0, X[1] > 0, X[2] > 0), 30, logic=None), function=fn,
                           key=f"C15/{fn}/post", replayer=rep)
            for k2, other in enumerate(paths):
                if other.outcome == "return" and other.value[2] is None:
                    # a path without a distance: some logarithm argument is not positive (or there is no column at all)
                    pc2 = [z3.substitute(c_, *[(args_code[i], X[i]) for i in range(3)]) for c_ in other.pc]
                    chk.obligation(f"{base}/post.no-distance-only-when-undefined/path={k2}", "post",
                                   smt_thunk(pre_lin + pc2, z3.Not(z3.And(X[0] > 0, X[1] > 0, X[2] > 0)), 30, logic=None), function=fn,
                                   key=f"C15/{fn}/post", replayer=rep)
        if n_dist == 0:
            chk.error(f"{base}: no path returns a distance")


def _replay_tn93(mt):
    def rep(model):
        """native: TN93 distances of a calculator of this moltype against the formula in plain floats"""
        import math
        import warnings
        warnings.filterwarnings("ignore")
        from cogent3 import make_aligned_seqs
        from cogent3.evolve.fast_distance import get_distance_calculator
        s1 = "ACGTACGTACGGTTAACCGGATCGATCGTAGCTAGCTAGGATCCATGCA"
        s2 = "ACGTACATACGGCTAACCAGATCGTTCGTAGTTAGCTAGGACCCATGTA"
        if mt == "rna":
            s1, s2 = s1.replace("T", "U"), s2.replace("T", "U")
        aln = make_aligned_seqs({"a": s1, "b": s2}, moltype=mt)
        c = get_distance_calculator("tn93", moltype=aln.moltype, alignment=aln)
        c.run(show_progress=False)
        got = c.get_pairwise_distances().to_dict()[("a", "b")]
        t1, t2 = s1.replace("U", "T"), s2.replace("U", "T")
        n = len(t1)
        cnt = lambda x, y: sum(1 for p, q in zip(t1, t2) if (p, q) == (x, y))
        pi = {b: (t1.count(b) + t2.count(b)) / (2 * n) for b in "ACGT"}
        P1 = (cnt("A", "G") + cnt("G", "A")) / n
        P2 = (cnt("C", "T") + cnt("T", "C")) / n
        Q = sum(1 for p, q in zip(t1, t2) if p != q) / n - P1 - P2
        piR, piY = pi["A"] + pi["G"], pi["C"] + pi["T"]
        k1, k2 = 2 * pi["A"] * pi["G"] / piR, 2 * pi["C"] * pi["T"] / piY
        k3 = 2 * (piR * piY - pi["A"] * pi["G"] * piY / piR - pi["C"] * pi["T"] * piR / piY)
        want = -k1 * math.log(1 - P1 / k1 - Q / (2 * piR)) - k2 * math.log(1 - P2 / k2 - Q / (2 * piY)) - k3 * math.log(1 - Q / (2 * piR * piY))
        return {"failed": not (got == got) or abs(got - want) > 1e-9, "witness": {"moltype": mt, "a": s1, "b": s2},
                "description": f"TN93 ({mt}) of two 49-column sequences: {got!r}, the formula gives {want!r}"}
    return rep


def run(chk):
    chk.function(FD, "_hamming", "P")
    chk.function(FD, "_jc69_from_matrix", "P")
    chk.function(NB, "fill_diversity_matrix", "P")
    only = getattr(chk, "only", None)
    if not only or "proof" in only:
        chk.guard(run_formulas, fallback=[_replay_formula('_hamming'), _replay_formula('_jc69_from_matrix')])
        chk.guard(run_fill, fallback=[_replay_fill])
        chk.guard(run_tn93, fallback=[_replay_tn93("dna"), _replay_tn93("rna")])
        chk.discharge()
    chk.assume("float64 treated as the reals; log uninterpreted; numpy sum/diag on the fixed 4x4 matrix unrolled exactly")
    chk.assume("@njit kernel verified as its undecorated Python body (numba nopython == CPython on these values)")
    chk.assume("not decided by proof: TN93/paralinear/LogDet formulas, NJ/UPGMA exactness (induction over join sequences)")
    if (not only or "bounded" in only) and os.path.exists(os.path.join(os.path.dirname(__file__), "..", "bounded", "C15.py")):
        chk.bounded("bounded.C15")
    chk.level = "other"
    chk.explanation = ("hamming/JC69 formulas and the pair-counting kernel proved for all count matrices / sequences (smt, reals); "
                       "remaining estimators and tree reconstruction are bounded run-time contracts")
