"""C07 -- incrementally recalculated likelihoods equal a fresh calculation.

No proof tier: a deductive proof of ``Calculator.change`` (double buffer, one-deep undo, recycled arrays, cached
consequence programs over a DAG) needs quantified invariants over heap-allocated cells and a graph-closure lemma,
beyond the VC generator (DESIGN.md section 7).  The representation invariant "after every public operation every cell
of the active buffer equals calc(args) of a fresh evaluation of the same settings" is checked at run time after each
step of operation histories (bounded/C07.py); level = exploration, proved = 0."""


def run(chk):
    chk.bounded("bounded.C07")
    chk.level = "exploration"
    chk.explanation = "bounded run-time contracts only (representation invariant after every step of histories); nothing proved"
    chk.assume("no deductive obligation: history-dependent caches over a heap-allocated DAG are outside the VC generator's subset")
