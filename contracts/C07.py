"""C07 -- incrementally recalculated likelihoods equal a fresh calculation.

Proof tier (thin; the bookkeeping that decides WHAT is recalculated, not the numerical cells):

* ``ParameterController.updates_postponed`` (generator-based context manager), by exception-flow execution with the
  ``with`` block played by the contract as "returns or raises anything": on every exit ``_update_suspended`` has the
  value it had on entry, ``_updateIntermediateValues`` runs exactly once after the flag is restored, an exception of
  the block propagates.  (Nested blocks restore by the same contract: induction over nesting depth.)
* ``ParameterController.update_from_calculator`` for any number of definitions: every leaf definition is written back
  from the calculator exactly once AND handed to ``update_intermediate_values`` (ghost witness: its position in the
  list), nothing that is not a leaf is; -- whatever the optimiser moved is marked dirty.
* ``ParameterController._updateIntermediateValues`` / ``update_intermediate_values`` for any number of definitions in
  topological order: nothing happens while updates are suspended (the dirty set is kept); otherwise every definition
  in the dirty set when its turn comes is updated once, its clients are then dirty, and the dirty set is empty at the
  end (loop invariants over symbolic sequences and a symbolic set).

``Calculator.change`` (double buffer, one-deep undo, recycled arrays) is NOT proved: it needs quantified invariants
over heap-allocated cells and a graph-closure lemma (DESIGN.md section 7).  The representation invariant "after every
public operation every cell of the active buffer equals a fresh evaluation of the same settings" is checked at run
time after each step of operation histories (bounded/C07.py)."""
from __future__ import annotations

import z3

from pyvc import extract
from pyvc.harness import cover_thunk, smt_thunk
from pyvc.loops import LoopHooks, SymSeq, loop_nodes
from pyvc.objects import ClassHooks
from pyvc.symex import Engine, Opaque, Raise, Rec, Unsupported, is_sym

FILE = "cogent3/recalculation/scope.py"
CLS = "ParameterController"
I, B = z3.IntSort(), z3.BoolSort()
Defn = z3.DeclareSort("Defn")


# ------------------------------------------------------------------------------------------------ updates_postponed
class PPHooks(ClassHooks):
    def yield_(self, eng, value, env):
        # the body of the with-block: anything may happen, nested blocks restore the flag (this very contract)
        eng.state["flag_at_yield"] = env["self"].fields["_update_suspended"]
        if eng.branch(z3.Bool("block_raises")):
            raise Raise("Exception")
        return None


def run_postponed(chk):
    fn = "recalculation.scope.ParameterController.updates_postponed"
    node = extract.get(FILE, f"{CLS}.updates_postponed")
    funcs = {"updates_postponed": node}
    chk.function(FILE, f"{CLS}.updates_postponed", "P")
    s0 = z3.Bool("suspended0")
    calls = []

    def upd(eng, obj, args, kw):
        eng.state.setdefault("upd_calls", []).append(obj.fields["_update_suspended"])
        return None
    hooks = PPHooks(funcs, set(), modular={"_updateIntermediateValues": upd})
    eng = Engine(funcs, hooks)

    def entry(e):
        selfv = Rec(CLS)
        selfv.fields["_update_suspended"] = s0
        e.state["self"] = selfv
        try:
            return e.call("updates_postponed", dict(self=selfv))
        finally:
            e.state["flag_after"] = selfv.fields["_update_suspended"]
    paths = eng.run(entry, [])
    chk.obligation(f"{fn}/cover", "cover", cover_thunk([s0]), function=fn)
    kinds = set()
    for k, p in enumerate(paths):
        after = p.state.get("flag_after")
        at_yield = p.state.get("flag_at_yield")
        ucalls = p.state.get("upd_calls", [])
        raised = p.outcome == "raise"
        kinds.add(raised)
        tobool = lambda v: v if is_sym(v) else z3.BoolVal(bool(v))
        goal = z3.And(
            z3.BoolVal(at_yield is not None and after is not None and len(ucalls) == 1),
            tobool(at_yield) == True if at_yield is not None else z3.BoolVal(False),     # suspended inside the block
            tobool(after) == s0 if after is not None else z3.BoolVal(False),              # restored on every exit
            tobool(ucalls[0]) == s0 if len(ucalls) == 1 else z3.BoolVal(False),           # update runs after the restore
            z3.BoolVal(p.outcome in ("return", "raise")),
            z3.BoolVal((p.value == "Exception") if raised else True))
        chk.obligation(f"{fn}/post.flag-restored-and-one-update/{'block-raises' if raised else 'block-returns'}/path={k}", "post",
                       smt_thunk(p.pc, goal, 20), function=fn, key=f"C07/{fn}/post", replayer=_replay_postponed)
    if kinds != {True, False}:
        chk.error(f"{fn}: expected a returning and a raising block, got {kinds}")


def _public_api(fn):
    """the replayers below use public API only; when the real code raises there, the property fails on that input"""
    def run(model):
        try:
            return fn(model)
        except Exception as e:
            return {"failed": True, "witness": fn.__doc__ or fn.__name__,
                    "description": f"{fn.__name__}: the real code raises {type(e).__name__}: {str(e)[:200]}"}
    run.__name__ = fn.__name__
    return run


@_public_api
def _replay_postponed(model):
    import warnings
    warnings.filterwarnings("ignore")
    from cogent3 import get_model, make_aligned_seqs, make_tree
    lf = get_model("HKY85").make_likelihood_function(make_tree("(a:0.1,b:0.2,c:0.3);"))
    lf.set_alignment(make_aligned_seqs({"a": "ACGTAC", "b": "ACGTTC", "c": "ATGTAC"}, moltype="dna"))
    before = float(lf.lnL)
    try:
        with lf.updates_postponed():
            lf.set_param_rule("kappa", init=3.0)
            raise KeyError("block fails")
    except KeyError:
        pass
    flag = lf._update_suspended
    lf.set_param_rule("length", init=0.5)
    a = float(lf.lnL)
    lf2 = get_model("HKY85").make_likelihood_function(make_tree("(a:0.1,b:0.2,c:0.3);"))
    lf2.set_alignment(make_aligned_seqs({"a": "ACGTAC", "b": "ACGTTC", "c": "ATGTAC"}, moltype="dna"))
    lf2.set_param_rule("kappa", init=3.0)
    lf2.set_param_rule("length", init=0.5)
    b = float(lf2.lnL)
    bad = flag is not False or abs(a - b) > 1e-9
    return {"failed": bad, "witness": "with lf.updates_postponed(): set kappa; raise KeyError -- then set length",
            "description": f"after a failing postponed block: _update_suspended={flag}, lnL {a!r} vs fresh {b!r} (before {before!r})"}


# ------------------------------------------------------------------------------------------------ update_from_calculator
class UFHooks(LoopHooks, ClassHooks):
    def __init__(self, funcs, specs, modular):
        ClassHooks.__init__(self, funcs, set(), modular=modular, globals_={"_LeafDefn": ("class", "_LeafDefn")})
        self.loop_specs = specs
        self.fn_nodes = funcs

    def call_name(self, eng, name, args, kw, env):
        if name == "isinstance" and is_sym(args[0]) and args[1] == ("class", "_LeafDefn"):
            return IS_LEAF(args[0])
        if name == "list" and len(args) == 1 and isinstance(args[0], SymSeq):
            return args[0]
        return super().call_name(eng, name, args, kw, env)

    def get_attr(self, eng, obj, attr):
        if is_sym(obj) and obj.sort() == Defn:
            # a flag of the definition the code may consult: an arbitrary boolean per definition
            return z3.Function(f"defn_{attr}", Defn, B)(obj)
        return super().get_attr(eng, obj, attr)

    def call_method(self, eng, obj, meth, args, kw, env):
        if isinstance(obj, Opaque) and obj.tag == "defn_for" and meth == "values":
            return obj.attrs["seq"]
        if is_sym(obj) and obj.sort() == Defn and meth == "update_from_calculator":
            st = eng.state.setdefault("written", z3.K(Defn, z3.IntVal(0)))
            eng.state["written"] = z3.Store(st, obj, z3.Select(st, obj) + 1)
            return None
        if isinstance(obj, SymSeq) and meth == "append":
            obj.arr = z3.Store(obj.arr, obj.length, args[0])
            obj.length = obj.length + 1
            return None
        if isinstance(obj, list) and meth == "append":
            obj.append(args[0])
            return None
        return super().call_method(eng, obj, meth, args, kw, env)


IS_LEAF = z3.Function("is_leaf", Defn, B)


def run_update_from_calculator(chk):
    name = "update_from_calculator"
    fn = f"recalculation.scope.ParameterController.{name}"
    node = extract.get(FILE, f"{CLS}.{name}")
    funcs = {name: node}
    chk.function(FILE, f"{CLS}.{name}", "P")
    if len(loop_nodes(node)) != 1:
        chk.undecided.append(f"{fn}: expected one loop")
        return
    n = z3.Int("n")
    defns = SymSeq(z3.Const("defns", z3.ArraySort(I, Defn)), n, "defns")
    t, t2, k = z3.Ints("t t2 k")
    # the definitions are pairwise different objects
    distinct = z3.ForAll([t, t2], z3.Implies(z3.And(0 <= t, t < t2, t2 < n), defns.at(t) != defns.at(t2)))
    pre = [n >= 0, distinct]
    W0 = z3.K(I, z3.IntVal(-1))

    def changed_of(env):
        c = env["changed"]
        if isinstance(c, SymSeq):
            return c.arr, c.length
        if isinstance(c, list) and not c:
            return z3.K(I, z3.Const("nodefn", Defn)), z3.IntVal(0)
        raise Unsupported("shape of changed")

    def inv(env, j, eng_state=None):
        arr, ln = changed_of(env)
        W = env["__W"]
        wr = env["__written"]
        return z3.And(
            0 <= ln, ln <= j,
            # every leaf among the first j definitions sits in `changed` at its witness position, and was written once
            z3.ForAll([t], z3.Implies(z3.And(0 <= t, t < j, IS_LEAF(defns.at(t))),
                                      z3.And(0 <= z3.Select(W, t), z3.Select(W, t) < ln,
                                             z3.Select(arr, z3.Select(W, t)) == defns.at(t),
                                             z3.Select(wr, defns.at(t)) == 1))),
            # everything in `changed` is a leaf among the first j
            z3.ForAll([k], z3.Implies(z3.And(0 <= k, k < ln),
                                      z3.Exists([t], z3.And(0 <= t, t < j, IS_LEAF(defns.at(t)), defns.at(t) == z3.Select(arr, k))))),
            # nothing else was written
            z3.ForAll([t], z3.Implies(z3.And(0 <= t, t < n, z3.Or(t >= j, z3.Not(IS_LEAF(defns.at(t))))),
                                      z3.Select(wr, defns.at(t)) == 0)))

    def ghost_init(env):
        env["__W"] = W0
        env["__written"] = z3.K(Defn, z3.IntVal(0))

    spec = dict(invariant=inv, modifies=["changed", "__W", "__written"], ghost_init=ghost_init,
                havoc={"changed": lambda old: SymSeq.fresh("changed", Defn),
                       "__W": lambda old: z3.FreshConst(z3.ArraySort(I, I), "W"),
                       "__written": lambda old: z3.FreshConst(z3.ArraySort(Defn, I), "written")})

    def uiv(eng, obj, args, kw):
        eng.state["uiv_arg"] = args[0] if args else kw.get("changed")
        return None
    hooks = UFHooks(funcs, {(name, 0): spec}, modular={"update_intermediate_values": uiv})
    eng = Engine(funcs, hooks, prune_logic=None, prune_ms=300)
    # the real body's effect on the ghost state: written[] is kept in eng.state by the hook; mirror it into env
    orig_cm = hooks.call_method

    def call_method(eng_, obj, meth, args, kw, env):
        if is_sym(obj) and obj.sort() == Defn and meth == "update_from_calculator":
            env["__written"] = z3.Store(env["__written"], obj, z3.Select(env["__written"], obj) + 1)
            return None
        return orig_cm(eng_, obj, meth, args, kw, env)
    hooks.call_method = call_method

    def ghost_update(env, j):
        arr, ln = changed_of(env)
        # witness: if the j-th definition is a leaf it was appended last
        env["__W"] = z3.Store(env["__W"], j, z3.If(IS_LEAF(defns.at(j)), ln - 1, z3.Select(env["__W"], j)))
    spec["ghost_update"] = ghost_update

    def entry(e):
        e.state["current_function"] = name
        selfv = Rec(CLS)
        selfv.fields["defn_for"] = Opaque("defn_for", seq=defns)
        return e.call(name, dict(self=selfv, calc=Opaque("calculator")))
    orig_loop = hooks.loop

    def loop_and_keep(eng_, node_, env):
        orig_loop(eng_, node_, env)
        eng_.state["ghost_final"] = (env["__W"], env["__written"])
    hooks.loop = loop_and_keep
    try:
        paths = eng.run(entry, pre)
    except Unsupported as ex:
        chk.undecided.append(f"{fn}: UNSUPPORTED {ex}")
        return
    chk.obligation(f"{fn}/cover", "cover", cover_thunk(pre + [n >= 2]), function=fn)
    n_post = 0
    for kk, p in enumerate(paths):
        for j_, nm in enumerate(getattr(p, "inline", [])):
            kind = nm.split(":")[0]
            chk.discharged_inline(f"{fn}/{nm}/path={kk}.{j_}", kind if kind.startswith("inv") else "noexcept", function=fn)
        for nm, pc, cond in p.obligations:
            kind = nm.split(":")[0]
            chk.obligation(f"{fn}/{nm}/path={kk}", kind if kind.startswith("inv") else "noexcept",
                           smt_thunk(pc, cond, timeout=30, logic=None), function=fn,
                           key=f"C07/{fn}/{nm.split('#')[0]}", replayer=_replay_ufc)
        if p.outcome != "return":
            if p.outcome == "raise":
                chk.obligation(f"{fn}/noexcept/path={kk}", "noexcept", smt_thunk(p.pc, z3.BoolVal(False), 20, logic=None),
                               function=fn, key=f"C07/{fn}/noexcept", replayer=_replay_ufc)
            continue
        n_post += 1
        arg = p.state.get("uiv_arg")
        gf = p.state.get("ghost_final")
        if not isinstance(arg, SymSeq) or gf is None:
            goal = z3.BoolVal(False)
        else:
            W, wr = gf
            goal = z3.And(
                z3.ForAll([t], z3.Implies(z3.And(0 <= t, t < n, IS_LEAF(defns.at(t))),
                                          z3.And(0 <= z3.Select(W, t), z3.Select(W, t) < arg.length,
                                                 z3.Select(arg.arr, z3.Select(W, t)) == defns.at(t),
                                                 z3.Select(wr, defns.at(t)) == 1))),
                z3.ForAll([t], z3.Implies(z3.And(0 <= t, t < n, z3.Not(IS_LEAF(defns.at(t)))), z3.Select(wr, defns.at(t)) == 0)))
        chk.obligation(f"{fn}/post.every-leaf-written-back-and-marked-dirty/path={kk}", "post",
                       smt_thunk(p.pc, goal, timeout=30, logic=None), function=fn, key=f"C07/{fn}/post", replayer=_replay_ufc)
    if n_post == 0:
        chk.error(f"{fn}: no returning path")


@_public_api
def _replay_ufc(model):
    """native: optimiser write-back on a model whose optimised settings include a leaf that is not a user parameter"""
    import warnings
    warnings.filterwarnings("ignore")
    from cogent3 import get_model, make_aligned_seqs, make_tree
    tree = make_tree("((a:0.1,b:0.2)n1:0.3,c:0.3,d:0.05);")
    aln = make_aligned_seqs({"a": "ACGTRA-NACGA", "b": "ACGTAAYCACGT", "c": "ATGTGACCTCGA", "d": "CCGTAAGCACTA"}, moltype="dna")
    lf = get_model("HKY85", ordered_param="rate", distribution="free").make_likelihood_function(tree, bins=2)
    lf.set_alignment(aln)
    lf.optimise(local=True, max_evaluations=20, limit_action="ignore", show_progress=False)
    a = float(lf.lnL)
    b = float(lf.make_calculator().testfunction())
    return {"failed": abs(a - b) > 1e-9 * max(1, abs(a)), "witness": "HKY85 free rate classes, bins=2, optimise(max_evaluations=20)",
            "description": f"after optimise the function reports lnL {a!r}; a calculator newly made from the held settings gives {b!r}"}


# ------------------------------------------------------------------------------------------------ _updateIntermediateValues
POS = z3.Function("pos", Defn, I)                 # position of a definition in self.defns (topological order)
CL = z3.Function("client", Defn, I, Defn)         # k-th client of a definition
NCL = z3.Function("n_clients", Defn, I)


class ClientsSeq(SymSeq):
    def __init__(self, d):
        self.d, self.arr, self.length, self.name = d, None, NCL(d), "clients"

    def at(self, i):
        return CL(self.d, i if is_sym(i) else z3.IntVal(i))


class UIVHooks(LoopHooks, ClassHooks):
    def __init__(self, funcs, specs):
        ClassHooks.__init__(self, funcs, set())
        self.loop_specs = specs
        self.fn_nodes = funcs

    def call_name(self, eng, name, args, kw, env):
        if name == "id" and len(args) == 1 and is_sym(args[0]) and args[0].sort() == Defn:
            return args[0]                        # id() is injective on live objects: the object stands for its id
        return super().call_name(eng, name, args, kw, env)

    def get_attr(self, eng, obj, attr):
        if is_sym(obj) and obj.sort() == Defn and attr == "clients":
            return ClientsSeq(obj)
        return super().get_attr(eng, obj, attr)

    def call_method(self, eng, obj, meth, args, kw, env):
        if isinstance(obj, Opaque) and obj.tag == "set":
            if meth == "__contains__":
                return z3.Select(obj.attrs["m"], args[0])
            if meth == "add":
                obj.attrs["m"] = z3.Store(obj.attrs["m"], args[0], True)
                return None
            if meth == "clear":
                obj.attrs["m"] = z3.K(Defn, False)
                return None
        if is_sym(obj) and obj.sort() == Defn and meth == "update":
            env["__upd"] = z3.Store(env["__upd"], obj, z3.Select(env["__upd"], obj) + 1)
            return None
        return super().call_method(eng, obj, meth, args, kw, env)


def run_update_intermediate(chk):
    name = "_updateIntermediateValues"
    fn = f"recalculation.scope.ParameterController.{name}"
    node = extract.get(FILE, f"{CLS}.{name}")
    funcs = {name: node}
    chk.function(FILE, f"{CLS}.{name}", "P")
    if len(loop_nodes(node)) != 2:
        chk.undecided.append(f"{fn}: expected two loops (definitions, clients)")
        return
    n = z3.Int("n")
    defns = SymSeq(z3.Const("defns", z3.ArraySort(I, Defn)), n, "defns")
    t, t2, k = z3.Ints("t t2 k")
    dq = z3.Const("dq", Defn)
    ch0 = z3.Const("changed0", z3.ArraySort(Defn, B))
    D = defns.at
    pre = [n >= 0,
           z3.ForAll([t], z3.Implies(z3.And(0 <= t, t < n), POS(D(t)) == t)),                     # a list of distinct objects
           z3.ForAll([dq], NCL(dq) >= 0),
           # topological order: the clients of a definition come later in the list
           z3.ForAll([t, k], z3.Implies(z3.And(0 <= t, t < n, 0 <= k, k < NCL(D(t))),
                                        z3.And(POS(CL(D(t), k)) > t, POS(CL(D(t), k)) < n, D(POS(CL(D(t), k))) == CL(D(t), k)))),
           # only definitions of the list are ever marked
           z3.ForAll([dq], z3.Implies(z3.Select(ch0, dq), z3.And(0 <= POS(dq), POS(dq) < n, D(POS(dq)) == dq)))]

    def state(env):
        return env["self"].fields["_changed"].attrs["m"], env["__upd"], env["__wd"], env["__ct"], env["__ck"]

    def caused(ch, wd, ct, ck, tt, bound):
        """definition at position tt was marked by an earlier updated definition (witness ct/ck)"""
        c_t, c_k = z3.Select(ct, tt), z3.Select(ck, tt)
        return z3.And(0 <= c_t, c_t < bound, c_t < tt, z3.Select(wd, c_t), 0 <= c_k, c_k < NCL(D(c_t)), CL(D(c_t), c_k) == D(tt))

    def outer_inv(env, j):
        ch, upd, wd, ct, ck = state(env)
        return z3.And(
            # processed definitions: updated once iff they were dirty at their turn; the others not at all
            z3.ForAll([t], z3.Implies(z3.And(0 <= t, t < j), z3.Select(upd, D(t)) == z3.If(z3.Select(wd, t), 1, 0))),
            z3.ForAll([t], z3.Implies(z3.And(j <= t, t < n), z3.Select(upd, D(t)) == 0)),
            # dirty at its turn <=> initially dirty or client of an earlier dirty one
            z3.ForAll([t], z3.Implies(z3.And(0 <= t, t < j, z3.Select(wd, t)),
                                      z3.Or(z3.Select(ch0, D(t)), caused(ch, wd, ct, ck, t, j)))),
            z3.ForAll([t], z3.Implies(z3.And(0 <= t, t < j, z3.Select(ch0, D(t))), z3.Select(wd, t))),
            z3.ForAll([t, k], z3.Implies(z3.And(0 <= t, t < j, z3.Select(wd, t), 0 <= k, k < NCL(D(t))),
                                         z3.If(POS(CL(D(t), k)) < j, z3.Select(wd, POS(CL(D(t), k))), z3.Select(ch, CL(D(t), k))))),
            # the dirty set over the definitions still to come
            z3.ForAll([t], z3.Implies(z3.And(j <= t, t < n, z3.Select(ch0, D(t))), z3.Select(ch, D(t)))),
            z3.ForAll([t], z3.Implies(z3.And(j <= t, t < n, z3.Select(ch, D(t)), z3.Not(z3.Select(ch0, D(t)))),
                                      caused(ch, wd, ct, ck, t, j))),
            z3.ForAll([dq], z3.Implies(z3.Select(ch, dq), z3.And(0 <= POS(dq), POS(dq) < n, D(POS(dq)) == dq))))

    def ghost_init(env):
        env["__upd"] = z3.K(Defn, z3.IntVal(0))
        env["__wd"] = z3.K(I, False)
        env["__ct"] = z3.K(I, z3.IntVal(-1))
        env["__ck"] = z3.K(I, z3.IntVal(-1))
        env["__j"] = z3.IntVal(-1)

    def outer_ghost_update(env, j):
        # witness: was the j-th definition dirty at its turn?  (== it has been updated by this iteration)
        env["__wd"] = z3.Store(env["__wd"], j, z3.Select(env["__upd"], D(j)) == 1)

    def havoc_self(old):
        old.fields["_changed"] = Opaque("set", m=z3.FreshConst(z3.ArraySort(Defn, B), "changed"))
        return old
    gh = {"__upd": lambda o: z3.FreshConst(z3.ArraySort(Defn, I), "upd"), "__wd": lambda o: z3.FreshConst(z3.ArraySort(I, B), "wd"),
          "__ct": lambda o: z3.FreshConst(z3.ArraySort(I, I), "ct"), "__ck": lambda o: z3.FreshConst(z3.ArraySort(I, I), "ck")}
    outer = dict(invariant=outer_inv, modifies=["self", "__upd", "__wd", "__ct", "__ck"], ghost_init=ghost_init,
                 ghost_update=outer_ghost_update, havoc=dict(gh, self=havoc_self))

    # inner loop (clients of the definition being updated): env["defn"] is at position jj = POS(defn), just updated
    def inner_inv(env, m):
        ch, upd, wd, ct, ck = state(env)
        d = env["defn"]
        jj = POS(d)
        wd1 = z3.Store(wd, jj, True)             # the current definition is dirty (we are inside the if)
        return z3.And(
            z3.Select(upd, d) == 1,
            z3.ForAll([t], z3.Implies(z3.And(0 <= t, t < jj), z3.Select(upd, D(t)) == z3.If(z3.Select(wd, t), 1, 0))),
            z3.ForAll([t], z3.Implies(z3.And(jj < t, t < n), z3.Select(upd, D(t)) == 0)),
            z3.ForAll([t], z3.Implies(z3.And(0 <= t, t < jj, z3.Select(wd, t)),
                                      z3.Or(z3.Select(ch0, D(t)), caused(ch, wd, ct, ck, t, jj)))),
            z3.ForAll([t], z3.Implies(z3.And(0 <= t, t < jj, z3.Select(ch0, D(t))), z3.Select(wd, t))),
            z3.ForAll([t, k], z3.Implies(z3.And(0 <= t, t < jj, z3.Select(wd, t), 0 <= k, k < NCL(D(t))),
                                         z3.If(POS(CL(D(t), k)) <= jj, z3.Select(wd1, POS(CL(D(t), k))), z3.Select(ch, CL(D(t), k))))),
            # the clients handled so far are marked
            z3.ForAll([k], z3.Implies(z3.And(0 <= k, k < m), z3.Select(ch, CL(d, k)))),
            z3.Or(z3.Select(ch0, d), caused(ch, wd, ct, ck, jj, jj)),
            z3.ForAll([t], z3.Implies(z3.And(jj <= t, t < n, z3.Select(ch0, D(t))), z3.Select(ch, D(t)))),
            z3.ForAll([t], z3.Implies(z3.And(jj < t, t < n, z3.Select(ch, D(t)), z3.Not(z3.Select(ch0, D(t)))),
                                      caused(ch, wd1, ct, ck, t, jj + 1))),
            z3.ForAll([dq], z3.Implies(z3.Select(ch, dq), z3.And(0 <= POS(dq), POS(dq) < n, D(POS(dq)) == dq))))

    def inner_ghost_update(env, m):
        # witness for a newly marked client: marked by the current definition through its m-th client edge
        ch, upd, wd, ct, ck = state(env)
        d = env["defn"]
        c = CL(d, m)
        fresh = z3.Not(z3.Or(z3.Select(ch0, c), z3.Select(env.get("__ch_before", ch), c)))
        env["__ct"] = z3.Store(ct, POS(c), z3.If(fresh, POS(d), z3.Select(ct, POS(c))))
        env["__ck"] = z3.Store(ck, POS(c), z3.If(fresh, m, z3.Select(ck, POS(c))))
    inner = dict(invariant=inner_inv, modifies=["self", "__ct", "__ck"], ghost_update=inner_ghost_update,
                 havoc={"self": havoc_self, "__ct": gh["__ct"], "__ck": gh["__ck"]})

    hooks = UIVHooks(funcs, {(name, 0): outer, (name, 1): inner})
    eng = Engine(funcs, hooks, prune_logic=None, prune_ms=300)
    # the inner ghost update needs the dirty set as it was before the add of this iteration
    orig_cm = hooks.call_method

    def call_method(eng_, obj, meth, args, kw, env):
        if isinstance(obj, Opaque) and obj.tag == "set" and meth == "add":
            env["__ch_before"] = obj.attrs["m"]
        return orig_cm(eng_, obj, meth, args, kw, env)
    hooks.call_method = call_method

    for suspended in (False, True):
        def entry(e, suspended=suspended):
            e.state["current_function"] = name
            selfv = Rec(CLS)
            selfv.fields["_update_suspended"] = suspended
            selfv.fields["defns"] = defns
            selfv.fields["_changed"] = Opaque("set", m=ch0)
            e.state["self"] = selfv
            r = e.call(name, dict(self=selfv))
            return r
        orig_loop = UIVHooks.loop

        def loop_keep(eng_, node_, env, orig_loop=orig_loop):
            orig_loop(hooks, eng_, node_, env)
            if "__wd" in env:
                eng_.state["ghost_final"] = (env["__upd"], env["__wd"], env["__ct"], env["__ck"])
        hooks.loop = loop_keep
        try:
            paths = eng.run(entry, pre)
        except Unsupported as ex:
            chk.undecided.append(f"{fn}: UNSUPPORTED {ex}")
            return
        base = f"{fn}/cfg=(suspended={suspended})"
        chk.obligation(f"{base}/cover", "cover", cover_thunk([n >= 2]), function=fn)
        n_post = 0
        for kk, p in enumerate(paths):
            for j_, nm in enumerate(getattr(p, "inline", [])):
                kind = nm.split(":")[0]
                chk.discharged_inline(f"{base}/{nm}/path={kk}.{j_}", kind if kind.startswith("inv") else "noexcept", function=fn)
            for nm, pc, cond in p.obligations:
                kind = nm.split(":")[0]
                chk.obligation(f"{base}/{nm}/path={kk}", kind if kind.startswith("inv") else "noexcept",
                               smt_thunk(pc, cond, timeout=60, logic=None), function=fn,
                               key=f"C07/{fn}/{nm.split('#')[0]}", replayer=_replay_uiv, device=kind.startswith("inv"))
            if p.outcome == "raise":
                chk.obligation(f"{base}/noexcept/path={kk}", "noexcept", smt_thunk(p.pc, z3.BoolVal(False), 20, logic=None),
                               function=fn, key=f"C07/{fn}/noexcept", replayer=_replay_uiv)
            if p.outcome != "return":
                continue
            n_post += 1
            selfv = p.state["self"]
            ch_after = selfv.fields["_changed"].attrs["m"]
            if suspended:
                # nothing is evaluated and the dirty set is kept for the end of the postponed block
                goal = z3.And(z3.BoolVal("ghost_final" not in p.state), z3.ForAll([dq], z3.Select(ch_after, dq) == z3.Select(ch0, dq)))
            else:
                gf = p.state.get("ghost_final")
                if gf is None:
                    goal = z3.BoolVal(False)
                else:
                    upd, wd, ct, ck = gf
                    U = lambda tt: z3.Select(upd, D(tt)) == 1
                    UU = lambda tt: z3.Select(upd, D(tt)) >= 1
                    # what the property needs: everything downstream of a dirty definition is re-evaluated
                    essential = z3.And(
                        z3.ForAll([t], z3.Implies(z3.And(0 <= t, t < n, z3.Select(ch0, D(t))), UU(t))),
                        z3.ForAll([t, k], z3.Implies(z3.And(0 <= t, t < n, UU(t), 0 <= k, k < NCL(D(t))), UU(POS(CL(D(t), k))))))
                    chk.obligation(f"{base}/post.everything-downstream-of-the-dirty-set-is-updated/path={kk}", "post",
                                   smt_thunk(p.pc, essential, timeout=60, logic=None), function=fn, key=f"C07/{fn}/post",
                                   replayer=_replay_uiv)
                    goal = z3.And(
                        z3.ForAll([dq], z3.Not(z3.Select(ch_after, dq))),                                          # dirty set empty
                        z3.ForAll([t], z3.Implies(z3.And(0 <= t, t < n), z3.Or(z3.Select(upd, D(t)) == 0, U(t)))),   # at most once
                        # nothing without cause: witness is an earlier updated definition
                        z3.ForAll([t], z3.Implies(z3.And(0 <= t, t < n, U(t), z3.Not(z3.Select(ch0, D(t)))),
                                                  z3.And(0 <= z3.Select(ct, t), z3.Select(ct, t) < t, U(z3.Select(ct, t)),
                                                         0 <= z3.Select(ck, t), z3.Select(ck, t) < NCL(D(z3.Select(ct, t))),
                                                         CL(D(z3.Select(ct, t)), z3.Select(ck, t)) == D(t)))))
            chk.obligation(f"{base}/post.{'dirty-set-kept' if suspended else 'nothing-else-is-updated,at-most-once,dirty-set-emptied'}/path={kk}", "post",
                           smt_thunk(p.pc, goal, timeout=60, logic=None), function=fn, key=f"C07/{fn}/post", replayer=_replay_uiv,
                           device=not suspended)
        if n_post == 0:
            chk.error(f"{base}: no returning path")


@_public_api
def _replay_uiv(model):
    """native: a rule on one parameter must re-evaluate everything downstream (lnL equals a fresh function)"""
    import warnings
    warnings.filterwarnings("ignore")
    from cogent3 import get_model, make_aligned_seqs, make_tree
    tree = make_tree("((a:0.1,b:0.2)n1:0.3,c:0.3,d:0.05);")
    aln = make_aligned_seqs({"a": "ACGTRA-NACGA", "b": "ACGTAAYCACGT", "c": "ATGTGACCTCGA", "d": "CCGTAAGCACTA"}, moltype="dna")

    def build():
        lf = get_model("HKY85").make_likelihood_function(tree)
        lf.set_alignment(aln)
        return lf
    lf = build()
    float(lf.lnL)
    steps = [("kappa", dict(init=3.0)), ("length", dict(edge="a", init=0.7)), ("kappa", dict(init=0.5)), ("length", dict(init=0.2))]
    for i, (par, kw) in enumerate(steps):
        lf.set_param_rule(par, **kw)
        ref = build()
        for p2, kw2 in steps[:i + 1]:
            ref.set_param_rule(p2, **kw2)
        a, b = float(lf.lnL), float(ref.lnL)
        if abs(a - b) > 1e-9 * max(1, abs(a)):
            return {"failed": True, "witness": steps[:i + 1], "description": f"after {steps[:i + 1]}: lnL {a!r}, fresh function {b!r}"}
    with lf.updates_postponed():
        lf.set_param_rule("kappa", init=2.0)
        lf.set_param_rule("length", edge="b", init=0.9)
    ref = build()
    for p2, kw2 in steps + [("kappa", dict(init=2.0)), ("length", dict(edge="b", init=0.9))]:
        ref.set_param_rule(p2, **kw2)
    a, b = float(lf.lnL), float(ref.lnL)
    return {"failed": abs(a - b) > 1e-9 * max(1, abs(a)), "witness": "rules then a postponed block",
            "description": f"after rules and a postponed block: lnL {a!r}, fresh function {b!r}"}


def run(chk):
    only = getattr(chk, "only", None)
    if not only or "proof" in only:
        chk.guard(run_postponed, fallback=[_replay_postponed])
        chk.guard(run_update_from_calculator, fallback=[_replay_ufc])
        chk.guard(run_update_intermediate, fallback=[_replay_uiv])
        chk.discharge()
    chk.assume("Calculator.change (double buffer, undo, recycled arrays) and the numerical cells are not decided by proof")
    chk.assume("precondition of _updateIntermediateValues (assumed, established by ParameterController.__init__): self.defns is "
               "in topological order -- the clients of a definition come later in the list; id() is injective on live objects; "
               "only definitions of the list are ever put into the dirty set")
    chk.assume("definitions are abstract objects of an uninterpreted sort; update()/update_from_calculator() of a "
               "definition are opaque calls recorded in ghost state (their own effect is trusted)")
    if not only or "bounded" in only:
        chk.bounded("bounded.C07")
    chk.level = "other" if any(o.status == "discharged" for o in chk.obligations) else "exploration"
    chk.explanation = ("dirty-set bookkeeping of the parameter controller (postponed blocks restore the flag on every exit; "
                       "the optimiser write-back marks every leaf dirty) proved for any number of definitions "
                       "(exception-flow execution, quantified loop invariant with ghost witnesses, smt); the representation "
                       "invariant of the calculator after histories is a bounded run-time contract")
