"""C09 -- tree transformations preserve tips, topology and path lengths.

No proof tier: ``PhyloNode`` operations are recursive mutations of a parent/child heap; a deductive proof needs
separation-logic style ownership and inductive predicates, which pyvc does not have (DESIGN.md section 7).
Bounded tier only (bounded/C09.py); level = exploration, proved = 0."""


def run(chk):
    chk.bounded("bounded.C09")
    chk.level = "exploration"
    chk.explanation = "bounded run-time contracts only; nothing proved"
    chk.assume("no deductive obligation: recursive heap mutation is outside the VC generator's subset")
