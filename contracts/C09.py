"""C09 -- tree transformations preserve tips, topology and path lengths.

Proof tier (thin): ``TreeNode.unrooted`` -- the collapse of a root with fewer than three children, for children
lists and grandchildren lists of ANY length and all positive real branch lengths.  Nodes are abstract objects; the
subtree below a child or grandchild is handled only through ``deepcopy`` (assumed contract: a fresh node with the
same branch length standing for an equal copy of the subtree), so the argument is one level of the induction over
tree depth and needs no heap reasoning.  Proved, per shape of the root:

  * >= 3 children: the new root's children are the copies of the old ones, in order, lengths unchanged;
  * 2 children, the first one with children is collapsed: its children's copies take its place, the copy of the other
    child carries the sum of the two root-edge lengths, nothing else changes;
  * 1 child with children: its children's copies become the root's children;
  * and from these, for generic positions: every path length between two subtrees hanging below the old root equals
    the path length between their copies below the new root (the lemma the property states), by linear arithmetic.

Everything else (re-rooting by ``unrooted_deepcopy``, pruning, newick / JSON round trips, distances) is recursive
heap mutation or string processing and stays with the bounded tier (bounded/C09.py)."""
from __future__ import annotations

import z3

from pyvc import extract
from pyvc.harness import cover_thunk, smt_thunk
from pyvc.loops import LoopHooks, SymSeq, loop_nodes
from pyvc.objects import ClassHooks
from pyvc.symex import Engine, Opaque, Rec, Unsupported, is_sym

FILE = "cogent3/core/tree.py"
I, R_, B = z3.IntSort(), z3.RealSort(), z3.BoolSort()
Node = z3.DeclareSort("Node")
COPY = z3.Function("copy", Node, Node)                 # deepcopy of the subtree at a node (fresh node)
KID = z3.Function("kid", Node, I, Node)                # k-th child
NK = z3.Function("n_kids", Node, I)
LEN0 = z3.Function("length0", Node, R_)                # branch length before the call
PAR = z3.Function("parent", Node, Node)
IDX = z3.Function("index_in_parent", Node, I)
DEPTH = z3.Function("depth", Node, I)
# the lengths of the copies are kept in one array keyed by the ORIGINAL node: LENC[u] = length of copy(u)


class KidsSeq(SymSeq):
    def __init__(self, d):
        self.d, self.arr, self.length, self.name = d, None, NK(d), "children"

    def at(self, i):
        return KID(self.d, i if is_sym(i) else z3.IntVal(i))


class TreeHooks(LoopHooks, ClassHooks):
    def __init__(self, funcs, specs):
        ClassHooks.__init__(self, funcs, set())
        self.loop_specs = specs
        self.fn_nodes = funcs

    @staticmethod
    def _copy_of(obj):
        return obj.arg(0) if z3.is_app(obj) and obj.decl().name() == "copy" else None

    def get_attr(self, eng, obj, attr):
        if is_sym(obj) and obj.sort() == Node:
            if attr == "children":
                return KidsSeq(obj)
            if attr == "length":
                u = self._copy_of(obj)
                return LEN0(obj) if u is None else z3.Select(eng.state["LENC"], u)
        return super().get_attr(eng, obj, attr)

    def set_attr(self, eng, obj, attr, val):
        if is_sym(obj) and obj.sort() == Node and attr == "length":
            u = self._copy_of(obj)
            if u is None:
                raise Unsupported("length of an original node is assigned")     # the receiver must not be modified
            v = val if is_sym(val) else z3.RealVal(val)
            eng.state["LENC"] = z3.Store(eng.state["LENC"], u, v)
            return
        return super().set_attr(eng, obj, attr, val)

    def call_method(self, eng, obj, meth, args, kw, env):
        if is_sym(obj) and obj.sort() == Node:
            if meth == "deepcopy":
                if self._copy_of(obj) is not None:
                    raise Unsupported("copy of a copy")
                # contract of deepcopy: an equal copy of the subtree -- same branch length
                eng.state["LENC"] = z3.Store(eng.state["LENC"], obj, LEN0(obj))
                return COPY(obj)
            if meth == "_default_tree_constructor":
                return Opaque("constructor")
        if isinstance(obj, SymSeq) and not isinstance(obj, KidsSeq):
            if meth == "append":
                obj.arr = z3.Store(obj.arr, obj.length, args[0])
                obj.length = obj.length + 1
                return None
            if meth == "__len__":
                return obj.length
        if isinstance(obj, SymSeq) and meth == "__len__":
            return obj.length
        if isinstance(obj, list) and meth == "append":
            obj.append(args[0])
            return None
        return super().call_method(eng, obj, meth, args, kw, env)

    def call_value(self, eng, fn, args, kw, env):
        if isinstance(fn, Opaque) and fn.tag == "constructor":
            return Opaque("tree", edge=args[0], children=args[1])
        return super().call_value(eng, fn, args, kw, env)

    def subscript(self, eng, obj, idx):
        store = isinstance(idx, tuple) and idx and isinstance(idx[0], str) and idx[0] == "store"
        if isinstance(obj, SymSeq) and not store:
            i = idx if is_sym(idx) else z3.IntVal(idx)
            if not is_sym(idx) and idx < 0:
                i = obj.length + idx
            eng.require("noexcept:list-index-in-range", z3.And(0 <= i, i < obj.length))
            return obj.at(i)
        return super().subscript(eng, obj, idx)

    def truth(self, eng, v):
        if isinstance(v, SymSeq):
            return eng.truth(v.length != 0)
        return super().truth(eng, v)


def _as_seq(v):
    """new_children / kept as (array, length), whether still a Python list or already symbolic"""
    if isinstance(v, SymSeq):
        return v.arr, v.length
    arr = z3.K(I, z3.Const("no_node", Node))
    for i, x in enumerate(v):
        arr = z3.Store(arr, i, x)
    return arr, z3.IntVal(len(v))


def run_unrooted(chk):
    name = "unrooted"
    fn = "core.tree.TreeNode.unrooted"
    node = extract.get(FILE, "TreeNode.unrooted")
    funcs = {name: node}
    chk.function(FILE, "TreeNode.unrooted", "P")
    if len(loop_nodes(node)) != 2:
        chk.undecided.append(f"{fn}: expected two loops (children, grandchildren)")
        return
    root = z3.Const("root", Node)
    t, k = z3.Ints("t k")
    x, y = z3.Consts("x y", Node)
    pre_common = [
        z3.ForAll([x], NK(x) >= 0),
        z3.ForAll([x], LEN0(x) > 0),                                    # positive branch lengths
        z3.ForAll([x, y], z3.Implies(COPY(x) == COPY(y), x == y)),      # distinct subtrees have distinct copies
        # the nodes form a tree: a child knows its parent and its index, and lies one level deeper
        z3.ForAll([x, k], z3.Implies(z3.And(0 <= k, k < NK(x)),
                                     z3.And(PAR(KID(x, k)) == x, IDX(KID(x, k)) == k, DEPTH(KID(x, k)) == DEPTH(x) + 1))),
    ]
    LENC0 = z3.Const("lenc0", z3.ArraySort(Node, R_))

    def outer_inv(env, j):
        # degree >= 3: no expansion; new_children[t] = kept[t] = copy(kid t), lengths untouched
        nc_arr, nc_len = _as_seq(env["new_children"])
        kp_arr, kp_len = _as_seq(env["kept"])
        need = env["need_to_expand"]
        need = need if is_sym(need) else z3.BoolVal(bool(need))
        lenc = ENG[0].state["LENC"]
        return z3.And(nc_len == j, kp_len == j, z3.Not(need), z3.BoolVal(env["collapsed_length"] is None),
                      z3.ForAll([t], z3.Implies(z3.And(0 <= t, t < j),
                                                z3.And(z3.Select(nc_arr, t) == COPY(KID(root, t)),
                                                       z3.Select(kp_arr, t) == COPY(KID(root, t)),
                                                       z3.Select(lenc, KID(root, t)) == LEN0(KID(root, t))))))

    def inner_inv(env, m):
        # the grandchildren copied so far follow the prefix that was there when the loop began
        nc_arr, nc_len = _as_seq(env["new_children"])
        pre_arr, pre_len = env["__prefix"]
        old = env["oldnode"]
        lenc = ENG[0].state["LENC"]
        return z3.And(nc_len == pre_len + m,
                      z3.ForAll([t], z3.Implies(z3.And(0 <= t, t < pre_len), z3.Select(nc_arr, t) == z3.Select(pre_arr, t))),
                      z3.ForAll([t], z3.Implies(z3.And(0 <= t, t < m), z3.And(
                          z3.Select(nc_arr, pre_len + t) == COPY(KID(old, t)),
                          z3.Select(lenc, KID(old, t)) == LEN0(KID(old, t))))),
                      # frame: only the copies of this node's children were touched
                      z3.ForAll([x], z3.Implies(PAR(x) != old, z3.Select(lenc, x) == z3.Select(env["__lenc_pre"], x))))

    def inner_ghost_init(env):
        env["__prefix"] = _as_seq(env["new_children"])
        env["__lenc_pre"] = ENG[0].state["LENC"]

    ENG = [None]
    hv = {"LENC": lambda old: z3.FreshConst(z3.ArraySort(Node, R_), "lenc")}
    outer = dict(invariant=outer_inv, modifies=["new_children", "kept"], havoc_state=hv,
                 havoc={"new_children": lambda old: SymSeq.fresh("new_children", Node), "kept": lambda old: SymSeq.fresh("kept", Node)})
    inner = dict(invariant=inner_inv, modifies=["new_children"], ghost_init=inner_ghost_init, havoc_state=hv,
                 havoc={"new_children": lambda old: SymSeq.fresh("new_children", Node)})

    configs = []
    nroot = z3.Int("n_root_children")
    configs.append(("degree>=3", KidsSeq(root), [NK(root) >= 3]))
    for deg in (0, 1, 2):
        configs.append((f"degree={deg}", [KID(root, i) for i in range(deg)], [NK(root) == deg]))

    for cname, kids, extra in configs:
        hooks = TreeHooks(funcs, {(name, 0): outer, (name, 1): inner})
        orig_ga = hooks.get_attr

        def get_attr(eng, obj, attr, kids=kids, orig_ga=orig_ga):
            if is_sym(obj) and obj.sort() == Node and attr == "children" and z3.eq(obj, root):
                return kids
            return orig_ga(eng, obj, attr)
        hooks.get_attr = get_attr
        eng = Engine(funcs, hooks, prune_logic=None, prune_ms=300)
        ENG[0] = eng
        pre = pre_common + extra

        def entry(e):
            e.state["current_function"] = name
            e.state["LENC"] = LENC0
            r = e.call(name, dict(self=root))
            e.state["LEN_final"] = e.state["LENC"]
            return r
        try:
            paths = eng.run(entry, pre)
        except Unsupported as ex:
            chk.undecided.append(f"{fn}/cfg=({cname}): UNSUPPORTED {ex}")
            continue
        base = f"{fn}/cfg=({cname})"
        chk.obligation(f"{base}/cover", "cover", cover_thunk(extra + [NK(KID(root, 0)) >= 0]), function=fn)
        n_post = 0
        for kk, p in enumerate(paths):
            for j_, nm in enumerate(getattr(p, "inline", [])):
                kind = nm.split(":")[0]
                chk.discharged_inline(f"{base}/{nm}/path={kk}.{j_}", kind if kind.startswith("inv") else "noexcept", function=fn)
            for nm, pc, cond in p.obligations:
                kind = nm.split(":")[0]
                chk.obligation(f"{base}/{nm}/path={kk}", kind if kind.startswith("inv") else "noexcept",
                               smt_thunk(pc, cond, timeout=30, logic=None), function=fn,
                               key=f"C09/{fn}/{nm.split('#')[0]}", replayer=_replay_unrooted)
            if p.outcome == "raise":
                chk.obligation(f"{base}/noexcept/path={kk}", "noexcept", smt_thunk(p.pc, z3.BoolVal(False), 20, logic=None),
                               function=fn, key=f"C09/{fn}/noexcept", replayer=_replay_unrooted)
            if p.outcome != "return":
                continue
            n_post += 1
            res = p.value
            LENF = p.state.get("LEN_final")
            if not (isinstance(res, Opaque) and res.tag == "tree") or LENF is None:
                goal = z3.BoolVal(False)
            else:
                arr, ln = _as_seq(res.attrs["children"])
                Lf = lambda nd: z3.Select(LENF, nd.arg(0))           # nd is copy(u): its length is LENC[u]
                c0, c1 = KID(root, 0), KID(root, 1)
                i, j = z3.Ints("gi gj")
                deg = NK(root)
                # spec: what the children of the new root must be, by shape of the old root
                keep_all = z3.And(ln == deg, z3.ForAll([t], z3.Implies(z3.And(0 <= t, t < deg), z3.And(
                    z3.Select(arr, t) == COPY(KID(root, t)), Lf(COPY(KID(root, t))) == LEN0(KID(root, t))))))
                # degree 2, first child internal: its children, then the other child carrying both root-edge lengths
                a_first = z3.And(ln == NK(c0) + 1,
                                 z3.ForAll([t], z3.Implies(z3.And(0 <= t, t < NK(c0)), z3.And(
                                     z3.Select(arr, t) == COPY(KID(c0, t)), Lf(COPY(KID(c0, t))) == LEN0(KID(c0, t))))),
                                 z3.Select(arr, NK(c0)) == COPY(c1), Lf(COPY(c1)) == LEN0(c1) + LEN0(c0))
                # degree 2, first child a tip, second internal: the tip first (carrying both lengths), then the grandchildren
                a_second = z3.And(ln == NK(c1) + 1, z3.Select(arr, 0) == COPY(c0), Lf(COPY(c0)) == LEN0(c0) + LEN0(c1),
                                  z3.ForAll([t], z3.Implies(z3.And(0 <= t, t < NK(c1)), z3.And(
                                      z3.Select(arr, 1 + t) == COPY(KID(c1, t)), Lf(COPY(KID(c1, t))) == LEN0(KID(c1, t))))))
                one_child = z3.And(ln == NK(c0), z3.ForAll([t], z3.Implies(z3.And(0 <= t, t < NK(c0)), z3.And(
                    z3.Select(arr, t) == COPY(KID(c0, t)), Lf(COPY(KID(c0, t))) == LEN0(KID(c0, t))))))
                structural = z3.And(
                    z3.Implies(deg >= 3, keep_all),
                    z3.Implies(z3.And(deg == 2, NK(c0) > 0), a_first),
                    z3.Implies(z3.And(deg == 2, NK(c0) == 0, NK(c1) > 0), a_second),
                    z3.Implies(z3.And(deg == 2, NK(c0) == 0, NK(c1) == 0), keep_all),
                    z3.Implies(z3.And(deg == 1, NK(c0) > 0), one_child),
                    z3.Implies(z3.And(deg == 1, NK(c0) == 0), keep_all),
                    z3.Implies(deg == 0, ln == 0))
                # the lemma the property states, for generic positions: path lengths between the subtrees below the old
                # root are the path lengths between their copies below the new root
                paths_kept = z3.And(
                    z3.Implies(z3.And(deg == 2, NK(c0) > 0, 0 <= i, i < NK(c0)),
                               # grandchild i of c0 <-> subtree c1: before L(g)+L(c0)+L(c1); after L(g')+L(c1')
                               LEN0(KID(c0, i)) + LEN0(c0) + LEN0(c1) == Lf(COPY(KID(c0, i))) + Lf(COPY(c1))),
                    z3.Implies(z3.And(deg == 2, NK(c0) > 0, 0 <= i, i < j, j < NK(c0)),
                               LEN0(KID(c0, i)) + LEN0(KID(c0, j)) == Lf(COPY(KID(c0, i))) + Lf(COPY(KID(c0, j)))),
                    z3.Implies(z3.And(deg == 2, NK(c0) == 0, NK(c1) > 0, 0 <= i, i < NK(c1)),
                               LEN0(KID(c1, i)) + LEN0(c1) + LEN0(c0) == Lf(COPY(KID(c1, i))) + Lf(COPY(c0))),
                    z3.Implies(z3.And(deg >= 3, 0 <= i, i < j, j < deg),
                               LEN0(KID(root, i)) + LEN0(KID(root, j)) == Lf(COPY(KID(root, i))) + Lf(COPY(KID(root, j)))))
                goal = z3.And(structural, paths_kept)
            chk.obligation(f"{base}/post.new-root-children-and-path-lengths/path={kk}", "post",
                           smt_thunk(p.pc, goal, timeout=60, logic=None), function=fn, key=f"C09/{fn}/post",
                           replayer=_replay_unrooted)
        if n_post == 0:
            chk.error(f"{base}: no returning path")


def _replay_unrooted(model):
    """native: tip-to-tip distances of tree.unrooted() for every small root shape with distinct lengths"""
    import itertools
    import warnings
    warnings.filterwarnings("ignore")
    from cogent3 import make_tree
    shapes = ["(a:1,b:2);", "(a:1,(b:2,c:3)x:4);", "((a:1,b:2)x:3,c:4);", "((a:1,b:2)x:3,(c:4,d:5)y:6);", "((a:1,b:2,c:7)x:3,d:4);",
              "(a:1,b:2,c:3);", "((a:1,b:2)x:3,c:4,d:5);", "((a:1,b:2)x:3);", "((a:1,(b:2,e:8)z:9)x:3,(c:4,d:5)y:6);",
              "((a:1,b:2)x:3,(c:4,d:5)y:6,(e:7,f:8)z:9,g:10);"]
    for nw in shapes:
        tr = make_tree(nw)
        before = tr.get_distances()
        try:
            un = tr.unrooted()
            after = un.get_distances()
        except Exception as ex:
            return {"failed": True, "witness": nw, "description": f"make_tree({nw!r}).unrooted() raises {type(ex).__name__}: {ex}"}
        bad = {kk: (before[kk], after.get(kk)) for kk in before if abs(before[kk] - after.get(kk, float('nan'))) > 1e-12 or kk not in after}
        if bad or len(un.children) < min(3, len(tr.get_tip_names())):
            kk = sorted(bad)[0] if bad else None
            return {"failed": True, "witness": nw,
                    "description": f"make_tree({nw!r}).unrooted() = {un.get_newick(with_distances=True)}: "
                                   + (f"d{kk} was {bad[kk][0]} and is {bad[kk][1]}" if bad else "root still has fewer than 3 children")}
    return {"failed": False, "description": f"{len(shapes)} root shapes keep their tip-to-tip distances"}


def run(chk):
    only = getattr(chk, "only", None)
    if not only or "proof" in only:
        chk.guard(run_unrooted, fallback=[_replay_unrooted])
        chk.discharge()
    chk.assume("assumed contract: node.deepcopy(constructor) returns a fresh node standing for an equal copy of the subtree "
               "(same branch length, same descendants); proved part = one level of the induction over tree depth")
    chk.assume("not decided by proof: unrooted_deepcopy / rooted_at / rooted_with_tip / root_at_midpoint, get_sub_tree, sorting, "
               "newick and JSON round trips, tree distances (recursive heap mutation, string parsing)")
    if not only or "bounded" in only:
        chk.bounded("bounded.C09")
    chk.level = "other" if any(o.status == "discharged" for o in chk.obligations) else "exploration"
    chk.explanation = ("TreeNode.unrooted proved for children / grandchildren lists of any length and all positive lengths "
                       "(structural postcondition + path-length lemma for generic positions; loop invariants, smt); all other "
                       "transformations, round trips and distances are bounded run-time contracts")
