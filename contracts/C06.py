"""C06 -- sequence file formats round-trip and all parsers of a format agree.

Proof tier (thin, linear integer arithmetic, all lengths and block sizes): the block arithmetic of the writers --
``PhylipFormatter.format`` and ``_AlignmentFormatter.slice_string_in_blocks`` (used by the PAML and GDE writers): the
segment emitted for block j is seq[j*B : min(L, (j+1)*B)], it is non-empty and inside the sequence, so the segments
are contiguous, start at 0 and end at the alignment length (arithmetic lemma); the PHYLIP name field is exactly 10
columns.  String-level parse(write(x)) == x needs textwrap / splitlines / regex semantics: bounded tier only
(bounded/C06.py).
"""
from __future__ import annotations

import os

import z3

from pyvc import extract
from pyvc.dsl import Defs, fdiv
from pyvc.harness import cover_thunk, smt_thunk
from pyvc.loops import LoopHooks, loop_nodes
from pyvc.objects import ClassHooks
from pyvc.symex import Engine, Opaque, PathAbort, Rec, SliceV, Unsupported, is_sym

PHY = "cogent3/format/phylip.py"
UTIL = "cogent3/format/util.py"


class FmtHooks(LoopHooks, ClassHooks):
    def __init__(self, funcs, specs):
        ClassHooks.__init__(self, funcs, set())
        self.loop_specs = specs
        self.fn_nodes = funcs

    def subscript(self, eng, obj, idx):
        if isinstance(obj, Opaque) and obj.tag in ("seq", "name") and isinstance(idx, SliceV) and idx.step is None:
            from pyvc.dsl import imax
            from speclib.slices import py_slice_indices
            L = obj.attrs["length"]
            lo, hi = py_slice_indices(idx.start, idx.stop, 1, L)
            out = Opaque(obj.tag + "-slice", length=imax(hi - lo, 0), lo=lo, hi=hi, of=obj,
                         raw=(idx.start, idx.stop))
            return out
        return super().subscript(eng, obj, idx)

    def call_method(self, eng, obj, meth, args, kw, env):
        if isinstance(obj, list) and meth == "append" and eng.state.get("capture") is not None:
            eng.state["capture"].append(args[0])
            return None
        return super().call_method(eng, obj, meth, args, kw, env)


def seg_ok(seg, j, B, L):
    """the emitted piece is seq[j*B : min(L, (j+1)*B)], non-empty and inside the sequence"""
    lo, hi = seg.attrs["lo"], seg.attrs["hi"]
    want_hi = z3.If((j + 1) * B <= L, (j + 1) * B, L)
    return z3.And(lo == j * B, hi == want_hi, lo < hi, hi <= L)


def run_blocks(chk):
    L, B = z3.Ints("L B")
    pre = [L >= 0, B >= 1]
    # ---- slice_string_in_blocks
    fn = "format.util._AlignmentFormatter.slice_string_in_blocks"
    node = extract.get(UTIL, "_AlignmentFormatter.slice_string_in_blocks")
    funcs = {"slice_string_in_blocks": node}
    hooks = FmtHooks(funcs, {("slice_string_in_blocks", 0): dict(invariant=lambda env, i: z3.BoolVal(True), modifies=[])})
    eng = Engine(funcs, hooks)
    seq = Opaque("seq", length=L)

    def entry(e):
        e.state["current_function"] = "slice_string_in_blocks"
        e.state["capture"] = []
        selfv = Rec("formatter", block_size=B)
        return e.call("slice_string_in_blocks", dict(self=selfv, seq_string=seq, alt_block_size=0))
    _emit_blocks(chk, fn, eng, entry, pre, B, L, inner=lambda item: item)
    # ---- PhylipFormatter.format (inner loop #1; the outer loop runs over one generic sequence name)
    fn = "format.phylip.PhylipFormatter.format"
    node = extract.get(PHY, "PhylipFormatter.format")
    funcs = {"format": node, "set_block_size": extract.get(UTIL, "_AlignmentFormatter.set_block_size")}
    n = z3.Int("namelen")
    name = Opaque("name", length=n)
    hooks = FmtHooks(funcs, {("format", 1): dict(invariant=lambda env, i: z3.BoolVal(True), modifies=[])})
    eng = Engine(funcs, hooks)

    def entry2(e):
        e.state["current_function"] = "format"
        e.state["capture"] = []
        selfv = Rec("PhylipFormatter", number_sequences=1, align_length=L, align_order=[name], block_size=None)
        hooks.modular["set_align_info"] = lambda eng_, s_, a_, k_: None
        return e.call("format", dict(self=selfv, alignment_dict={name: seq}, block_size=B, order=[name]))
    _emit_blocks(chk, fn, eng, entry2, pre + [n >= 0], B, L, inner=_phylip_piece, name_field=True)
    # ---- arithmetic lemma: the specified pieces tile [0, L)
    j = z3.Int("j")
    Defs.push()
    cnt = fdiv(L + B - 1, B)
    defs, nz = Defs.pop()
    hi = lambda k: z3.If((k + 1) * B <= L, (k + 1) * B, L)
    lemma = z3.And(z3.Implies(z3.And(0 <= j, j + 1 < cnt), hi(j) == (j + 1) * B),      # next piece starts where this ends
                   z3.Implies(cnt > 0, hi(cnt - 1) == L),                               # last piece ends at L
                   z3.Implies(L == 0, cnt == 0))
    chk.obligation("format/lemma.block-pieces-tile-the-sequence", "lemma", smt_thunk(pre + list(defs), lemma, 30),
                   function="format (block arithmetic)", key="C06/format/lemma.tiling")


def _phylip_piece(item):
    """f"{prefix}{seq[block:to]}\\n" evaluates to a Template-less opaque text: the engine keeps the parts"""
    return item


def _emit_blocks(chk, fn, eng, entry, pre, B, L, inner, name_field=False):
    try:
        paths = eng.run(entry, pre)
    except Unsupported as u:
        chk.undecided.append(f"{fn}: UNSUPPORTED {u}")
        return
    chk.obligation(f"{fn}/cover", "cover", cover_thunk(pre), function=fn)
    n_seg = 0
    for k, p in enumerate(paths):
        penv = p.state.get("preserve_env")
        if p.outcome != "abort" or penv is None:
            continue
        # a preserve-path of the annotated loop: the piece appended by the generic iteration is the last list item
        lst = penv.get("block_list", penv.get("seqs"))
        if not lst:
            continue
        item = lst[-1]
        seg = _find_seg(item)
        if seg is None:
            chk.obligation(f"{fn}/post.piece/path={k}", "post", lambda: ("refuted", "pyvc", 0.0, None, f"appended item is not a slice of the sequence: {item!r}"),
                           function=fn, key=f"C06/{fn}/post.piece")
            continue
        n_seg += 1
        jv = p.state["preserve_iter"]
        goal = seg_ok(seg, jv, B, L)
        chk.obligation(f"{fn}/post.piece-j==seq[jB:min(L,(j+1)B)]/path={k}", "post", smt_thunk(p.pc, goal, 30), function=fn,
                       key=f"C06/{fn}/post.piece", replayer=_replay_blocks(fn))
        if name_field:
            pre_ = _find_prefix(item)
            if pre_ is not None:
                goal2 = pre_ == 10
                chk.obligation(f"{fn}/post.name-field-is-10-columns/path={k}", "post", smt_thunk(p.pc, goal2, 30), function=fn,
                               key=f"C06/{fn}/post.name-field", replayer=_replay_blocks(fn))
    if n_seg == 0:
        chk.error(f"{fn}: no block piece captured")


def _iter_var(p):
    for c in p.pc:
        for v in _vars(c):
            if str(v).startswith("it"):
                return v
    raise Unsupported("iteration variable not found")


def _vars(e, acc=None):
    acc = [] if acc is None else acc
    if z3.is_const(e) and e.decl().kind() == z3.Z3_OP_UNINTERPRETED:
        acc.append(e)
    for c in e.children():
        _vars(c, acc)
    return acc


def _find_seg(item):
    from pyvc.symex import Template
    if isinstance(item, Opaque) and item.tag == "seq-slice":
        return item
    if isinstance(item, Opaque) and "parts" in item.attrs:
        for x in item.attrs["parts"]:
            if isinstance(x, Opaque) and x.tag == "seq-slice":
                return x
    return None


def _find_prefix(item):
    if isinstance(item, Opaque) and "parts" in item.attrs:
        for x in item.attrs["parts"]:
            if isinstance(x, Opaque) and x.tag == "text" and "length" in x.attrs:
                return x.attrs["length"]
            if isinstance(x, str) and x == " " * 10:
                return z3.IntVal(10)
    return None


def _replay_blocks(fn):
    def rep(model):
        from cogent3.format.phylip import alignment_to_phylip
        from cogent3.format.paml import alignment_to_paml
        for L in list(range(0, 14)) + [59, 60, 61, 120, 121]:
            for B in (1, 2, 3, 5, 60):
                seq = "".join("ACGT"[i % 4] for i in range(L))
                if L == 0:
                    continue
                for name in ("s", "abcdefghi", "abcdefghij", "abcdefghijk"):
                    txt = alignment_to_phylip({name: seq}, block_size=B)
                    lines = txt.split("\\n")[1:]
                    got = "".join(l[10:] for l in lines)
                    if got != seq or any(len(l) < 10 for l in lines if l):
                        return {"failed": True, "witness": {"name": name, "L": L, "block_size": B},
                                "description": f"alignment_to_phylip({{{name!r}: <{L} chars>}}, block_size={B}): sequence columns reassemble to {got!r}"}
                    p = alignment_to_paml({name: seq}, block_size=B)
                    body = "".join(p.split("\\n")[2:])
                    if body != seq:
                        return {"failed": True, "witness": {"L": L, "block_size": B},
                                "description": f"alignment_to_paml block_size={B} L={L}: blocks reassemble to {body!r}"}
        return {"failed": False, "description": "phylip/paml block reassembly agrees natively on lengths 0..13,59..61,120,121"}
    return rep


def run(chk):
    chk.function(PHY, "PhylipFormatter.format", "P")
    chk.function(UTIL, "_AlignmentFormatter.slice_string_in_blocks", "P")
    only = getattr(chk, "only", None)
    if not only or "proof" in only:
        chk.guard(run_blocks)
        chk.discharge()
    chk.assume("str slicing follows CPython slice semantics; printf '%-10s' pads to width 10 (trusted)")
    chk.assume("not decided by proof: parse(write(x)) == x at string level (textwrap, splitlines, regex), parser agreement, compression")
    if (not only or "bounded" in only) and os.path.exists(os.path.join(os.path.dirname(__file__), "..", "bounded", "C06.py")):
        chk.bounded("bounded.C06")
    chk.level = "other"
    chk.explanation = ("writer block arithmetic proved for all lengths and block sizes (smt); format round trips and parser "
                       "agreement are bounded run-time contracts")
