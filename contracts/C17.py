"""C17 -- annotation databases return exactly the matching records.

Proof tier: the WHERE clause built by ``annotation_db._matching_conditions`` is obtained by *symbolic
execution of the real function* (start/stop are symbolic integers, f-strings become text templates with
symbolic holes), parsed by a tiny boolean/comparison grammar into a formula over a symbolic record
(rs, re) and proved equivalent to the interval predicate of the property for all integers.
Bounded tier: bounded/C17.py (queries == linear scan; record multiset preserved by set operations).
"""
from __future__ import annotations

import itertools
import re

import z3

from pyvc import extract
from pyvc.harness import cover_thunk, smt_thunk
from pyvc.objects import ClassHooks
from pyvc.symex import Engine, Template, Unsupported, is_sym

FILE = "cogent3/core/annotation_db.py"

OTHER_SHAPES = {
    "none": {},
    "str": {"seqid": "s1"},
    "like": {"attributes": "%gene%"},
    "two": {"seqid": "s1", "biotype": "gene"},
    "in-list": {"biotype": ["gene", "cds"]},
    "in-tuple+eq": {"name": ("a", "b", "c"), "strand": "-"},
    # unset (None) filters are passed through by subset(): they must contribute nothing
    "all-none": {"seqid": None, "biotype": None},
    "none+str": {"seqid": None, "biotype": "gene", "name": None},
}


class SqlParser:
    """expr := conj (OR conj)* ; conj := atom (AND atom)* ; atom := '(' expr ')' | term cmp term |
    col IN '(' ?,... ')' | col (LIKE|=) ?      -- terms: start, stop (record columns), integers, symbolic holes"""

    def __init__(self, sql, rs, re_):
        self.toks = []
        self.holes = 0
        parts = sql.parts if isinstance(sql, Template) else [sql]
        for p in parts:
            if isinstance(p, str):
                self.toks.extend(re.findall(r"\(|\)|,|\?|<=|>=|<|>|=|%|[A-Za-z_][A-Za-z_0-9]*|-?\d+", p))
                leftover = re.sub(r"\(|\)|,|\?|<=|>=|<|>|=|%|[A-Za-z_][A-Za-z_0-9]*|-?\d+|\s+", "", p)
                if leftover:
                    raise ValueError(f"unparsed SQL text {leftover!r}")
            else:
                self.toks.append(p)
        self.pos = 0
        self.rs, self.re = rs, re_
        self.atoms = []
        self.placeholders = 0

    def peek(self):
        return self.toks[self.pos] if self.pos < len(self.toks) else None

    def eat(self, t=None):
        tok = self.peek()
        if t is not None and not (isinstance(tok, str) and tok == t):
            raise ValueError(f"expected {t!r}, got {tok!r} at {self.pos}: {self.toks}")
        self.pos += 1
        return tok

    def parse(self):
        e = self.expr()
        if self.pos != len(self.toks):
            raise ValueError(f"trailing tokens {self.toks[self.pos:]}")
        return e

    def expr(self):
        e = self.conj()
        while self.peek() == "OR" if isinstance(self.peek(), str) else False:
            self.eat()
            e = z3.Or(e, self.conj())
        return e

    def conj(self):
        e = self.atom()
        while self.peek() == "AND" if isinstance(self.peek(), str) else False:
            self.eat()
            e = z3.And(e, self.atom())
        return e

    def term(self):
        t = self.eat()
        if is_sym(t):
            return t
        if t == "start":
            return self.rs
        if t == "stop":
            return self.re
        if re.fullmatch(r"-?\d+", t):
            return z3.IntVal(int(t))
        raise ValueError(f"term {t!r}")

    def atom(self):
        t = self.peek()
        if isinstance(t, str) and t == "(":
            self.eat()
            e = self.expr()
            self.eat(")")
            return e
        nxt = self.toks[self.pos + 1] if self.pos + 1 < len(self.toks) else None
        if isinstance(t, str) and t not in ("start", "stop") and re.fullmatch(r"[A-Za-z_]\w*", t) and nxt in ("IN", "LIKE", "="):
            col = self.eat()
            op = self.eat()
            if op == "IN":
                self.eat("(")
                n = 0
                while True:
                    self.eat("?")
                    n += 1
                    if self.peek() == ",":
                        self.eat()
                        continue
                    break
                self.eat(")")
                self.placeholders += n
                a = z3.Bool(f"row.{col} IN #{n}")
            else:
                self.eat("?")
                self.placeholders += 1
                a = z3.Bool(f"row.{col} {op} ?")
            self.atoms.append(a)
            return a
        l = self.term()
        op = self.eat()
        r = self.term()
        return {"<=": l <= r, ">=": l >= r, "<": l < r, ">": l > r, "=": l == r}[op]


def spec_window(rs, re_, S, E, has_s, has_e, partial):
    if has_s and has_e:
        contained = z3.And(S <= rs, re_ <= E)
        return z3.Or(contained, z3.And(rs < E, re_ > S)) if partial else contained
    if has_s:
        return z3.And(rs <= S, S < re_)
    if has_e:
        return z3.And(rs <= E, E < re_)
    return z3.BoolVal(True)


def job_matching(chk, has_s, has_e, partial, shape):
    fn = "core.annotation_db._matching_conditions"
    funcs = {"_matching_conditions": extract.get(FILE, "_matching_conditions")}
    hooks = ClassHooks(funcs, set())
    S, E, rs, re_ = z3.Ints("S E rs re")
    cond = {k: (list(v) if isinstance(v, list) else v) for k, v in OTHER_SHAPES[shape].items()}
    n_expected = sum(len(v) if isinstance(v, (list, tuple)) else 1 for v in cond.values() if v is not None)
    if has_s:
        cond["start"] = S
    if has_e:
        cond["stop"] = E
    cfg = f"(start={'S' if has_s else '·'},stop={'E' if has_e else '·'},allow_partial={partial},other={shape})"
    eng = Engine(funcs, hooks)
    try:
        paths = eng.run(lambda e: e.call("_matching_conditions", dict(conditions=cond, allow_partial=partial)), [])
    except Unsupported as u:
        chk.undecided.append(f"{fn}/cfg={cfg}: UNSUPPORTED {u}")
        return
    base = f"{fn}/cfg={cfg}"
    if len(paths) != 1:
        chk.undecided.append(f"{base}: expected one path for concrete argument shapes, got {len(paths)}")
        return
    p = paths[0]
    if p.outcome != "return" or not isinstance(p.value, tuple) or len(p.value) != 2:
        chk.obligation(f"{base}/post", "post", lambda: ("refuted", "syntactic", 0.0, None, f"outcome {p.outcome} {p.value!r}"),
                       function=fn, key=f"C17/{fn}/post")
        return
    sql, vals = p.value
    hyps = [rs <= re_]
    if has_s and has_e:
        hyps.append(S < E)
    if (sql == "" or (isinstance(sql, Template) and not sql.parts)):
        formula, nph, atoms = z3.BoolVal(True), 0, []
    else:
        try:
            ps = SqlParser(sql, rs, re_)
            formula = ps.parse()
            nph, atoms = ps.placeholders, ps.atoms
        except ValueError as ex:
            msg = f"WHERE clause is not well-formed SQL of the expected grammar: {ex}: {sql!r}"
            chk.obligation(f"{base}/post", "post",
                           lambda msg=msg: ("refuted", "syntactic", 0.0, {"S": 2, "E": 8, "rs": 2, "re": 5}, msg),
                           function=fn, key=f"C17/{fn}/grammar", replayer=_replay_subset_none)
            return
    # the non-coordinate conditions, read from the *arguments* (not from the SQL produced): a string without '%' is
    # an exact match, with '%' a LIKE pattern, a list/tuple a membership test; None contributes nothing
    want_atoms, want_vals = [], []
    for col, v in OTHER_SHAPES[shape].items():
        if v is None:
            continue
        if isinstance(v, (list, tuple)):
            want_atoms.append(z3.Bool(f"row.{col} IN #{len(v)}"))
            want_vals.extend(v)
        else:
            want_atoms.append(z3.Bool(f"row.{col} {'LIKE' if isinstance(v, str) and '%' in v else '='} ?"))
            want_vals.append(v)
    spec = z3.And(*want_atoms, spec_window(rs, re_, S, E, has_s, has_e, partial)) if want_atoms else \
        spec_window(rs, re_, S, E, has_s, has_e, partial)
    chk.obligation(f"{base}/cover", "cover", cover_thunk(hyps + [formula]), function=fn) if (has_s or has_e) else None
    chk.obligation(f"{base}/post.where==window", "post", smt_thunk(hyps, formula == spec, timeout=20), function=fn,
                   replayer=_replay(has_s, has_e, partial, shape), key=f"C17/{fn}/post.window")
    nvals = len(vals) if isinstance(vals, (tuple, list)) else -1
    ok = nph == nvals == n_expected and not any(is_sym(v) for v in (vals or ())) and list(vals or ()) == want_vals
    chk.obligation(f"{base}/post.placeholders", "post",
                   (lambda ok=ok, nph=nph, nvals=nvals: ("proved" if ok else "refuted", "syntactic", 0.0, None,
                                                          f"{nph} placeholders, {nvals} values, {n_expected} expected")),
                   function=fn, key=f"C17/{fn}/post.placeholders")


def _replay(has_s, has_e, partial, shape):
    def rep(model):
        from cogent3.core.annotation_db import BasicAnnotationDb
        S, E, rs, re_ = (model.get(k, 0) for k in ("S", "E", "rs", "re"))
        if rs < 0 or S < 0 or E < 0 or rs > re_:
            sh = -min(rs, S, E, 0)
            S, E, rs, re_ = S + sh, E + sh, rs + sh, re_ + sh
        db = BasicAnnotationDb()
        db.add_feature(seqid="s1", biotype="gene", name="f", spans=[(rs, re_)], strand="+")
        kw = {}
        if has_s:
            kw["start"] = S
        if has_e:
            kw["stop"] = E
        # exact matching of string conditions: siblings that only a LIKE would confuse with the queried names
        db2 = BasicAnnotationDb()
        for sid in ("s_1", "s11", "S_1"):
            db2.add_feature(seqid=sid, biotype="gene", name="g_1", spans=[(rs, re_)], strand="+")
        hits = sorted(r["seqid"] for r in db2.get_features_matching(seqid="s_1"))
        if hits != ["s_1"]:
            return {"failed": True, "witness": dict(seqids=["s_1", "s11", "S_1"], query="s_1"),
                    "description": f"records on seqids s_1, s11, S_1: get_features_matching(seqid='s_1') returns {hits}"}
        got = len(list(db.get_features_matching(seqid="s1", allow_partial=partial, **kw)))
        want = 1 if (lambda: (
            ((S <= rs and re_ <= E) or (partial and rs < E and re_ > S)) if has_s and has_e else
            (rs <= S < re_) if has_s else (rs <= E < re_) if has_e else True))() else 0
        return {"failed": got != want, "witness": dict(record=[rs, re_], start=S if has_s else None, stop=E if has_e else None,
                                                       allow_partial=partial),
                "description": f"record span ({rs},{re_}) query start={S if has_s else None} stop={E if has_e else None} "
                               f"allow_partial={partial}: returned {got} records, linear scan selects {want}"}
    return rep


def _replay_subset_none(model):
    from cogent3.core.annotation_db import BasicAnnotationDb
    db = BasicAnnotationDb()
    db.add_feature(seqid="s1", biotype="gene", name="g1", spans=[(2, 5)])
    try:
        got = len(db.subset(start=2, stop=8))
        return {"failed": got != 1, "description": f"db.subset(start=2, stop=8) on one record (2,5) -> {got} records"}
    except Exception as e:
        return {"failed": True, "witness": "db.subset(start=2, stop=8)",
                "description": f"BasicAnnotationDb with one feature (2,5): db.subset(start=2, stop=8) raises {type(e).__name__}: {e}"}


def dispatch(chk, jobname, args):
    globals()[jobname](chk, *args)


def run(chk):
    chk.function(FILE, "_matching_conditions", "P")
    only = getattr(chk, "only", None)
    if not only or "proof" in only:
        jobs = []
        for has_s, has_e, partial in itertools.product((False, True), repeat=3):
            for shape in OTHER_SHAPES:
                jobs.append(("job_matching", (has_s, has_e, partial, shape)))
        chk.parallel("contracts.C17", "dispatch", jobs)
    chk.assume("sqlite3 evaluates the generated WHERE clause with integer comparison semantics (trusted)")
    chk.assume("records satisfy start <= stop; query windows satisfy start < stop when both are given (an empty or "
               "inverted window is outside the contract's precondition)")
    chk.assume("the non-coordinate conditions are checked for the finite set of value shapes in OTHER_SHAPES "
               "(0-2 columns; str, LIKE pattern, list, tuple): bounded in the number of columns, exact in start/stop")
    import os
    if (not only or "bounded" in only) and os.path.exists(os.path.join(os.path.dirname(__file__), "..", "bounded", "C17.py")):
        chk.bounded("bounded.C17")
    chk.level = "other"
    chk.explanation = ("WHERE-clause == interval predicate proved for all integer windows and record spans (smt) from the "
                       "symbolically executed real function; query results vs linear scan and record-multiset "
                       "preservation are bounded run-time contracts")
