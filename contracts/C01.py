"""C01 -- sequence views obey the slice / rc algebra.

Proof tier: the integer view algebra of ``SliceRecordABC`` (old ``core.sequence``, new ``core.new_sequence``
and ``new_alignment.SeqDataView``), generated from the real source on every run (DESIGN.md section 6 / C01).
Bounded tier: ``bounded/C01.py`` (method delegation, complementing, moltype conversion, parent coordinates).
"""
from __future__ import annotations

import itertools

import z3

from pyvc import extract, smt
from pyvc.dsl import And, Defs, Implies, Not, Or, ite
from pyvc.harness import cover_thunk, smt_thunk
from pyvc.objects import ClassHooks
from pyvc.symex import Engine, Opaque, Raise, Rec, SliceV, Unsupported, fresh_int
from speclib import slices as S

TARGETS = {
    "core.sequence.SeqView": dict(file="cogent3/core/sequence.py", cls="SeqView",
                                  base_file="cogent3/core/sequence.py", base="SliceRecordABC"),
    "core.new_sequence.SeqView": dict(file="cogent3/core/new_sequence.py", cls="SeqView",
                                      base_file="cogent3/core/new_sequence.py", base="SliceRecordABC"),
    "core.new_alignment.SeqDataView": dict(file="cogent3/core/new_alignment.py", cls="SeqDataView",
                                           base_file="cogent3/core/new_sequence.py", base="SliceRecordABC"),
}

VIEW_METHODS = ["__getitem__", "_get_index", "_get_slice", "_get_reverse_slice",
                "_get_forward_slice_from_forward_seqview_", "_get_forward_slice_from_reverse_seqview_",
                "_get_reverse_slice_from_forward_seqview_", "_get_reverse_slice_from_reverse_seqview_",
                "__len__", "parent_start", "parent_stop", "absolute_position", "relative_position",
                "is_reversed", "offset"]


# --------------------------------------------------------------------------------------------- contracts
def empty_range(a, b, c):
    return ite(c > 0, a >= b, b >= a)


def post_input_vals(sign, seqlen, start, stop, step, r):
    """strongest postcondition of _input_vals_pos_step / _input_vals_neg_step (requires seqlen>=0, sign*step>0)"""
    a, b = S.py_slice_indices(start, stop, step, seqlen)
    s, e, st = r
    shift = 0 if sign > 0 else seqlen
    return And(S.inv(s, e, st, seqlen),
               ite(empty_range(a, b, step), s == e, And(s == a - shift, e == b - shift, st == step)))


def view_tuple(v):
    return (v.fields["start"], v.fields["stop"], v.fields["step"], v.fields["_offset"], v.fields["_seq_len"])


def post_getitem_slice(selfv, a, b, c, r, same_parent):
    """postcondition of __getitem__(slice(a,b,c)), c != 0, for a receiver satisfying inv"""
    s0, e0, st0, off0, L0 = selfv
    s1, e1, st1, off1, L1 = r
    n = S.view_len(s0, e0, st0)
    cc = 1 if c is None else c
    a1, b1 = S.py_slice_indices(a, b, cc, n)
    m = S.len_range(a1, b1, cc)
    return And(S.inv(s1, e1, st1, L1), off1 >= 0,
               S.view_len(s1, e1, st1) == m,
               Implies(m > 0, And(S.first(s1, st1, L1) == S.first(s0, st0, L0) + a1 * st0,
                                  st1 == st0 * cc, L1 == L0, off1 == off0, same_parent)))


def post_getitem_int(selfv, i, outcome, r, same_parent):
    s0, e0, st0, off0, L0 = selfv
    n = S.view_len(s0, e0, st0)
    inside = And(-n <= i, i < n)
    if outcome == "IndexError":
        return Not(inside)
    if outcome != "return":
        return False
    s1, e1, st1, off1, L1 = r
    k = ite(i < 0, i + n, i)
    return And(inside, S.inv(s1, e1, st1, L1), S.view_len(s1, e1, st1) == 1,
               S.first(s1, st1, L1) == S.first(s0, st0, L0) + k * st0,
               st1 == ite(st0 > 0, 1, -1), L1 == L0, off1 == off0, same_parent)


# --------------------------------------------------------------------------------------------- engine setup
class ViewHooks(ClassHooks):
    pass


def load(tname):
    t = TARGETS[tname]
    funcs, props = extract.class_functions(t["file"], t["cls"])
    bf, bp = extract.class_functions(t["base_file"], t["base"])
    for k, v in bf.items():
        if k not in funcs:
            funcs[k] = v
            if k in bp:
                props.add(k)
    for n in ("_input_vals_pos_step", "_input_vals_neg_step"):
        funcs[n] = extract.get(t["base_file"], n)
    return funcs, props


def mod_input_vals(sign):
    def f(eng, _self, args, kw):
        seqlen, start, stop, step = args
        eng.require("pre@callsite:_input_vals", And(seqlen >= 0, step * sign > 0))
        r = (fresh_int("ns"), fresh_int("ne"), fresh_int("nst"))
        Defs.push()
        p = post_input_vals(sign, seqlen, start, stop, step, r)
        assert not Defs.pop()[0]
        eng.assume(p)
        return r
    return f


def mod_len(eng, v, args, kw):
    """contract of SliceRecordABC.__len__ (proved separately): result == view_len(self) for inv receivers"""
    f = v.fields
    Defs.push()
    n = S.view_len(f["start"], f["stop"], f["step"])
    defs, nz = Defs.pop()
    for c in nz:
        eng.require("pre@callsite:__len__", c)
    for c in defs:
        if not any(c is e for e in eng.pc):
            eng.assume(c)
    return n


def mod_is_int(eng, _self, args, kw):
    return not isinstance(args[0], SliceV)


def make_hooks(tname, inline_input_vals=False, inline_len=False):
    funcs, props = load(tname)
    modular = {"_is_int": mod_is_int}
    if not inline_len:
        modular["__len__"] = mod_len
    if not inline_input_vals:
        modular["_input_vals_pos_step"] = mod_input_vals(+1)
        modular["_input_vals_neg_step"] = mod_input_vals(-1)
    hooks = ViewHooks(funcs, props, modular=modular,
                      globals_={"new_sequence": Opaque("module"), "numpy": Opaque("module")})
    return funcs, hooks


def sym_view(tname, prefix="v"):
    L = z3.Int(f"{prefix}L")
    st, sp, step, off = z3.Int(f"{prefix}start"), z3.Int(f"{prefix}stop"), z3.Int(f"{prefix}step"), z3.Int(f"{prefix}off")
    seq = Opaque("seq", length=L)
    seqid = Opaque("seqid")
    fields = dict(seq=seq, start=st, stop=sp, step=step, _offset=off, _seqid=seqid, _seq_len=L)
    if tname == "core.new_sequence.SeqView":
        fields["alphabet"] = Opaque("alphabet")
    if tname == "core.new_alignment.SeqDataView":
        fields["seq"] = Opaque("seqsdata")
    v = Rec(tname, **fields)
    return v, [S.inv(st, sp, step, L), off >= 0]


def same_parent(v, r, m_zero_ok=True):
    """frame: the result refers to the same parent object and seqid (Python identity of opaque objects)"""
    return r.fields.get("seq") is v.fields.get("seq") and r.fields.get("_seqid") is v.fields.get("_seqid")


DIRECTIONS = {
    "fwd": lambda v: [v.fields["step"] > 0, v.fields["start"] < v.fields["stop"]],
    "rev": lambda v: [v.fields["step"] < 0, v.fields["stop"] < v.fields["start"]],
    "empty": lambda v: [v.fields["start"] == v.fields["stop"]],
}


def goal_with_defs(build):
    """evaluate a spec predicate collecting floor-division witnesses; returns goal term"""
    Defs.push()
    post = build()
    defs, nz = Defs.pop()
    post = post if isinstance(post, z3.ExprRef) else z3.BoolVal(bool(post))
    g = z3.Implies(z3.And(defs), post) if defs else post
    return z3.And(*nz, g) if nz else g


# --------------------------------------------------------------------------------------------- obligations
def job_input_vals(chk, tname):
    funcs, hooks = make_hooks(tname, inline_input_vals=True)
    short = tname.rsplit(".", 1)[0]
    for fname, sign in (("_input_vals_pos_step", 1), ("_input_vals_neg_step", -1)):
        for sn, en in itertools.product((False, True), repeat=2):
            seqlen, step = z3.Int("seqlen"), z3.Int("step")
            start = None if sn else z3.Int("start")
            stop = None if en else z3.Int("stop")
            pre = [seqlen >= 0, step * sign > 0]
            cfg = f"start={'None' if sn else 'int'},stop={'None' if en else 'int'}"
            eng = Engine(funcs, hooks)
            paths = eng.run(lambda e: e.call(fname, dict(seqlen=seqlen, start=start, stop=stop, step=step)), pre)
            base = f"{short}.{fname}/cfg=({cfg})"
            chk.obligation(f"{base}/cover", "cover", cover_thunk(pre), function=f"{short}.{fname}")
            for k, p in enumerate(paths):
                if p.outcome != "return" or not isinstance(p.value, tuple) or len(p.value) != 3:
                    goal = z3.BoolVal(False)
                else:
                    goal = goal_with_defs(lambda: post_input_vals(sign, seqlen, start, stop, step, p.value))
                chk.obligation(f"{base}/post/path={k}", "post",
                               _vc_thunk(p.pc, goal, 20), function=f"{short}.{fname}",
                               replayer=_replay_input_vals(tname, fname, sign, sn, en),
                               key=f"C01/{short}.{fname}/post")
                for nm, pc, cond in p.obligations:
                    chk.obligation(f"{base}/{nm}/path={k}", "pre@callsite", _vc_thunk(pc, cond, 20))


def _vc_thunk(pc, goal, timeout):
    return smt_thunk(pc, goal, timeout=timeout)


def _replay_input_vals(tname, fname, sign, sn, en):
    def rep(model):
        import importlib
        mod = importlib.import_module("cogent3." + TARGETS[tname]["base_file"][8:-3].replace("/", "."))
        f = getattr(mod, fname)
        seqlen, step = model.get("seqlen", 0), model.get("step", sign)
        start = None if sn else model.get("start", 0)
        stop = None if en else model.get("stop", 0)
        r = f(seqlen, start, stop, step)
        ok = post_input_vals(sign, seqlen, start, stop, step, tuple(r))
        return {"failed": not ok, "witness": dict(seqlen=seqlen, start=start, stop=stop, step=step, result=list(r)),
                "description": f"{fname}({seqlen},{start},{stop},{step}) -> {r}; contract {'violated' if not ok else 'holds natively'}"}
    return rep


def native_view(tname, L, start, stop, step, off):
    """build the real view object through its public constructor"""
    parent = "".join("ACGT"[i % 4] if i % 7 else "N" for i in range(L))
    if tname == "core.sequence.SeqView":
        from cogent3.core.sequence import SeqView
        return SeqView(seq=parent, start=start, stop=stop, step=step, offset=off, seqid="s1"), parent
    if tname == "core.new_sequence.SeqView":
        from cogent3.core import new_moltype
        from cogent3.core.new_sequence import SeqView
        alpha = new_moltype.get_moltype("dna").most_degen_alphabet()
        return SeqView(seq=parent, alphabet=alpha, start=start, stop=stop, step=step, offset=off, seqid="s1"), parent
    from cogent3.core import new_moltype
    from cogent3.core.new_alignment import SeqDataView, SeqsData
    alpha = new_moltype.get_moltype("dna").most_degen_alphabet()
    sd = SeqsData(data={"s1": parent}, alphabet=alpha)
    return SeqDataView(seq=sd, seqid="s1", seq_len=L, start=start, stop=stop, step=step, offset=off), parent


def native_tuple(v):
    return (v.start, v.stop, v.step, v.offset, v.seq_len)


def _replay_getitem(tname, kind, nones):
    def rep(model):
        L, s, e, st, off = (model.get(k, d) for k, d in (("vL", 0), ("vstart", 0), ("vstop", 0), ("vstep", 1), ("voff", 0)))
        if not S.inv(s, e, st, L) or off < 0:
            return {"failed": False, "description": f"model does not satisfy inv: {model}"}
        v, parent = native_view(tname, L, s, e, st, off)
        if native_tuple(v)[:3] != (s, e, st):
            return {"failed": False, "description": f"constructor normalised the model state {(s, e, st)} to {native_tuple(v)[:3]}"}
        if kind == "slice":
            a = None if nones[0] else model.get("a", 0)
            b = None if nones[1] else model.get("b", 0)
            c = None if nones[2] else model.get("c", 1)
            call = f"[{a}:{b}:{c}]"
            try:
                r = v[a:b:c]
                ok = post_getitem_slice(native_tuple(v), a, b, c, native_tuple(r), r.seq is v.seq or len(r) == 0)
                obs = f"{native_tuple(r)} str={str(r)!r}; plain string gives {str(v)[a:b:c]!r}"
                ok = ok and str(r) == str(v)[a:b:c]
            except Exception as ex:
                ok, obs = False, f"raised {type(ex).__name__}: {ex}"
        else:
            i = model.get("i", 0)
            call = f"[{i}]"
            n = len(v)
            try:
                r = v[i]
                ok = post_getitem_int(native_tuple(v), i, "return", native_tuple(r), r.seq is v.seq)
                obs = f"{native_tuple(r)} str={str(r)!r}"
                ok = ok and -n <= i < n and str(r) == str(v)[i]
            except IndexError:
                ok, obs = not (-n <= i < n), "IndexError"
            except Exception as ex:
                ok, obs = False, f"raised {type(ex).__name__}: {ex}"
        desc = f"{tname}(parent={parent!r}, start={s}, stop={e}, step={st}, offset={off}){call} -> {obs}"
        return {"failed": not ok, "witness": {"view": [L, s, e, st, off], "call": call, "observed": obs},
                "description": desc}
    return rep


def _result_tuple(p):
    if p.outcome == "return" and isinstance(p.value, Rec):
        f = p.value.fields
        need = ("start", "stop", "step", "_offset", "_seq_len")
        if all(k in f for k in need):
            return tuple(f[k] for k in need)
    return None


def slice_configs():
    configs = []
    for nones in itertools.product((True, False), repeat=3):
        for dname in DIRECTIONS:
            signs = ["c>0"] if nones[2] else ["c>0", "c<0"]
            for sg in signs:
                configs.append((nones, dname, sg))
    return configs


def job_getitem_slice(chk, tname, nones, dname, sg):
    funcs, hooks = make_hooks(tname)
    fn = f"{tname}.__getitem__[slice]"
    v, pre = sym_view(tname)
    a = None if nones[0] else z3.Int("a")
    b = None if nones[1] else z3.Int("b")
    c = None if nones[2] else z3.Int("c")
    pre = pre + DIRECTIONS[dname](v)
    if c is not None:
        pre.append(c > 0 if sg == "c>0" else c < 0)
    cfg = f"({'·' if nones[0] else 'a'},{'·' if nones[1] else 'b'},{'·' if nones[2] else 'c'}|{dname}|{sg})"
    eng = Engine(funcs, hooks)
    seg = SliceV(a, b, c)
    try:
        paths = eng.run(lambda e: e.hooks.call_method(e, v, "__getitem__", [seg], {}, None), pre)
    except Unsupported as u:
        chk.undecided.append(f"{fn}/cfg={cfg}: UNSUPPORTED {u}")
        return
    base = f"{fn}/cfg={cfg}"
    chk.obligation(f"{base}/cover", "cover", cover_thunk(pre), function=fn)
    sv = view_tuple(v)
    for k, p in enumerate(paths):
        rt = _result_tuple(p)
        if p.outcome == "abort":
            continue
        if rt is None:
            goal = z3.BoolVal(False)  # exception or non-view result: never allowed for c != 0
        else:
            sp = same_parent(v, p.value)
            goal = goal_with_defs(lambda: post_getitem_slice(sv, a, b, c, rt, sp))
        chk.obligation(f"{base}/post/path={k}", "post", _vc_thunk(p.pc, goal, 60), function=fn,
                       replayer=_replay_getitem(tname, "slice", nones), key=f"C01/{fn}/post")
        for nm, pc, cond in p.obligations:
            chk.obligation(f"{base}/{nm}/path={k}", "pre@callsite", _vc_thunk(pc, cond, 30), function=fn,
                           key=f"C01/{fn}/pre@callsite")
        if chk.tier == "thorough":
            o = chk.obligation(f"{base}/xcheck-vs-cpython/path={k}", "cover",
                               _xcheck_thunk(tname, p.pc, nones, sv, rt, p.value if p.outcome == "raise" else None), function=fn)
            chk.cross_checks += 1
    _note_inline(chk, eng)


def _xcheck_thunk(tname, pc, nones, v_tuple_sym, rt_sym, raises_kind):
    """encoding cross-check against CPython: take a model of the path condition, run the *real* code on those concrete
    arguments and compare its outcome with the symbolic outcome evaluated under the model (thorough tier)"""
    from pyvc import smt as _smt
    pc = list(pc)
    text = _smt.to_smt2(pc, _smt.guess_logic(pc))

    def ev(term, model):
        if not isinstance(term, z3.ExprRef):
            return term
        subs = []
        for nm, val in model.items():
            if isinstance(val, bool):
                subs.append((z3.Bool(nm), z3.BoolVal(val)))
            elif isinstance(val, int):
                subs.append((z3.Int(nm), z3.IntVal(val)))
        r = z3.simplify(z3.substitute(term, *subs))
        return r.as_long() if z3.is_int_value(r) else None

    def thunk():
        status, backend, secs, model, raw = _smt.portfolio(text, 20)
        if status != "sat" or model is None:
            return "proved", backend, secs, None, f"path not cross-checked ({status})"
        L, s_, e_, st_, off_ = (model.get(k, d) for k, d in (("vL", 0), ("vstart", 0), ("vstop", 0), ("vstep", 1), ("voff", 0)))
        if not S.inv(s_, e_, st_, L) or off_ < 0:
            return "proved", backend, secs, None, "model outside inv (solver default values)"
        view, parent = native_view(tname, L, s_, e_, st_, off_)
        if native_tuple(view)[:3] != (s_, e_, st_):
            return "proved", backend, secs, None, "constructor normalised the state"
        a = None if nones[0] else model.get("a", 0)
        b = None if nones[1] else model.get("b", 0)
        c = None if nones[2] else model.get("c", 1)
        try:
            r = view[a:b:c]
            native = ("return", len(r), (r.start if r.step > 0 else r.seq_len + r.start) if len(r) else None, r.step if len(r) else None)
        except Exception as ex:
            native = ("raise", type(ex).__name__)
        if rt_sym is None:
            symbolic = ("raise", raises_kind)
            ok = native[0] == "raise" and native[1] == raises_kind
        else:
            vals = [ev(t, model) for t in rt_sym]
            if any(x is None for x in vals):
                return "proved", backend, secs, None, "symbolic result not fully determined by the model"
            s1, e1, st1, off1, L1 = vals
            n1 = S.view_len(s1, e1, st1) if st1 != 0 else -1
            symbolic = ("return", n1, (s1 if st1 > 0 else L1 + s1) if n1 else None, st1 if n1 else None)
            ok = native == symbolic
        if not ok:
            return ("error", backend, secs, model,
                    f"ENCODING MISMATCH on {tname}(L={L},{s_},{e_},{st_})[{a}:{b}:{c}]: CPython {native}, symbolic {symbolic}")
        return "proved", backend + " + CPython", secs, None, f"native outcome {native} == symbolic outcome"
    return thunk


def _note_inline(chk, eng):
    n = getattr(eng, "inline_discharged", 0)
    if n:
        chk.inline_discharged = getattr(chk, "inline_discharged", 0) + n


def job_len(chk, tname, dname):
    """__len__ against the spec: abs((start - stop) // step) == len(range(start, stop, step)) on inv views"""
    funcs, hooks = make_hooks(tname, inline_len=True)
    fn = f"{tname}.__len__"
    if True:
        v, pre = sym_view(tname)
        pre = pre + DIRECTIONS[dname](v)
        eng = Engine(funcs, hooks)
        paths = eng.run(lambda e: e.hooks.call_method(e, v, "__len__", [], {}, None), pre)
        base = f"{fn}/cfg=({dname})"
        chk.obligation(f"{base}/cover", "cover", cover_thunk(pre), function=fn)
        f = v.fields
        for k, p in enumerate(paths):
            if p.outcome == "abort":
                continue
            if p.outcome != "return":
                goal = z3.BoolVal(False)
            else:
                goal = goal_with_defs(lambda: p.value == S.view_len(f["start"], f["stop"], f["step"]))
            chk.obligation(f"{base}/post/path={k}", "post", _vc_thunk(p.pc, goal, 60), function=fn,
                           replayer=_replay_len(tname), key=f"C01/{fn}/post")


def _replay_len(tname):
    def rep(model):
        L, s, e, st, off = (model.get(k, d) for k, d in (("vL", 0), ("vstart", 0), ("vstop", 0), ("vstep", 1), ("voff", 0)))
        if not S.inv(s, e, st, L):
            return {"failed": False, "description": f"model does not satisfy inv: {model}"}
        v, parent = native_view(tname, L, s, e, st, off)
        ok = len(v) == S.view_len(v.start, v.stop, v.step) == len(str(v))
        return {"failed": not ok, "witness": {"view": [L, s, e, st, off]},
                "description": f"len({tname}(parent={parent!r},{s},{e},{st})) = {len(v)}; displayed {str(v)!r}"}
    return rep


def job_getitem_int(chk, tname, dname):
    funcs, hooks = make_hooks(tname)
    fn = f"{tname}.__getitem__[int]"
    if True:
        v, pre = sym_view(tname)
        i = z3.Int("i")
        pre = pre + DIRECTIONS[dname](v)
        eng = Engine(funcs, hooks)
        paths = eng.run(lambda e: e.hooks.call_method(e, v, "__getitem__", [i], {}, None), pre)
        base = f"{fn}/cfg=({dname})"
        chk.obligation(f"{base}/cover", "cover", cover_thunk(pre), function=fn)
        sv = view_tuple(v)
        for k, p in enumerate(paths):
            if p.outcome == "abort":
                continue
            rt = _result_tuple(p)
            if p.outcome == "raise":
                goal = goal_with_defs(lambda: post_getitem_int(sv, i, p.value, None, True))
            elif rt is None:
                goal = z3.BoolVal(False)
            else:
                sp = same_parent(v, p.value)
                goal = goal_with_defs(lambda: post_getitem_int(sv, i, "return", rt, sp))
            chk.obligation(f"{base}/post/path={k}", "post", _vc_thunk(p.pc, goal, 60), function=fn,
                           replayer=_replay_getitem(tname, "int", None), key=f"C01/{fn}/post")
            for nm, pc, cond in p.obligations:
                chk.obligation(f"{base}/{nm}/path={k}", "pre@callsite", _vc_thunk(pc, cond, 30), function=fn)


# --------------------------------------------------------------------------------------------- coordinates
def job_parent_coords(chk, tname, dname):
    """parent_start / parent_stop name the parent interval that holds the displayed elements"""
    funcs, hooks = make_hooks(tname)
    fn = f"{tname}.parent_start/parent_stop"
    v, pre = sym_view(tname)
    pre = pre + DIRECTIONS[dname](v)
    eng = Engine(funcs, hooks)
    paths = eng.run(lambda e: (e.hooks.get_attr(e, v, "parent_start"), e.hooks.get_attr(e, v, "parent_stop")), pre)
    base = f"{fn}/cfg=({dname})"
    chk.obligation(f"{base}/cover", "cover", cover_thunk(pre), function=fn)
    s0, e0, st0, off0, L0 = view_tuple(v)
    for k, p in enumerate(paths):
        if p.outcome == "abort":
            continue
        if p.outcome != "return":
            goal = z3.BoolVal(False)   # the internal asserts must never fire on an inv view
        else:
            ps, pe = p.value

            def build():
                n = S.view_len(s0, e0, st0)
                f0 = S.first(s0, st0, L0)
                lo, hi = ps - off0, pe - off0
                last = f0 + (n - 1) * st0
                return And(0 <= lo, lo <= hi, hi <= L0,
                           Implies(n > 0, And(lo <= f0, f0 < hi, lo <= last, last < hi,
                                              ite(st0 > 0, lo == f0, hi - 1 == f0),
                                              Implies(Or(st0 == 1, st0 == -1), hi - lo == n))))
            goal = goal_with_defs(build)
        chk.obligation(f"{base}/post/path={k}", "post", _vc_thunk(p.pc, goal, 60), function=fn,
                       replayer=_replay_coords(tname), key=f"C01/{fn}/post")
    _note_inline(chk, eng)


def _replay_coords(tname):
    def rep(model):
        L, s, e, st, off = (model.get(k, d) for k, d in (("vL", 0), ("vstart", 0), ("vstop", 0), ("vstep", 1), ("voff", 0)))
        if not S.inv(s, e, st, L) or off < 0:
            return {"failed": False, "description": f"model does not satisfy inv: {model}"}
        v, parent = native_view(tname, L, s, e, st, off)
        try:
            lo, hi = v.parent_start - off, v.parent_stop - off
        except AssertionError as ex:
            return {"failed": True, "description": f"{tname}({parent!r},{s},{e},{st}).parent_start/stop: internal assert fired"}
        idx = list(range(L))[s:e:st] if st > 0 else [L + i for i in range(s, e, st)]
        ok = 0 <= lo <= hi <= L and all(lo <= i < hi for i in idx) and (not idx or (idx[0] == (lo if st > 0 else hi - 1)))
        ok = ok and (abs(st) != 1 or not idx or hi - lo == len(idx))
        return {"failed": not ok, "witness": {"view": [L, s, e, st, off]},
                "description": f"{tname}(parent={parent!r},{s},{e},{st},offset={off}): parent interval [{lo},{hi}) vs displayed indices {idx}"}
    return rep


def job_abs_rel(chk, tname, dname, boundary):
    """absolute_position(i, include_boundary) and the round trip through relative_position"""
    if dname == "empty":
        return
    funcs, hooks = make_hooks(tname)
    fn = f"{tname}.absolute_position"
    v, pre = sym_view(tname)
    i = z3.Int("i")
    pre = pre + DIRECTIONS[dname](v)
    s0, e0, st0, off0, L0 = view_tuple(v)
    base = f"{fn}/cfg=({dname},include_boundary={boundary})"
    eng = Engine(funcs, hooks)
    paths = eng.run(lambda e: e.hooks.call_method(e, v, "absolute_position", [i], {"include_boundary": boundary}, None), pre)
    chk.obligation(f"{base}/cover", "cover", cover_thunk(pre), function=fn)
    for k, p in enumerate(paths):
        if p.outcome == "abort":
            continue

        def build():
            n = S.view_len(s0, e0, st0)
            top = n + 1 if boundary else n
            inside = And(0 <= i, i < top)
            if p.outcome == "raise":
                return And(p.value == "IndexError", Not(inside))
            idx = S.first(s0, st0, L0) + i * st0
            return And(inside, p.value == off0 + idx + ite(st0 < 0, 1, 0))
        chk.obligation(f"{base}/post/path={k}", "post", _vc_thunk(p.pc, goal_with_defs(build), 60), function=fn,
                       replayer=_replay_abs(tname, boundary), key=f"C01/{fn}/post")
    _note_inline(chk, eng)
    if boundary:
        return
    # round trip: relative_position(absolute_position(i)) == i for 0 <= i < n
    fn2 = f"{tname}.relative_position"
    base2 = f"{fn2}/roundtrip/cfg=({dname})"
    eng = Engine(funcs, hooks)

    def entry(e):
        a = e.hooks.call_method(e, v, "absolute_position", [i], {}, None)
        return e.hooks.call_method(e, v, "relative_position", [a], {}, None)
    Defs.push()
    n = S.view_len(s0, e0, st0)
    defs, nz = Defs.pop()
    pre2 = pre + list(defs) + [0 <= i, i < n]
    paths = eng.run(entry, pre2)
    chk.obligation(f"{base2}/cover", "cover", cover_thunk(pre2), function=fn2)
    for k, p in enumerate(paths):
        if p.outcome == "abort":
            continue
        goal = (p.value == i) if p.outcome == "return" else z3.BoolVal(False)
        chk.obligation(f"{base2}/post/path={k}", "lemma", _vc_thunk(p.pc, goal, 60), function=fn2,
                       replayer=_replay_abs(tname, False), key=f"C01/{fn2}/roundtrip")
    _note_inline(chk, eng)


def job_rel_spec(chk, tname, dname, stop):
    """relative_position(p, stop): boundary semantics derived from the call sites in get_features --
    the number of displayed elements strictly before plus-strand boundary p in reading direction, rounded up
    (start of a feature) or down (stop=True); negative = precedes the view"""
    if dname == "empty":
        return
    from pyvc.dsl import fdiv
    funcs, hooks = make_hooks(tname)
    fn = f"{tname}.relative_position"
    v, pre = sym_view(tname)
    pp = z3.Int("p")
    pre = pre + DIRECTIONS[dname](v) + [pp >= 0]
    s0, e0, st0, off0, L0 = view_tuple(v)
    eng = Engine(funcs, hooks)
    paths = eng.run(lambda e: e.hooks.call_method(e, v, "relative_position", [pp], {"stop": stop}, None), pre)
    base = f"{fn}/spec/cfg=({dname},stop={stop})"
    chk.obligation(f"{base}/cover", "cover", cover_thunk(pre), function=fn)
    for k, p in enumerate(paths):
        if p.outcome == "abort":
            continue

        def build():
            if p.outcome != "return":
                return False
            t = ite(st0 > 0, pp - off0 - s0, L0 - pp + off0 + s0 + 1)
            a = ite(st0 > 0, st0, -st0)
            want = fdiv(t, a) if stop else -fdiv(-t, a)
            return p.value == want
        chk.obligation(f"{base}/post/path={k}", "post", _vc_thunk(p.pc, goal_with_defs(build), 60), function=fn,
                       replayer=_replay_rel(tname, stop), key=f"C01/{fn}/spec")
    _note_inline(chk, eng)


def _replay_rel(tname, stop):
    def rep(model):
        L, s, e, st, off = (model.get(k, d) for k, d in (("vL", 0), ("vstart", 0), ("vstop", 0), ("vstep", 1), ("voff", 0)))
        pp = model.get("p", 0)
        if not S.inv(s, e, st, L) or off < 0 or pp < 0:
            return {"failed": False, "description": f"model outside precondition: {model}"}
        v, parent = native_view(tname, L, s, e, st, off)
        got = v.relative_position(pp, stop=stop)
        t = pp - off - s if st > 0 else L - pp + off + s + 1
        want = t // abs(st) if stop else -((-t) // abs(st))
        return {"failed": got != want, "witness": {"view": [L, s, e, st, off], "p": pp, "stop": stop},
                "description": f"{tname}(parent={parent!r},{s},{e},{st},offset={off}).relative_position({pp}, stop={stop}) = {got}, boundary semantics give {want}"}
    return rep


def _replay_abs(tname, boundary):
    def rep(model):
        L, s, e, st, off = (model.get(k, d) for k, d in (("vL", 0), ("vstart", 0), ("vstop", 0), ("vstep", 1), ("voff", 0)))
        i = model.get("i", 0)
        if not S.inv(s, e, st, L) or off < 0:
            return {"failed": False, "description": f"model does not satisfy inv: {model}"}
        v, parent = native_view(tname, L, s, e, st, off)
        n = len(v)
        top = n + 1 if boundary else n
        try:
            a = v.absolute_position(i, include_boundary=boundary)
            idx = (s if st > 0 else L + s) + i * st
            ok = 0 <= i < top and a == off + idx + (1 if st < 0 else 0)
            obs = f"absolute_position({i}) = {a}"
            if ok and not boundary and n > 0:
                r = v.relative_position(a)
                ok = r == i
                obs += f", relative_position({a}) = {r}"
        except IndexError:
            ok, obs = not (0 <= i < top), "IndexError"
        return {"failed": not ok, "witness": {"view": [L, s, e, st, off], "i": i},
                "description": f"{tname}(parent={parent!r},{s},{e},{st},offset={off}): {obs}"}
    return rep


# --------------------------------------------------------------------------------------------- displayed string
class StrHooks(ViewHooks):
    """parent[lo:hi:step] on the opaque parent string returns a ("strslice", a, b, c) descriptor"""

    def subscript(self, eng, obj, idx):
        if isinstance(obj, Opaque) and obj.tag == "seq" and isinstance(idx, SliceV):
            return ("strslice", obj, idx.start, idx.stop, idx.step)
        return super().subscript(eng, obj, idx)


def job_value(chk, tname, dname):
    """the string a view displays is parent[first + k*step], k < n  (lemma linking the integer abstraction to
    the characters; python slice semantics = speclib.py_slice_indices)"""
    if tname == "core.new_alignment.SeqDataView":
        return
    funcs, props = load(tname)
    hooks = StrHooks(funcs, props, modular={"_is_int": mod_is_int, "__len__": mod_len})
    prop = "value" if "value" in funcs else "str_value"
    fn = f"{tname}.{prop}"
    v, pre = sym_view(tname)
    pre = pre + DIRECTIONS[dname](v)
    eng = Engine(funcs, hooks)
    paths = eng.run(lambda e: e.hooks.get_attr(e, v, prop), pre)
    base = f"{fn}/cfg=({dname})"
    chk.obligation(f"{base}/cover", "cover", cover_thunk(pre), function=fn)
    s0, e0, st0, off0, L0 = view_tuple(v)
    for k, p in enumerate(paths):
        if p.outcome == "abort":
            continue
        val = p.value
        if p.outcome != "return" or not (isinstance(val, tuple) and val and val[0] == "strslice" and val[1] is v.fields["seq"]):
            goal = z3.BoolVal(False)
        else:
            _, _, a, b, c = val

            def build():
                cc = 1 if c is None else c
                aa, bb = S.py_slice_indices(a, b, cc, L0)
                n = S.view_len(s0, e0, st0)
                return And(cc == st0, S.len_range(aa, bb, cc) == n, Implies(n > 0, aa == S.first(s0, st0, L0)))
            goal = goal_with_defs(build)
        chk.obligation(f"{base}/post/path={k}", "lemma", _vc_thunk(p.pc, goal, 60), function=fn,
                       replayer=_replay_len(tname), key=f"C01/{fn}/post")


# --------------------------------------------------------------------------------------------- frame (syntactic)
RAW_OK = {"__str__", "__bytes__", "__array__", "__iter__", "__len__", "__getitem__", "__init__", "_seq", "copy",
          "to_rich_dict", "parent_coordinates", "annotation_offset", "__deepcopy__"}      # view-aware by construction
RAW_KNOWN = {("core.sequence", "Sequence", "replace")}                                   # known finding C01-K1


def frame_scan(chk):
    """a method of a Sequence class reaches parent data only through view-aware accessors; a raw self._seq.value /
    .seq / iteration / replace elsewhere is *suspect* (handed to the bounded tier for a witness), never a violation"""
    import ast
    targets = (("cogent3/core/sequence.py", ["SequenceI", "Sequence", "NucleicAcidSequence", "ProteinSequence"]),
               ("cogent3/core/new_sequence.py", ["Sequence", "NucleicAcidSequenceMixin"]))
    n_methods = 0
    for rel, classes in targets:
        mod = rel[8:-3].replace("/", ".")
        for cn in classes:
            try:
                cls = extract.get(rel, cn)
            except KeyError:
                continue
            for f in cls.body:
                if not isinstance(f, ast.FunctionDef):
                    continue
                n_methods += 1
                hits = set()
                for n_ in ast.walk(f):
                    if isinstance(n_, ast.Attribute) and isinstance(n_.value, ast.Attribute) and n_.value.attr == "_seq" \
                            and n_.attr in ("value", "seq", "str_value", "array_value", "bytes_value", "replace"):
                        hits.add("self._seq." + n_.attr)
                    if isinstance(n_, ast.Call) and isinstance(n_.func, ast.Name) and n_.func.id in ("iter", "list", "tuple") \
                            and n_.args and isinstance(n_.args[0], ast.Attribute) and n_.args[0].attr == "_seq":
                        hits.add(n_.func.id + "(self._seq)")
                    if isinstance(n_, (ast.For, ast.comprehension)) and isinstance(n_.iter, ast.Attribute) and n_.iter.attr == "_seq":
                        hits.add("iteration over self._seq")
                if not hits or f.name in RAW_OK:
                    continue
                name = f"{mod}.{cn}.{f.name}/frame: parent data reached only through view-aware accessors"
                if (mod, cn, f.name) in RAW_KNOWN:
                    chk.notes.append(f"frame: {mod}.{cn}.{f.name} uses {sorted(hits)} (known finding C01-K1)")
                    continue
                chk.undecided.append(f"{name} :: SUSPECT raw access {sorted(hits)}: not a violation by itself; the bounded "
                                     f"contract 'methods' decides whether the method answers as on a rebuilt sequence")
    chk.obligation("core.sequence+new_sequence/frame-scan-ran", "frame",
                   lambda n=n_methods: ("proved" if n > 50 else "error", "syntactic", 0.0, None, f"{n} methods scanned"),
                   function="Sequence classes")


def dispatch(chk, jobname, args):
    globals()[jobname](chk, *args)


def run(chk):
    quick = chk.tier == "quick"
    from speclib.selftest import check_py_slice
    n = check_py_slice(5 if quick else 8)
    chk.notes.append(f"spec self-test: py_slice_indices/len_range == slice.indices/len(range) on {n} cases")
    for tname, t in TARGETS.items():
        for m in VIEW_METHODS:
            try:
                if m in extract.class_functions(t["file"], t["cls"])[0]:
                    chk.function(t["file"], f"{t['cls']}.{m}", "P")
                else:
                    chk.function(t["base_file"], f"{t['base']}.{m}", "P")
            except KeyError:
                pass
        chk.function(t["file"], f"{t['cls']}.__init__", "P")
    for f in ("cogent3/core/sequence.py", "cogent3/core/new_sequence.py"):
        chk.function(f, "_input_vals_pos_step", "P")
        chk.function(f, "_input_vals_neg_step", "P")
    only = getattr(chk, "only", None)
    jobs = []
    for tname in TARGETS:
        if tname != "core.new_alignment.SeqDataView" and (not only or "iv" in only):
            jobs.append(("job_input_vals", (tname,)))
        for d in DIRECTIONS:
            if not only or "len" in only:
                jobs.append(("job_len", (tname, d)))
            if not only or "int" in only:
                jobs.append(("job_getitem_int", (tname, d)))
            if not only or "coords" in only:
                jobs.append(("job_parent_coords", (tname, d)))
                jobs.append(("job_abs_rel", (tname, d, False)))
                jobs.append(("job_abs_rel", (tname, d, True)))
                jobs.append(("job_value", (tname, d)))
                jobs.append(("job_rel_spec", (tname, d, False)))
                jobs.append(("job_rel_spec", (tname, d, True)))
        if not only or "slice" in only:
            for cfg in slice_configs():
                jobs.append(("job_getitem_slice", (tname, *cfg)))
    # biggest configurations first so that the pool stays busy
    jobs.sort(key=lambda j: -(sum(0 if x else 1 for x in j[1][1]) * 3 + (j[1][2] == "rev") + (j[1][3] == "c<0"))
              if j[0] == "job_getitem_slice" else 0)
    chk.parallel("contracts.C01", "dispatch", jobs)
    if not only or "frame" in only:
        chk.guard(frame_scan)
        chk.discharge(workers=1)
    if not only or "bounded" in only:
        chk.bounded("bounded.C01")
    chk.assume("Python int is unbounded: mathematical integers are exact")
    chk.assume("str slicing parent[a:b:c] follows CPython PySlice_AdjustIndices (speclib.py_slice_indices, "
               "cross-checked against slice.indices every run)")
    chk.level = "other"
    chk.explanation = "integer view algebra proved for all inputs (smt); method delegation bounded"
