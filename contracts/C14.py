"""C14 -- composed apps account for every input exactly once, on any schedule.

Proof tier: exception-flow symbolic execution of the *real* ``composable._call``, ``_validate_data_type``,
``_source_wrapped`` and ``_proxy_input`` with opaque objects (a NotCompleted instance, a data object, a source
proxy) and externals with exceptional outcomes (``self.main`` may return data / None / NotCompleted or raise
any ``Exception``).  Modular: the connected upstream app (``self.input``) is used through the contract proved
here for ``_call`` (never raises Exception, never returns None), i.e. by induction over the composition.
The schedule clause rests on the assumed contract T of ``PAR.as_completed`` (see assumptions) and is
stood in for by the bounded tier (bounded/C14.py).
"""
from __future__ import annotations

import itertools
import os

from pyvc import extract
from pyvc.objects import ClassHooks
from pyvc.symex import Engine, Opaque, Raise, Rec, Unsupported

FILE = "cogent3/app/composable.py"
LOADER, WRITER, GENERIC = Opaque("AppType.LOADER"), Opaque("AppType.WRITER"), Opaque("AppType.GENERIC")


def NC(kind, origin=None, source=None, made_by=None):
    return Opaque("NotCompleted", kind=kind, origin=origin, source=source, made_by=made_by)


def is_nc(v):
    return isinstance(v, Opaque) and v.tag == "NotCompleted"


class AppHooks(ClassHooks):
    """self = the app record; ``main`` and ``input`` are externals with scripted outcome families"""

    def __init__(self, funcs, main_outcomes, input_outcomes):
        super().__init__(funcs, set(), globals_={"LOADER": LOADER, "WRITER": WRITER, "GENERIC": GENERIC,
                                                 "traceback": Opaque("module", modname="traceback"),
                                                 "_builtin_seqs": (list, set, tuple)})
        self.main_outcomes = main_outcomes
        self.input_outcomes = input_outcomes

    def call_name(self, eng, name, args, kw, env):
        if name == "NotCompleted":
            eng.trace.append(("NotCompleted", args[0]))
            return NC(args[0], origin=args[1] if len(args) > 1 else None, source=kw.get("source"), made_by="_call")
        if name == "isinstance":
            v, t = args
            return self.isinst(v, t)
        if name == "hasattr":
            v, a = args
            if isinstance(v, Opaque):
                return a in v.attrs or (v.tag == "source_proxy" and a in ("source", "obj"))
            return False
        if name == "source_proxy":
            eng.trace.append(("source_proxy", args[0]))
            return Opaque("source_proxy", obj=args[0], source=args[0])
        if name == "next":
            return args[0][0]
        if name == "iter":
            return list(args[0])
        if name == "list" and isinstance(args[0], (set, frozenset)):
            return sorted(args[0])
        return super().call_name(eng, name, args, kw, env)

    def isinst(self, v, t):
        ts = t if isinstance(t, tuple) and not (t and t[0] == "func") else (t,)
        out = False
        for x in ts:
            if x == ("func", "NotCompleted"):
                out = out or is_nc(v)
            elif x == ("func", "source_proxy"):
                out = out or (isinstance(v, Opaque) and v.tag == "source_proxy")
            elif isinstance(x, type):
                out = out or isinstance(v, x)
            else:
                raise Unsupported(f"isinstance against {x!r}")
        return out

    def global_name(self, eng, name):
        if name in ("NotCompleted", "source_proxy"):
            return ("func", name)
        return super().global_name(eng, name)

    def call_method(self, eng, obj, meth, args, kw, env):
        if isinstance(obj, Rec) and meth == "main":
            eng.trace.append(("main", args[0] if args else None))
            return self.external(eng, "main", self.main_outcomes, args[0] if args else None)
        if isinstance(obj, Rec) and meth == "input":
            arg = args[0] if args else None
            eng.trace.append(("input", arg))
            # the upstream app, through the contract proved here for _call: a NotCompleted value passes through an
            # app that skips not-completed values *by identity*; otherwise it returns data or a NotCompleted, never
            # None, never raises Exception
            up_skip = eng.choose(2, "upstream_skip") == 0
            eng.trace.append(("upstream_skip", up_skip))
            outs = ["same"] if (is_nc(arg) and up_skip) else self.input_outcomes
            return self.external(eng, "input", outs, arg)
        if isinstance(obj, Rec) and meth == "__call__":
            # self(value): the app applied to a value -- by the contract of _call proved here
            eng.trace.append(("self()", args[0]))
            return self.external(eng, "self()", ["data", "NotCompleted"], args[0])
        if isinstance(obj, Opaque) and obj.tag == "module" and meth == "format_exc":
            return Opaque("traceback-text")
        if isinstance(obj, Opaque) and obj.tag == "source_proxy" and meth == "set_obj":
            obj.attrs["obj"] = args[0]
            return None
        if isinstance(obj, str) and meth == "join":
            return Opaque("text")
        return super().call_method(eng, obj, meth, args, kw, env)

    def call_value(self, eng, fn, args, kw, env):
        if isinstance(fn, Rec):
            return self.call_method(eng, fn, "__call__", args, kw, env)
        return super().call_value(eng, fn, args, kw, env)

    def external(self, eng, name, outcomes, arg):
        i = eng.choose(len(outcomes), name) if len(outcomes) > 1 else 0
        o = outcomes[i]
        eng.trace.append((name + "->", o))
        if o == "data":
            return Opaque("data", cls="Alignment", produced_by=name)
        if o == "falsy-data":           # a completed value that is falsy (0, an empty collection, a zero-length alignment)
            return Opaque("data", cls="Alignment", produced_by=name, truthy=False)
        if o == "None":
            return None
        if o == "NotCompleted":
            return NC("ERROR", made_by=name)
        if o == "same":
            return arg
        if o.startswith("raise "):
            raise Raise(o.split()[1])
        raise ValueError(o)

    def get_attr(self, eng, obj, attr):
        if isinstance(obj, Opaque) and attr == "__class__":
            return Opaque("class", __name__=obj.attrs.get("cls", obj.tag))
        if isinstance(obj, Rec) and attr in ("main", "input") and attr in obj.fields:
            return obj.fields[attr]
        return super().get_attr(eng, obj, attr)

    def truth(self, eng, v):
        if isinstance(v, Opaque):
            if v.tag == "NotCompleted":
                return False          # NotCompleted is int(False)
            if v.tag == "source_proxy":
                return eng.truth(v.attrs["obj"])
            if "truthy" in v.attrs:
                return v.attrs["truthy"]
            return True
        return super().truth(eng, v)


def load():
    return {n: extract.get(FILE, n) for n in ("_call", "_validate_data_type", "_source_wrapped", "_proxy_input")}


MAIN_OUTCOMES = ["data", "None", "NotCompleted", "raise ValueError", "raise Exception", "raise KeyError",
                 "raise ZeroDivisionError", "raise KeyboardInterrupt"]


def make_self(skip, app_type, has_input, data_types):
    return Rec("app", _skip_not_completed=skip, app_type=app_type, input=(Rec("upstream-app") if has_input else None),
               _data_types=set(data_types))


VALS = {
    "None": lambda: None,
    "NotCompleted": lambda: NC("ERROR", made_by="caller"),
    "data(valid type)": lambda: Opaque("data", cls="Alignment"),
    "data(wrong type)": lambda: Opaque("data", cls="Table"),
    "proxy(valid)": lambda: Opaque("source_proxy", obj=Opaque("data", cls="Alignment"), source="src"),
    "list[valid]": lambda: [Opaque("data", cls="Alignment")],
    "empty list": lambda: [],
}


def run_call(chk):
    funcs = load()
    fn = "app.composable._call"
    n_paths = 0
    agg = {}

    def note(clause, ok, info):
        a = agg.setdefault(clause, {"n": 0, "bad": []})
        a["n"] += 1
        if not ok:
            a["bad"].append(info)

    for skip, (tname, app_type), has_input, dts, vname in itertools.product(
            (True, False), (("LOADER", LOADER), ("GENERIC", GENERIC), ("WRITER", WRITER)), (False, True),
            (("Alignment",), (), ("SerialisableType",)), VALS):
        hooks = AppHooks(funcs, MAIN_OUTCOMES + ["falsy-data"], ["data", "falsy-data", "NotCompleted"])  # upstream app: by its own contract
        hooks.funcs["_validate_data_type"] = funcs["_validate_data_type"]
        eng = Engine(funcs, hooks)
        state = {}

        def entry(e):
            selfv = make_self(skip, app_type, has_input, dts)
            val = VALS[vname]()
            e.state["self"], e.state["val"] = selfv, val
            # self._validate_data_type(val) is a method on the app: bind it to the extracted function
            return e.call("_call", dict(self=selfv, val=val, args=(), kwargs={}))
        try:
            paths = eng.run(entry, [])
        except Unsupported as u:
            chk.undecided.append(f"{fn}/cfg=({skip},{tname},{has_input},{dts},{vname}): UNSUPPORTED {u}")
            continue
        cfg = f"skip={skip},type={tname},input={has_input},data_types={list(dts)},val={vname}"
        for p in paths:
            if p.outcome == "abort":
                continue
            n_paths += 1
            tr = p.trace
            main_calls = [t for t in tr if t[0] == "main"]
            main_out = [t[1] for t in tr if t[0] == "main->"]
            info = {"text": f"{cfg}; trace={[(a, str(b)[:30]) for a, b in tr]}; outcome={p.outcome}:{str(p.value)[:40]}",
                    "skip": skip, "has_input": has_input, "val": vname, "main": (main_out or [None])[0],
                    "input_out": ([t[1] for t in tr if t[0] == "input->"] or [None])[0],
                    "up_skip": ([t[1] for t in tr if t[0] == "upstream_skip"] or [True])[0]}
            # (1) no Exception escapes (BaseException such as KeyboardInterrupt may)
            escaped = p.outcome == "raise" and p.value != "KeyboardInterrupt"
            note("noexcept: no Exception escapes when main()/input() raise or misbehave", not escaped, info)
            if p.outcome != "return":
                continue
            r = p.value
            # (2) never returns None
            note("post: result is never None", r is not None, info)
            # (3) None input -> NotCompleted(ERROR) and main not reached when not-completed values are skipped
            if vname == "None" and skip:
                note("post: None input gives NotCompleted(ERROR) without reaching main()",
                     is_nc(r) and r.attrs["kind"] == "ERROR" and not main_calls, info)
            # (4) a NotCompleted input is returned by identity before main() when _skip_not_completed
            if vname == "NotCompleted" and skip:
                note("post: NotCompleted input is passed through by identity, main() not reached",
                     r is p.state["val"] and not main_calls, info)
            # a NotCompleted value reaching this app's own steps (directly or from upstream) never reaches main()
            reached = [t[1] for t in tr if t[0] == "main"]
            if skip:
                note("frame: main() is never called on a NotCompleted value", not any(is_nc(x) for x in reached), info)
            # (5) main returning None -> NotCompleted(BUG)
            if main_out == ["None"]:
                note("post: main() returning None gives NotCompleted(BUG)", is_nc(r) and r.attrs["kind"] == "BUG", info)
            # (6) main raising Exception -> NotCompleted(ERROR) made here
            if main_out and main_out[0].startswith("raise ") and main_out[0] != "raise KeyboardInterrupt":
                note("post: an Exception in main() gives NotCompleted(ERROR) naming this app",
                     is_nc(r) and r.attrs["kind"] == "ERROR" and r.attrs.get("origin") is not None, info)
            # (10) a completed value of the upstream app -- whatever its truth value -- reaches this app's main()
            if has_input and app_type is not LOADER and info["input_out"] in ("data", "falsy-data") and dts != ("SerialisableType",):
                note("post: a completed (possibly falsy) value of the upstream app reaches main()", len(main_calls) == 1, info)
            # (7) main returning data is returned unchanged
            if main_out == ["falsy-data"]:
                note("post: a falsy value main() returns is returned unchanged",
                     isinstance(r, Opaque) and r.tag == "data" and r.attrs.get("produced_by") == "main", info)
            if main_out == ["data"]:
                note("post: the value main() returns is returned unchanged",
                     isinstance(r, Opaque) and r.tag == "data" and r.attrs.get("produced_by") == "main", info)
            # (8) wrong data type: NotCompleted, main not reached
            if vname == "data(wrong type)" and dts == ("Alignment",) and not (has_input and app_type is not LOADER):
                note("post: an input of the wrong type gives NotCompleted(ERROR) without reaching main()",
                     is_nc(r) and not main_calls, info)
            # (9) main is called at most once
            note("frame: main() is called at most once per input", len(main_calls) <= 1, info)
    _emit(chk, fn, agg, n_paths)


def _replay_native(m):
    from speclib.c14_replay import replay_native   # separate module: define_app needs real (non-string) type hints
    last = None
    for info in [m["info"]] + list(m.get("more", [])):   # several symbolic paths fail: take one that fails natively
        last = replay_native({"info": info, "clause": m["clause"]})
        if last.get("failed"):
            return last
    return last


def _emit(chk, fn, agg, n_paths):
    if n_paths == 0:
        chk.error(f"{fn}: no paths")
    for clause, a in sorted(agg.items()):
        bad = a["bad"]

        def thunk(a=a, bad=bad):
            if bad:
                b0 = bad[0] if isinstance(bad[0], dict) else {"text": bad[0]}
                more = [b for b in bad[1:40] if isinstance(b, dict)]
                return ("refuted", "pyvc exception-flow enumeration (opaque objects)", 0.0,
                        {"info": b0, "clause": clause, "more": more},
                        f"{len(bad)} of {a['n']} paths violate it; e.g. {b0['text']}")
            return ("proved", "pyvc exception-flow enumeration (opaque objects)", 0.0, None, f"{a['n']} paths")
        chk.obligation(f"{fn}/{clause}", clause.split(":")[0], thunk, function=fn,
                       replayer=_replay_native,
                       key=f"C14/{fn}/{clause.split(':')[0]}:{clause.split(':')[1][:40]}")


def run_helpers(chk):
    funcs = load()
    # ---- _source_wrapped: proxy identity, source unchanged, obj = self(old obj)
    fn = "app.composable._source_wrapped"
    agg, n = {}, 0
    for kind in ("proxy", "plain"):
        hooks = AppHooks(funcs, MAIN_OUTCOMES, ["data"])
        eng = Engine(funcs, hooks)
        st = {}

        def entry(e):
            selfv = make_self(True, GENERIC, False, ())
            old = Opaque("data", cls="Alignment")
            v = Opaque("source_proxy", obj=old, source="SRC") if kind == "proxy" else old
            e.state["v"], e.state["old"] = v, old
            return e.call("_source_wrapped", dict(self=selfv, value=v))
        for p in eng.run(entry, []):
            n += 1
            st = p.state
            info = f"kind={kind}; trace={[(a, str(b)[:30]) for a, b in p.trace]}; outcome={p.outcome}"
            a = agg.setdefault("post: proxy returned by identity with source unchanged and obj = self(old obj)", {"n": 0, "bad": []})
            a["n"] += 1
            ok = p.outcome == "return"
            if ok and kind == "proxy":
                r = p.value
                applied = [t for t in p.trace if t[0] == "self()"]
                ok = r is st["v"] and r.attrs["source"] == "SRC" and len(applied) == 1 and applied[0][1] is st["old"] \
                    and r.attrs["obj"] is not st["old"]
            elif ok:
                applied = [t for t in p.trace if t[0] == "self()"]
                ok = len(applied) == 1 and applied[0][1] is st["old"]
            if not ok:
                a["bad"].append(info)
    _emit(chk, fn, agg, n)
    # ---- _proxy_input: one proxy per truthy input, order preserved
    fn = "app.composable._proxy_input"
    agg, n = {}, 0
    kinds = {"falsy": lambda: Opaque("data", truthy=False), "plain": lambda: Opaque("data", cls="Alignment"),
             "has-source": lambda: Opaque("member", source="s"), "proxy": lambda: Opaque("source_proxy", obj=Opaque("data"), source="p")}
    for combo in itertools.product(kinds, repeat=3):
        hooks = AppHooks(funcs, MAIN_OUTCOMES, ["data"])
        eng = Engine(funcs, hooks)
        st = {}

        def entry(e):
            items = [kinds[k]() for k in combo]
            e.state["items"] = items
            return e.call("_proxy_input", dict(dstore=items))
        for p in eng.run(entry, []):
            n += 1
            st = p.state
            a = agg.setdefault("post: one entry per truthy input, in order; proxies and members with a source kept by identity", {"n": 0, "bad": []})
            a["n"] += 1
            ok = p.outcome == "return" and isinstance(p.value, list)
            if ok:
                want = [(k, it) for k, it in zip(combo, st["items"]) if k != "falsy"]
                ok = len(want) == len(p.value)
                for (k, it), got in zip(want, p.value):
                    if k in ("proxy", "has-source"):
                        ok = ok and got is it
                    else:
                        ok = ok and isinstance(got, Opaque) and got.tag == "source_proxy" and got.attrs["obj"] is it
            if not ok:
                a["bad"].append(f"inputs={combo}; outcome={p.outcome}:{str(p.value)[:80]}")
    _emit(chk, fn, agg, n)


class ApplyHooks(AppHooks):
    """_apply_to: the data store's membership test, as_completed (contract T: one result per input, any order),
    the writer's main() and the logger are externals"""

    def __init__(self, funcs, order, main_fails_on):
        super().__init__(funcs, ["data"], ["data"])
        self.order = order
        self.main_fails_on = main_fails_on
        self.globals.update({"DataStoreABC": ("func", "DataStoreABC"), "DataMember": ("func", "DataMember"),
                             "Path": ("func", "Path"), "time": Opaque("module", modname="time")})

    def isinst(self, v, t):
        ts = t if isinstance(t, tuple) and not (t and t[0] == "func") else (t,)
        for x in ts:
            if x in (("func", "DataStoreABC"), ("func", "Path")) or x is str:
                if isinstance(v, str) and x is str:
                    return True
                continue
            if x == ("func", "DataMember"):
                if isinstance(v, Opaque) and v.tag == "member":
                    return True
                continue
            if super().isinst(v, x):
                return True
        return False

    def call_name(self, eng, name, args, kw, env):
        if name == "Path":
            return args[0]
        if name == "_proxy_input":
            return eng.call("_proxy_input", dict(dstore=list(args[0])))
        if name == "getattr":
            o, a = args[0], args[1]
            if isinstance(o, Opaque) and a in o.attrs:
                return o.attrs[a]
            return args[2] if len(args) > 2 else None
        if name == "str":
            return "text"
        return super().call_name(eng, name, args, kw, env)

    def call_value(self, eng, fn, args, kw, env):
        if isinstance(fn, Opaque) and fn.tag == "id_from_source":
            x = args[0]
            if isinstance(x, Opaque):
                return x.attrs.get("uid", x.attrs.get("unique_id"))
            return x
        return super().call_value(eng, fn, args, kw, env)

    def call_method(self, eng, obj, meth, args, kw, env):
        if isinstance(obj, Rec) and obj.cls == "data_store" and meth == "__contains__":
            done = eng.choose(2, f"in_store[{args[0]}]") == 0
            eng.trace.append(("in_store", args[0], done))
            return done
        if isinstance(obj, Rec) and meth == "set_logger":
            obj.fields["logger"] = None
            return None
        if isinstance(obj, Rec) and meth == "as_completed":
            inputs = list(args[0])
            eng.trace.append(("as_completed", tuple(i.attrs["source"].attrs["uid"] for i in inputs)))
            # assumed contract T: one result per input, in any order (this run: the permutation self.order)
            perm = [p_ for p_ in self.order if p_ < len(inputs)]
            return [inputs[p_] for p_ in perm]
        if isinstance(obj, Rec) and meth == "main":
            ident = kw.get("identifier")
            data = kw.get("data")
            eng.trace.append(("writer.main", ident, data.attrs.get("uid") if isinstance(data, Opaque) else None))
            if ident in self.main_fails_on:
                eng.trace.append(("writer.main->", "raise"))
                raise Raise("ValueError")
            return Opaque("member-written", uid=ident)
        if isinstance(obj, dict) and meth == "values":
            return list(obj.values())
        return super().call_method(eng, obj, meth, args, kw, env)

    def truth(self, eng, v):
        if isinstance(v, Opaque) and v.tag == "member":
            return True
        return super().truth(eng, v)


def run_apply_to(chk):
    fn = "app.composable._apply_to"
    funcs = {"_apply_to": extract.get(FILE, "_apply_to"), "_proxy_input": extract.get(FILE, "_proxy_input")}
    ids = ["i0", "i1", "i2"]
    agg, n = {}, 0

    def note(clause, ok, info):
        a = agg.setdefault(clause, {"n": 0, "bad": []})
        a["n"] += 1
        if not ok:
            a["bad"].append(info)
    for k in (1, 2, 3):
        for order in itertools.permutations(range(k)):
            for fails in ([], ["i0"], ["i1"]):
                hooks = ApplyHooks(funcs, order, fails)
                eng = Engine(funcs, hooks)

                def entry(e):
                    members = [Opaque("member", uid=ids[j], unique_id=ids[j], source=None) for j in range(k)]
                    for mm in members:
                        mm.attrs["source"] = mm
                    selfv = Rec("writer-app", input=Rec("upstream-app"), data_store=Rec("data_store"), logger=None)
                    return e.call("_apply_to", dict(self=selfv, dstore=members, id_from_source=Opaque("id_from_source"),
                                                    parallel=False, par_kw=None, logger=False, cleanup=True, show_progress=False))
                try:
                    paths = eng.run(entry, [])
                except Unsupported as u:
                    chk.undecided.append(f"{fn}: UNSUPPORTED {u}")
                    return
                for p in paths:
                    if p.outcome == "abort":
                        continue
                    n += 1
                    tr = p.trace
                    in_store = {t[1]: t[2] for t in tr if t[0] == "in_store"}
                    written = [t[1] for t in tr if t[0] == "writer.main"]
                    new = [i for i in ids[:k] if not in_store.get(i, False)]
                    info = {"text": f"inputs={ids[:k]}, already stored={sorted(i for i in in_store if in_store[i])}, completion order={order}, "
                                    f"writer fails on {fails}: main() called for {written}; outcome {p.outcome} {p.value if p.outcome == 'raise' else ''}"}
                    failed_here = any(t == ("writer.main->", "raise") for t in tr)
                    note("noexcept: a record that fails inside the writer does not abort apply_to",
                         not (p.outcome == "raise" and failed_here), info)
                    if not failed_here and p.outcome == "return":
                        note("post: every identifier not yet in the store is written exactly once, stored ones are skipped",
                             sorted(written) == sorted(new), info)
                        pairs = [(t[1], t[2]) for t in tr if t[0] == "writer.main"]
                        note("post: each result is written under the identifier of its own source, whatever the completion order",
                             all(a == b for a, b in pairs), dict(info, text=info["text"] + f"; (identifier, source of data) pairs {pairs}"))
                    if p.outcome == "raise" and not failed_here:
                        note("post: apply_to raises only for an empty/duplicate input set", p.value in ("ValueError", "RuntimeError") and not new or p.value == "ValueError", info)
    _emit(chk, fn, agg, n)


def run(chk):
    for q in ("_call", "_validate_data_type", "_source_wrapped", "_proxy_input", "_apply_to"):
        chk.function(FILE, q, "P")
    only = getattr(chk, "only", None)
    if not only or "proof" in only:
        chk.guard(run_call)
        chk.guard(run_helpers)
        chk.guard(run_apply_to)
        chk.discharge(workers=1)
    chk.assume("assumed contract T: PAR.as_completed(f, xs) yields f(x) exactly once per x, in any order (multiprocessing "
               "result delivery is trusted; stood in for by the bounded tier)")
    chk.assume("self.main may return anything or raise any Exception; the upstream app self.input is used through the "
               "contract proved here for _call (induction over the composition)")
    chk.assume("finite families: input value kinds x _skip_not_completed x app type x declared data types are enumerated "
               "exhaustively over opaque objects; objects are distinguished only by identity and tag")
    if (not only or "bounded" in only) and os.path.exists(os.path.join(os.path.dirname(__file__), "..", "bounded", "C14.py")):
        chk.bounded("bounded.C14")
    chk.level = "other"
    chk.explanation = ("per-record accounting (_call, _validate_data_type, _source_wrapped, _proxy_input) proved by exhaustive "
                       "exception-flow execution of the real functions over opaque objects; schedule independence rests on "
                       "the assumed contract of as_completed and is checked by a bounded run-time contract")
