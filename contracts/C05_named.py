"""C05, per-model deductive tier: the *real* ``calcQ`` of every supplied continuous-time model, run on symbolic motif
probabilities and symbolic parameter values (operator overloading, pyvc/concolic.py -- no extraction, the executed text is
the code that runs), and the clauses of the property decided for ALL values as identities / sign certificates of
rational functions (pyvc/algebra.py):

  rows          every row of Q sums to zero
  offdiag       every off-diagonal cell is >= 0 wherever probabilities and parameters are positive
  calibration   - sum_i pi_i Q_ii == 1 (one expected substitution per unit length at the model's motif probabilities)
  stationary    sum_i pi_i Q_ij == 0 for every j              (classes deriving StationaryQ)
  reversible    pi_i Q_ij == pi_j Q_ji                          (classes deriving TimeReversible)

What is real and what is set up by this file: the model object is the one ``get_model`` returns; its predicates masks,
``calc_exchangeability_matrix``, the motif-probability model's ``calc_word_probs`` / ``calc_word_weight_matrix`` and
``calcQ`` are executed unmodified.  The only intervention is the dtype of the instance attribute
``_instantaneous_mask_f`` (float64 -> object, same values) so the array can hold symbolic cells; that the object-dtype
run is the float64 computation is cross-checked on every run at a random point (obligation ``crosscheck``)."""
from __future__ import annotations

import time
import warnings

import z3

from pyvc.algebra import identity_thunk, nonneg_thunk

SM = "cogent3/evolve/substitution_model.py"
NS = "cogent3/evolve/ns_substitution_model.py"
MP = "cogent3/evolve/motif_prob_model.py"

QUICK_MODELS = ["JC69", "F81", "K80", "HKY85", "TN93", "GTR", "GN", "ssGN", "BH"]
MAX_STATES_QUICK = 4
MAX_STATES_THOROUGH = 20


def _inputs(sm, numeric=None, rnd=None):
    """(input probability vector, word_probs thunk, mprobs_matrix thunk) for the model's motif-probability model, on
    symbols (numeric=None) or on floats drawn with rnd"""
    import numpy

    from pyvc import concolic as C
    mpm = sm.mprob_model
    kind = type(mpm).__name__
    if kind in ("SimpleMotifProbModel", "ConditionalMotifProbModel"):
        names = [str(m) for m in sm.get_motifs()]
    elif kind == "MonomerProbModel":
        names = [str(m) for m in mpm.get_input_alphabet()]
    else:
        raise NotImplementedError(f"motif probability model {kind}")
    if numeric is None:
        syms = [z3.Real(f"pi_{n}") for n in names]
        vec = numpy.array([C.Sym(s) for s in syms], dtype=object)
    else:
        raw = [rnd.uniform(0.2, 1.0) for _ in names]
        tot = sum(raw)
        syms = [x / tot for x in raw]
        vec = numpy.array(syms, dtype=float)
    if kind == "MonomerProbModel":
        return names, syms, vec, (lambda: mpm.calc_word_probs(vec)), (lambda: mpm.calc_word_weight_matrix(vec))
    return names, syms, vec, (lambda: vec), (lambda: mpm.calc_word_weight_matrix(vec))


def _model(name):
    from cogent3 import get_model
    with warnings.catch_warnings():
        warnings.simplefilter("ignore")
        return get_model(name)


def _float_Q(sm, rnd):
    import numpy
    names, pis, vec, wp, mm = _inputs(sm, numeric=True, rnd=rnd)
    pars = [rnd.uniform(0.3, 4.0) for _ in sm.parameter_order]
    w = numpy.array(wp(), dtype=float)
    Q = sm.calcQ(w, mm(), *pars)
    return names, pis, pars, w, numpy.array(Q, dtype=float)


def _clause_fails(sm, clause, w, Q, tol=1e-9):
    import numpy
    n = Q.shape[0]
    off = Q[~numpy.eye(n, dtype=bool)]
    if clause == "rows":
        return float(abs(Q.sum(axis=1)).max()) > tol
    if clause == "offdiag":
        return float(off.min()) < -tol
    if clause == "calibration":
        return abs(-(w * numpy.diag(Q)).sum() - 1.0) > tol
    if clause == "stationary":
        return float(abs(w @ Q).max()) > tol
    if clause == "reversible":
        F = w[:, None] * Q
        return float(abs(F - F.T).max()) > tol
    raise KeyError(clause)


def _replay(name, clause):
    def rep(model):
        """native: the real float calcQ of this model at 60 random admissible points against the clause"""
        import random
        sm = _model(name)
        rnd = random.Random(5)
        for _ in range(60):
            names, pis, pars, w, Q = _float_Q(sm, rnd)
            if _clause_fails(sm, clause, w, Q):
                return {"failed": True,
                        "witness": {"model": name, "motif_probs": dict(zip(names, pis)), "params": dict(zip(sm.parameter_order, pars))},
                        "description": f"{name}: clause '{clause}' fails for the rate matrix calcQ returns at these values"}
        return {"failed": False, "description": f"{name}: clause '{clause}' held at 60 random points"}
    return rep


def replayers():
    return [_replay(n, c) for n in QUICK_MODELS for c in ("rows", "offdiag", "calibration")] + \
           [_replay(n, "stationary") for n in ("F81", "HKY85", "TN93", "GTR")] + [_replay(n, "reversible") for n in ("HKY85", "GTR")]


def run_named(chk, thorough=False):
    import random

    import numpy

    from cogent3.evolve import substitution_model as S
    from pyvc import concolic as C
    chk.function(SM, "_ContinuousSubstitutionModel.calcQ", "P")
    chk.function(SM, "StationaryQ.calcQ", "P")
    chk.function(SM, "Parametric.calc_exchangeability_matrix", "P")
    chk.function(SM, "Empirical.calc_exchangeability_matrix", "P")
    chk.function(MP, "MotifProbModel.calc_word_weight_matrix", "P")
    chk.function(MP, "ConditionalMotifProbModel.calc_word_weight_matrix", "P")
    chk.assume("C05 per-model identities: the instance attribute _instantaneous_mask_f is re-typed float64 -> object (same "
               "values) so the real calc_exchangeability_matrix can hold symbolic cells; cross-checked numerically on every run")
    chk.assume("C05 per-model identities are over exact reals (rational functions); floating-point rounding of the same "
               "expressions is covered only by the bounded tier (1e-8)")
    names = list(QUICK_MODELS)
    if thorough:
        try:
            from cogent3.evolve import models as _models
            for n in _models.models:
                if n not in names:
                    names.append(n)
        except Exception as e:
            chk.notes.append(f"cogent3.evolve.models.models unusable for the model list ({type(e).__name__}); quick list used")
    limit = MAX_STATES_THOROUGH if thorough else MAX_STATES_QUICK
    n_models = 0
    for name in names:
        fn = f"evolve.substitution_model.calcQ[{name}]"
        try:
            sm = _model(name)
        except Exception as e:
            chk.undecided.append(f"{fn}: get_model({name!r}) fails ({type(e).__name__}: {e})")
            continue
        if not hasattr(sm, "calcQ") or not hasattr(sm, "parameter_order"):
            continue                                    # discrete-time models have no rate matrix
        n_states = len(sm.get_motifs())
        if n_states > limit:
            chk.notes.append(f"{name}: {n_states} states, beyond the per-model symbolic tier of this run (bounded tier only)")
            continue
        t0 = time.time()
        try:
            mask = getattr(sm, "_instantaneous_mask_f", None)
            if mask is not None:
                sm._instantaneous_mask_f = numpy.array(mask).astype(object)
            inames, pis, vec, wp, mm = _inputs(sm)
            pars = [z3.Real(f"par_{i}") for i, _ in enumerate(sm.parameter_order)]
            pre = [p > 0 for p in pis] + [p > 0 for p in pars]

            def call():
                w = wp()
                return w, sm.calcQ(w, mm(), *[C.Sym(p) for p in pars])
            paths = C.explore(call, pre)
        except Exception as e:
            chk.undecided.append(f"{fn}: the real code cannot be evaluated on symbolic reals ({type(e).__name__}: {e})")
            continue
        rets = [p for p in paths if p.outcome == "return"]
        for k_, p in enumerate(paths):
            if p.outcome == "raise":
                chk.obligation(f"{fn}/noexcept/path={k_}", "noexcept",
                               lambda v=p.value: ("refuted", "concolic", 0.0, {}, f"the real code raises on a feasible path: {v}"),
                               function=fn, key=f"C05/{fn}/noexcept", replayer=_replay(name, "rows"))
        if len(rets) != 1:
            chk.undecided.append(f"{fn}: {len(rets)} returning paths (one expected for positive probabilities)")
            continue
        w, Q = rets[0].value
        n = n_states
        try:
            Qt = [[C.term(Q[i][j]) for j in range(n)] for i in range(n)]
            wt = [C.term(w[i]) for i in range(n)]
        except Exception as e:
            chk.undecided.append(f"{fn}: result is not an n x n matrix of reals ({type(e).__name__}: {e})")
            continue
        n_models += 1
        # cross-check: the symbolic result evaluated at a random point is what the untouched float64 code returns there
        sm_f = _model(name)
        rnd = random.Random(3)
        _n, pis_f, pars_f, w_f, Q_f = _float_Q(sm_f, rnd)
        sub = [(s, z3.RealVal(repr(v))) for s, v in zip(pis, pis_f)] + [(s, z3.RealVal(repr(v))) for s, v in zip(pars, pars_f)]
        worst = 0.0
        for i in range(n):
            for j in range(n):
                v = z3.simplify(z3.substitute(Qt[i][j], *sub))
                fv = float(v.numerator_as_long()) / float(v.denominator_as_long()) if z3.is_rational_value(v) else float("nan")
                worst = max(worst, abs(fv - Q_f[i, j])) if fv == fv else float("inf")
        chk.obligation(f"{fn}/crosscheck", "cover",
                       lambda wv=worst: (("proved", "CPython float64 vs exact rational", 0.0, None, f"max |diff| {wv:.2e}") if wv < 1e-9 else
                                         ("error", "CPython", 0.0, None, f"the object-dtype run differs from the float64 run by {wv:.3g}")),
                       function=fn)
        # one fresh multiplier per cell: sum_k z_k * e_k == 0 as a polynomial identity iff every e_k == 0
        def combined(es, tag):
            zs = [z3.Real(f"zz_{tag}_{k}") for k in range(len(es))]
            return z3.Sum([z * e for z, e in zip(zs, es)]) if len(es) > 1 else es[0]
        zero = z3.RealVal(0)
        rows = [z3.Sum(Qt[i]) for i in range(n)]
        chk.obligation(f"{fn}/post.rows-sum-to-zero", "post", identity_thunk(combined(rows, "r"), zero, "row sums"),
                       function=fn, key=f"C05/{fn}/post.rows", replayer=_replay(name, "rows"))
        cal = -z3.Sum([wt[i] * Qt[i][i] for i in range(n)])
        chk.obligation(f"{fn}/post.calibrated-at-motif-probs", "post", identity_thunk(cal, z3.RealVal(1), "calibration"),
                       function=fn, key=f"C05/{fn}/post.calibration", replayer=_replay(name, "calibration"))
        for i in range(n):
            for j in range(n):
                if i != j:
                    chk.obligation(f"{fn}/post.offdiag-nonneg/cell={inames[i] if len(inames) == n else i}>{inames[j] if len(inames) == n else j}",
                                   "post", nonneg_thunk(Qt[i][j], f"Q[{i},{j}]"),
                                   function=fn, key=f"C05/{fn}/post.offdiag", replayer=_replay(name, "offdiag"))
        if isinstance(sm, S.StationaryQ):
            st = [z3.Sum([wt[i] * Qt[i][j] for i in range(n)]) for j in range(n)]
            chk.obligation(f"{fn}/post.motif-probs-stationary", "post", identity_thunk(combined(st, "s"), zero, "pi Q"),
                           function=fn, key=f"C05/{fn}/post.stationary", replayer=_replay(name, "stationary"))
        if isinstance(sm, S.TimeReversible):
            db = [wt[i] * Qt[i][j] - wt[j] * Qt[j][i] for i in range(n) for j in range(i + 1, n)]
            chk.obligation(f"{fn}/post.detailed-balance", "post", identity_thunk(combined(db, "d"), zero, "pi_i Q_ij - pi_j Q_ji"),
                           function=fn, key=f"C05/{fn}/post.reversible", replayer=_replay(name, "reversible"))
        chk.notes.append(f"{name}: {n} states, {len(pars)} parameters, symbolic calcQ + clauses in {time.time() - t0:.1f} s")
    if n_models == 0:
        chk.undecided.append("evolve.substitution_model.calcQ: no model could be evaluated symbolically")


GDTRI = z3.Function("GDTRI", z3.RealSort(), z3.RealSort(), z3.RealSort())
DEFN = "cogent3/recalculation/definition.py"


def _replay_rates(cls, n):
    def rep(model):
        """native: the real calc of the rate-class definition on random weights / values: weighted mean of the result is 1"""
        import random

        import numpy

        from cogent3.recalculation import definition as D
        rnd = random.Random(9)
        for _ in range(40):
            raw = [rnd.uniform(0.1, 1.0) for _ in range(n)]
            w = numpy.array(raw) / sum(raw)
            if cls == "GammaDefn":
                got = D.GammaDefn.calc(None, w, rnd.uniform(0.05, 5.0))
            else:
                got = getattr(D, cls).calc(None, w, numpy.array([rnd.uniform(0.01, 3.0) for _ in range(n)]))
            mean = float((w * got).sum())
            mono = cls == "WeightedPartitionDefn" or all(got[i] <= got[i + 1] + 1e-12 for i in range(n - 1))
            if abs(mean - 1.0) > 1e-9 or not mono or min(got) < 0:
                return {"failed": True, "witness": {"class": cls, "weights": list(map(float, w)), "result": list(map(float, got))},
                        "description": f"{cls}.calc with {n} bins: weighted mean of the rate multipliers is {mean!r} (ordered: {mono})"}
        return {"failed": False, "description": f"{cls}.calc with {n} bins: weighted mean 1 at 40 random points"}
    return rep


def rate_replayers():
    return [_replay_rates(c, n) for c in ("WeightedPartitionDefn", "MonotonicDefn", "GammaDefn") for n in (1, 2, 4)]


def run_rates(chk, thorough=False):
    """rate-class multipliers average to one: the real ``calc`` of WeightedPartitionDefn, MonotonicDefn and GammaDefn run on
    symbolic bin probabilities and values (the gamma quantile function gdtri is an uninterpreted function) for 1..N bins:
    sum_i (w_i / sum w) r_i == 1 as an identity; r_i >= 0 and (Monotonic, Gamma with ordered quantiles) r_i <= r_{i+1} by
    sign certificates.  All values, bin counts 1..5 (quick) / 1..8 (thorough)."""
    import numpy

    from cogent3.maths.stats import distribution as DIST
    from cogent3.recalculation import definition as D
    from pyvc import concolic as C
    for q in ("WeightedPartitionDefn.calc", "MonotonicDefn.calc", "GammaDefn.calc"):
        chk.function(DEFN, q, "P")
    chk.assume("C05 rate classes: gdtri (gamma quantile, scipy) is an uninterpreted function GDTRI(a, p); its values are taken as "
               "positive; the number of bins is a concrete 1..5 (thorough 1..8), all probabilities / values symbolic")
    for cls in ("WeightedPartitionDefn", "MonotonicDefn", "GammaDefn"):
        for n in range(1, (8 if thorough else 5) + 1):
            fn = f"recalculation.definition.{cls}.calc"
            base = f"{fn}/cfg=(bins={n})"
            w = [z3.Real(f"w{i}") for i in range(n)]
            x = [z3.Real(f"x{i}") for i in range(n)]
            a = z3.Real("shape")
            pre = [v > 0 for v in w + x] + [a > 0]

            def call():
                wa = numpy.array([C.Sym(v) for v in w], dtype=object)
                if cls == "GammaDefn":
                    saved = DIST.gdtri
                    DIST.gdtri = lambda a_, b_, p_: C.Sym(GDTRI(C.term(a_), C.term(p_)))
                    try:
                        return D.GammaDefn.calc(None, wa, C.Sym(a))
                    finally:
                        DIST.gdtri = saved
                return getattr(D, cls).calc(None, wa, numpy.array([C.Sym(v) for v in x], dtype=object))
            try:
                paths = C.explore(call, pre)
            except Exception as e:
                chk.undecided.append(f"{base}: the real code cannot be evaluated on symbolic reals ({type(e).__name__}: {e})")
                continue
            rets = [p for p in paths if p.outcome == "return"]
            rep = _replay_rates(cls, n)
            if len(rets) != 1 or len(paths) != 1:
                chk.obligation(f"{base}/noexcept", "noexcept",
                               lambda ps=paths: ("refuted", "concolic", 0.0, {}, f"{[(p.outcome, str(p.value)[:80]) for p in ps]}"),
                               function=fn, key=f"C05/{fn}/noexcept", replayer=rep)
                continue
            try:
                r = [C.term(v) for v in rets[0].value]
            except Exception as e:
                chk.undecided.append(f"{base}: result is not a vector of reals ({type(e).__name__}: {e})")
                continue
            if len(r) != n:
                chk.obligation(f"{base}/post.one-multiplier-per-bin", "post",
                               lambda k=len(r): ("refuted", "concolic", 0.0, {}, f"{k} multipliers for {n} bins"),
                               function=fn, key=f"C05/{fn}/post.size", replayer=rep)
                continue
            # the bin probabilities sum to one where the definitions are used; GammaDefn normalises them itself, the other two
            # take them as given -- the identity is stated with the probabilities each class works with
            W = z3.Sum(w) if n > 1 else w[0]
            pr = [w[i] / W for i in range(n)] if cls == "GammaDefn" else list(w)
            mean = z3.Sum([pr[i] * r[i] for i in range(n)]) if n > 1 else pr[0] * r[0]
            chk.obligation(f"{base}/post.weighted-mean-is-one", "post", identity_thunk(mean, z3.RealVal(1), "sum_i p_i r_i"),
                           function=fn, key=f"C05/{fn}/post.mean", replayer=rep)
            for i in range(n):
                chk.obligation(f"{base}/post.multiplier-nonneg/bin={i}", "post", nonneg_thunk(r[i], f"r[{i}]"),
                               function=fn, key=f"C05/{fn}/post.nonneg", replayer=rep)
            if cls == "MonotonicDefn":
                for i in range(n - 1):
                    chk.obligation(f"{base}/post.ordered/bin={i}", "post", nonneg_thunk(r[i + 1] - r[i], f"r[{i + 1}] - r[{i}]"),
                                   function=fn, key=f"C05/{fn}/post.ordered", replayer=rep)


EXPF = z3.Function("EXP", z3.RealSort(), z3.RealSort())
SOLVED = "cogent3/evolve/solved_models_numba.py"


def _replay_closed_form(model):
    """native: PredefinedNucleotide.calc_psub_matrix at random points: rows sum to one, P(0) = I, detailed balance"""
    import random

    import numpy

    from cogent3 import get_model
    rnd = random.Random(4)
    with warnings.catch_warnings():
        warnings.simplefilter("ignore")
        sm = get_model("TN93", rate_matrix_required=False)
    for _ in range(60):
        raw = [rnd.uniform(0.2, 1.0) for _ in range(4)]
        pi = numpy.array(raw) / sum(raw)
        ky, kr, t = rnd.uniform(0.2, 8), rnd.uniform(0.2, 8), rnd.choice((0.0, rnd.uniform(0.001, 3)))
        P = sm.calc_psub_matrix(pi, t, ky, kr)
        F = pi[:, None] * P
        bad = abs(P.sum(axis=1) - 1).max() > 1e-9 or abs(F - F.T).max() > 1e-9 or (t == 0.0 and abs(P - numpy.eye(4)).max() > 1e-12) \
            or P.min() < -1e-12
        if bad:
            return {"failed": True, "witness": {"pi": list(map(float, pi)), "kappa_y": ky, "kappa_r": kr, "time": t},
                    "description": f"closed-form TN93 P(t): rows sum {P.sum(axis=1)!r}, max |pi_i P_ij - pi_j P_ji| {abs(F - F.T).max():.2e}"}
    return {"failed": False, "description": "closed-form TN93 P(t): row sums, P(0), detailed balance hold at 60 random points"}


def run_closed_form(chk, thorough=False):
    """the closed-form P(t) of the predefined nucleotide models: the python function behind the numba kernel
    ``calc_TN93_P`` (``.py_func``, the text numba compiles) run on symbolic motif probabilities (summing to one by
    construction), rate terms and time, with ``math.exp`` an uninterpreted EXP and the kernel's float work arrays replaced by
    object arrays: every row of P sums to one, pi_i P_ij == pi_j P_ji, and P(0) == I -- as identities in the exponentials."""
    import numpy

    from cogent3.evolve import solved_models_numba as K
    from pyvc import concolic as C
    fn = "evolve.solved_models_numba.calc_TN93_P"
    chk.function(SOLVED, "calc_TN93_P", "P")
    chk.assume("C05 closed form: the jitted kernel is represented by its python source (calc_TN93_P.py_func, the text numba "
               "compiles; numba's compilation is trusted); math.exp is the uninterpreted EXP with EXP(0) = 1; numpy.zeros / "
               "numpy.array inside the kernel build object arrays so that cells can hold symbolic values")
    py = getattr(K.calc_TN93_P, "py_func", None)
    if py is None:
        chk.undecided.append(f"{fn}: no python source behind the kernel (py_func missing)")
        return
    p0, p1, p2 = z3.Reals("pi_T pi_C pi_A")
    ky, kr, t = z3.Reals("kappa_y kappa_r time")
    pis = [p0, p1, p2, 1 - p0 - p1 - p2]
    pre = [p0 > 0, p1 > 0, p2 > 0, pis[3] > 0, ky > 0, kr > 0, t >= 0]

    class FakeMath:
        @staticmethod
        def exp(v):
            import sympy

            from pyvc.algebra import to_sympy
            term = z3.simplify(C.term(v))
            if sympy.cancel(to_sympy(term)) == 0:         # EXP(0) = 1 (0 / x is 0 wherever x is not 0)
                return 1.0
            return C.Sym(EXPF(term))

    class FakeNP:
        def __getattr__(self, k):
            return getattr(numpy, k)

        @staticmethod
        def zeros(n):
            return numpy.array([0] * n, dtype=object)

        @staticmethod
        def array(x):
            return numpy.array(x, dtype=object)

    def run(time_value):
        def call():
            g = py.__globals__
            saved = g["math"], g["np"]
            g["math"], g["np"] = FakeMath, FakeNP()
            try:
                res = numpy.empty((4, 4), dtype=object)
                py(numpy.array([C.Sym(x) for x in pis], dtype=object), time_value, C.Sym(ky), C.Sym(kr), res)
                return res
            finally:
                g["math"], g["np"] = saved
        return C.explore(call, pre)
    for label, tv in (("t", C.Sym(t)), ("t=0", 0.0)):
        base = f"{fn}/cfg=({label})"
        try:
            paths = run(tv)
        except Exception as e:
            chk.undecided.append(f"{base}: the kernel's python source cannot be evaluated on symbolic reals ({type(e).__name__}: {e})")
            continue
        if len(paths) != 1 or paths[0].outcome != "return":
            chk.obligation(f"{base}/noexcept", "noexcept",
                           lambda ps=paths: ("refuted", "concolic", 0.0, {}, f"{[(p.outcome, str(p.value)[:80]) for p in ps]}"),
                           function=fn, key=f"C05/{fn}/noexcept", replayer=_replay_closed_form)
            continue
        try:
            P = [[C.term(paths[0].value[i][j]) for j in range(4)] for i in range(4)]
        except Exception as e:
            chk.undecided.append(f"{base}: result is not a 4 x 4 matrix of reals ({type(e).__name__}: {e})")
            continue
        one, zero = z3.RealVal(1), z3.RealVal(0)
        if label == "t":
            for i in range(4):
                chk.obligation(f"{base}/post.row-sums-to-one/row={i}", "post", identity_thunk(z3.Sum(P[i]), one, f"row {i}"),
                               function=fn, key=f"C05/{fn}/post.rows", replayer=_replay_closed_form)
            for i in range(4):
                for j in range(i + 1, 4):
                    chk.obligation(f"{base}/post.detailed-balance/cells={i},{j}", "post",
                                   identity_thunk(pis[i] * P[i][j], pis[j] * P[j][i], f"pi_{i} P_{i}{j} vs pi_{j} P_{j}{i}"),
                                   function=fn, key=f"C05/{fn}/post.reversible", replayer=_replay_closed_form)
        else:
            for i in range(4):
                for j in range(4):
                    chk.obligation(f"{base}/post.identity-at-length-zero/cell={i},{j}", "post",
                                   identity_thunk(P[i][j], one if i == j else zero, f"P(0)[{i},{j}]"),
                                   function=fn, key=f"C05/{fn}/post.P0", replayer=_replay_closed_form)
